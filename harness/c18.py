"""C18 - wire primitives (CompactSize, script numbers, pushes, script parse/serialize) against spec/Wire.tla.

(M) MC_Wire: exhaustive model of the primitives + parser state machine (design invariants).
(G)/(V) WireEval: every value the implementation produced or decoded is judged by TLC against the spec.
"""
import io
import itertools

from harness import common
from harness.common import Check, blist, tier

PID = 'C18'


def le_min(v):
    if not isinstance(v, int) or isinstance(v, bool) or v < 0:
        # a decoder of unsigned quantities answered something that is not a natural number: reported by the caller
        raise ValueError('not a natural number: %r' % (v,))
    out = []
    while v:
        out.append(v & 255)
        v >>= 8
    return out


def cs_form(v, w):
    """Input generator only (no oracle): the w-byte CompactSize form of v."""
    if w == 0:
        return bytes([v])
    return bytes([{2: 253, 4: 254, 8: 255}[w]]) + v.to_bytes(w, 'little')


def items_json(commands):
    out = []
    for c in commands:
        if isinstance(c, int):
            out.append({'t': 'op', 'c': c})
        elif isinstance(c, (bytes, bytearray)):
            out.append({'t': 'data', 'd': blist(c)})
        else:
            out.append({'t': 'list', 'items': items_json(c)} if isinstance(c, list) else {'t': 'op', 'c': 9999})
    return out


def run(replay=None):
    common.fresh_bitcoinlib_env()
    from bitcoinlib.encoding import (int_to_varbyteint, varbyteint_to_int, read_varbyteint, read_varbyteint_return,
                                     varstr)
    from bitcoinlib.scripts import Script, data_pack, encode_num, decode_num

    ck = Check(PID)
    thorough = tier() == 'thorough'
    rng = ck.rng
    ck.rule = ('records = (function, input) pairs judged by TLC against Wire.tla; a class is (record kind, size class of '
               'the input); CompactSize boundaries +-2, script numbers exhaustive on +-2^16 (thorough +-2^18) plus '
               'sign-bit edges, push lengths 0..520 and 65535, scripts = all item sequences up to the length bound')
    ck.assumptions = ['TLC evaluates Wire.tla correctly', 'well-formed inputs only (truncated streams are outside C18)']

    # ---------------- (M)
    ck.model(common.model_check('MC_Wire', 'MC_Wire_thorough.cfg' if thorough else 'MC_Wire.cfg',
                                expect_actions=['ParseStep']))

    recs = []   # (record, class, description)

    def add(rec, klass, desc):
        recs.append((rec, klass, desc))

    if replay:
        for r in replay['case']['records']:
            add(r, ('replay',), 'replay')
    # ---------------- CompactSize
    bounds = [0, 0xfc, 0xfd, 0xfe, 0xff, 0x100, 0xffff, 0x10000, 0xffffff, 0xffffffff, 0x100000000, 2 ** 63, 2 ** 64 - 1]
    vals = set()
    for b in bounds:
        for d in range(-2, 3):
            if 0 <= b + d < 2 ** 64:
                vals.add(b + d)
    nrand = 20000 if thorough else 3000
    for _ in range(nrand):
        bits = rng.choice([7, 8, 9, 15, 16, 17, 24, 31, 32, 33, 48, 63, 64])
        vals.add(rng.getrandbits(bits))
    if not replay:
        for v in sorted(vals):
            sz = v.bit_length()
            try:
                enc = int_to_varbyteint(v)
                add({'k': 'cs_enc', 'v': le_min(v), 'got': blist(enc)}, ('cs_enc', sz), 'int_to_varbyteint(%d)' % v)
                add({'k': 'cs_valid', 'v': le_min(v), 'got': blist(enc)}, ('cs_valid', sz), 'int_to_varbyteint(%d)' % v)
            except Exception as e:
                ck.violation(None, 'int_to_varbyteint(%d) raised %r' % (v, e), {'records': []})
            # decoders on every form that can hold v (all of them denote v), followed by trailing bytes
            for w in (0, 2, 4, 8):
                if (w == 0 and v < 253) or (w and v < 256 ** w):
                    form = cs_form(v, w)
                    data = form + bytes([rng.randrange(256) for _ in range(rng.choice([0, 1, 9]))])
                    try:
                        val, n = varbyteint_to_int(data[:9])
                        add({'k': 'cs_dec', 'b': blist(data), 'v': le_min(val), 'n': n}, ('cs_dec', w, sz > 8 * w - 8),
                            'varbyteint_to_int(%s)' % data[:9].hex())
                        s = io.BytesIO(b'\xaa' + data)
                        s.read(1)
                        val = read_varbyteint(s)
                        add({'k': 'cs_dec', 'b': blist(data), 'v': le_min(val), 'n': s.tell() - 1}, ('cs_dec_stream', w),
                            'read_varbyteint(%s)' % data.hex())
                        s = io.BytesIO(b'\xaa' + data)
                        s.read(1)
                        val, raw = read_varbyteint_return(s)
                        add({'k': 'cs_dec', 'b': blist(data), 'v': le_min(val), 'n': s.tell() - 1}, ('cs_dec_ret', w),
                            'read_varbyteint_return(%s)' % data.hex())
                        if raw != form:
                            ck.violation(None, 'read_varbyteint_return(%s) returned raw bytes %s' % (data.hex(), raw.hex()))
                    except Exception as e:
                        ck.violation(None, 'CompactSize decoder raised or answered no natural number (%r) on %s' % (e, data.hex()))
        # varstr
        # content classes include bytes that LOOK like text: ASCII hex digits, decimal digits, blanks (a bytes value is
        # binary data whatever it looks like)
        for n in [0, 1, 2, 0xfc, 0xfd, 0xfe, 0xff, 0x100, 0xffff, 0x10000] + ([0x10001, 70000] if thorough else []):
            for fill in ([0], [1], [0, 255], list(b'ab'), list(b'01'), list(b'AbCdEf09'), list(b' '), list(b'0x')):
                if n > 0x100 and fill[0] > 1 and fill != list(b'ab'):
                    continue
                d = bytes((fill * n)[:n])
                add({'k': 'varstr', 'd': blist(d), 'got': blist(varstr(d))}, ('varstr', n, fill[0]),
                    'varstr(%d bytes of %s)' % (n, fill))
        # ---------------- script numbers
        nb = 2 ** 18 if thorough else 2 ** 16
        nums = set(range(-nb, nb + 1))
        for k in (7, 8, 15, 16, 23, 24, 31):
            for d in (-2, -1, 0, 1, 2):
                x = 2 ** k + d
                if abs(x) < 2 ** 31:
                    nums.add(x)
                    nums.add(-x)
        for _ in range(nrand):
            nums.add(rng.randrange(-2 ** 31 + 1, 2 ** 31))
        for i in sorted(nums):
            e = encode_num(i)
            add({'k': 'num_enc', 'i': i, 'got': blist(e)}, ('num_enc', i.bit_length(), i < 0), 'encode_num(%d)' % i)
        # decoding: minimal encodings from the list above (as inputs) plus non-minimal / negative-zero forms
        dec_inputs = set()
        for i in list(nums)[::7] if not thorough else nums:
            a = abs(i)
            m = a.to_bytes((a.bit_length() + 7) // 8, 'little')
            dec_inputs.add(m)
            if m and len(m) < 4:
                dec_inputs.add(m + b'\x00')
                dec_inputs.add(m + b'\x80')
            if m and m[-1] < 128:
                dec_inputs.add(m[:-1] + bytes([m[-1] | 128]))
        dec_inputs.update([b'', b'\x80', b'\x00', b'\x00\x80', b'\x00\x00\x00\x80', b'\xff\xff\xff\x7f', b'\xff\xff\xff\xff'])
        for b in sorted(dec_inputs):
            try:
                g = decode_num(b)
                if abs(g) >= 2 ** 31:
                    ck.violation(None, 'decode_num(%s) = %d out of range' % (b.hex(), g))
                    continue
                add({'k': 'num_dec', 'b': blist(b), 'got': g}, ('num_dec', len(b), bool(b) and b[-1] >= 128),
                    'decode_num(%s)' % b.hex())
            except Exception as e:
                ck.violation(None, 'decode_num(%s) raised %r' % (b.hex(), e))
        # ---------------- pushes
        for n in list(range(0, 521)) + [65535] + ([1000, 4096, 65534] if thorough else []):
            d = bytes([rng.randrange(256) for _ in range(n)]) if n % 3 else bytes(rng.choice(b'0123456789abcdef') for _ in range(n))
            p = data_pack(d)
            if n and p[-n:] != d or len(p) < n:
                ck.violation(None, 'data_pack of %d bytes does not end with the data' % n)
                continue
            add({'k': 'push', 'n': n, 'got': blist(p[:len(p) - n])}, ('push', n), 'data_pack(%d bytes)' % n)

    # ---------------- scripts: spec -> code. item sequences, serialized by TLC (gen_ser) and by the implementation
    ops = [0, 79, 81, 96, 99, 103, 104, 106, 117, 118, 135, 136, 169, 172, 174, 175, 177, 178, 255]
    lens = [1, 2, 3, 4, 5, 20, 32, 33, 64, 65, 71, 72, 75, 76, 255, 256, 520]

    def rand_data(n):
        style = rng.randrange(4)
        if style == 0:
            return bytes([rng.randrange(256) for _ in range(n)])
        if style == 1:      # looks like a sequence of opcodes
            return bytes([rng.choice(ops[1:]) for _ in range(n)])
        if rng.random() < 0.25:      # looks like text: ASCII hex digits / blanks
            return bytes(rng.choice(b'0123456789abcdefABCDEF ') for _ in range(n))
        if style == 2:      # key-/signature-like first byte
            return bytes([rng.choice([2, 3, 4, 0x30])]) + bytes([rng.randrange(256) for _ in range(n - 1)])
        return bytes([rng.choice([0, 1, 0x51, 0x80, 0xff])] * n)

    scripts = []
    nrefused = [0]
    if not replay:
        singles = [[o] for o in ops] + [[rand_data(n)] for n in lens for _ in range(3)]
        scripts += singles
        # whole scripts whose LENGTH and first byte make them look like a signature or a public key: opcode sequences of
        # 64 bytes, of 33 bytes starting 02 / 03 (a 2- or 3-byte push first), of 65 bytes starting 04, of 69..74 bytes starting 0x30
        for total, first in ((64, [81]), (64, [117]), (33, [2, 81, 82]), (33, [3, 81, 82, 83]), (65, [4, 81, 82, 83, 84]),
                             (69, [48] + [81] * 48), (72, [48] + [82] * 48), (74, [48] + [83] * 48)):
            body = []
            if first[0] in (2, 3, 4, 48):
                body.append(bytes(first[1:]))              # data push of len(first) - 1 bytes: prefix byte = its length
                used = len(first)
            else:
                body.append(first[0])
                used = 1
            body += [rng.choice([81, 82, 118, 135]) for _ in range(total - used)]
            scripts.append(body)
        alphabet = ops[:10] + [1, 2, 20, 33, 71, 75, 76, 256]       # ints < 0 mean: data of that length
        maxlen = 3
        for n in (2, 3):
            for combo in itertools.product(range(len(alphabet)), repeat=n):
                if n == 3 and not thorough and rng.random() > 0.35:
                    continue
                s = []
                for ci in combo:
                    if ci < 10:
                        s.append(alphabet[ci])
                    else:
                        s.append(rand_data(alphabet[ci]))
                scripts.append(s)
        for _ in range(30000 if thorough else 3000):
            n = rng.randrange(1, 9)
            s = []
            for _ in range(n):
                if rng.random() < 0.55:
                    s.append(rng.randrange(79, 256) if rng.random() < 0.7 else rng.choice(ops))
                else:
                    s.append(rand_data(rng.choice(lens)))
            scripts.append(s)
    gen = common.tlc_eval('WireEval', [{'k': 'gen_ser', 'items': items_json(s)} for s in scripts])
    for s, g in zip(scripts, gen):
        exp = bytes(g['exp'])
        klass = tuple('op' if isinstance(c, int) else 'd%d' % len(c) for c in s)
        desc = 'script ' + ' '.join(str(c) if isinstance(c, int) else c.hex() for c in s)[:200]
        try:
            ser = Script(commands=list(s)).serialize()
            add({'k': 'ser', 'items': items_json(s), 'got': blist(ser)}, ('ser',) + klass, desc)
        except Exception as e:
            ck.violation(None, 'Script(commands).serialize() raised %r for %s' % (e, desc), {'records': []})
        for how in ('parse_bytes', 'parse_hex'):
            try:
                refused = False
                try:
                    sc = Script.parse_bytes(exp) if how == 'parse_bytes' else Script.parse_hex(exp.hex())
                except Exception:
                    refused = True
                    nrefused[0] += 1
                    sc = (Script.parse_bytes(exp, strict=False) if how == 'parse_bytes'
                          else Script.parse_hex(exp.hex(), strict=False))
                cmds = list(sc.commands)
                try:
                    reser = sc.serialize()
                except Exception as e:
                    reser = b'<serialize raised %r>' % str(e).encode()
                add({'k': 'parse', 'b': blist(exp), 'items': items_json(cmds), 'ser': blist(reser),
                     'strict_refused': refused},
                    (how,) + klass, '%s(%s)' % (how, exp.hex()[:200]))
            except Exception as e:
                rec = {'k': 'parse', 'b': blist(exp), 'items': [{'t': 'op', 'c': 9998}], 'ser': [],
                       'strict_refused': False}
                add(rec, (how, 'raised') + klass, '%s(%s) raised %r' % (how, exp.hex()[:200], e))

    # ---------------- concatenation: (A + B) is the script of A's items followed by B's items, whichever way A and B were made
    # (parsed, i.e. with cached bytes; built from items and never serialized; built and serialized before)
    if not replay:
        simple = [x for x in scripts if len(x) <= 4 and all(isinstance(c, int) or len(c) in (1, 2, 3, 5, 20, 32) for c in x)]
        exp_of = {}
        for x, g in zip(scripts, gen):
            exp_of[id(x)] = bytes(g['exp'])
        for _ in range(3000 if thorough else 240):
            a, b = rng.choice(simple), rng.choice(simple)
            how_a, how_b = rng.choice(['parsed', 'built', 'built+serialized']), rng.choice(['parsed', 'built', 'built+serialized'])
            try:
                def make(x, how):
                    if how == 'parsed':
                        return Script.parse_bytes(exp_of[id(x)], strict=False)
                    sc = Script(commands=list(x))
                    if how == 'built+serialized':
                        sc.serialize()
                        sc.as_bytes()
                    return sc
                c = make(a, how_a) + make(b, how_b)
                views = {'as_bytes': c.as_bytes(), 'as_hex': bytes.fromhex(c.as_hex())}
                if how_a != 'parsed' and how_b != 'parsed':
                    views['serialize'] = c.serialize()
            except Exception as e:
                ck.violation(None, 'Script + Script raised %r (%s + %s)' % (e, how_a, how_b), {'records': []})
                continue
            for view, got in views.items():
                add({'k': 'ser', 'items': items_json(list(a) + list(b)), 'got': blist(got)}, ('concat', how_a, how_b, view),
                    '(%s script %s) + (%s script %s) .%s()' % (how_a, exp_of[id(a)].hex()[:60], how_b, exp_of[id(b)].hex()[:60], view))

    # ---------------- judge everything with TLC
    verdicts = common.tlc_eval('WireEval', [r for r, _, _ in recs])
    for (rec, klass, desc), v in zip(recs, verdicts):
        ck.case(klass)
        if v['v'] != 'ok':
            key = v['dev'] or None
            ck.violation(key, '%s: clause %s; got %s, specification expects %s' % (
                desc, v['v'], str(rec.get('got', rec.get('items')))[:200], str(v['exp'])[:200]), {'records': [rec]})
    ck.traces = len(recs)
    for r, _, d in recs[:3] + recs[len(recs) // 2:len(recs) // 2 + 2] + recs[-2:]:
        ck.sample({'case': d, 'record': {k: (v if not isinstance(v, list) or len(v) < 40 else v[:40] + ['...'])
                                         for k, v in r.items()}}, limit=8)
    ck.notes['scripts'] = len(scripts)
    ck.notes['strict_mode_refusals_retried_nonstrict'] = nrefused[0]
    return ck.finish()
