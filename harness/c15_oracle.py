"""C15 helper: interpretation of the primitives Bip38.tla leaves uninterpreted, and the question/answer loop with TLC.

This module knows NOTHING about BIP38: it applies a named reference primitive (harness/ref.py: hashlib, pure-Python
secp256k1 and AES - nothing bitcoinlib uses) to the byte strings TLC built and hands the value back as an oracle fact.
Which primitive is applied to what, in which order, and what the result means is decided by the specification.
"""
import json
import os
import re
import shutil
import tempfile
import time
from concurrent.futures import ThreadPoolExecutor

from harness import common, ref

N = ref.N
TLC_PROCS = min(common.NCPU, 12)


def _pt(pt):
    return [] if pt is None else list(pt[0].to_bytes(32, 'big') + pt[1].to_bytes(32, 'big'))


def apply_prim(f, a):
    """Value of primitive f on arguments a (list of lists of naturals)."""
    if f == 'nfc':
        return [ord(c) for c in ref.nfc(''.join(chr(c) for c in a[0]))]
    if f == 'sha256d':
        return list(ref.sha256d(bytes(a[0])))
    if f == 'hash160':
        return list(ref.hash160(bytes(a[0])))
    if f == 'scrypt':
        return list(ref.scrypt(bytes(a[0]), bytes(a[1]), a[2][0], a[3][0], a[4][0], a[5][0]))
    if f == 'aes256enc':
        return list(ref.aes256_encrypt_block(bytes(a[0]), bytes(a[1])))
    if f == 'aes256dec':
        return list(ref.aes256_decrypt_block(bytes(a[0]), bytes(a[1])))
    if f == 'ec_mul_g':
        k = int.from_bytes(bytes(a[0]), 'big') % N
        return _pt(ref.ec_mul(k)) if k else []
    if f == 'ec_mul':
        p = ref.parse_point(bytes(a[0]))
        k = int.from_bytes(bytes(a[1]), 'big') % N
        if p is None or not k:
            return []
        return _pt(ref.ec_mul(k, p))
    if f == 'mulmod_n':
        return list((int.from_bytes(bytes(a[0]), 'big') * int.from_bytes(bytes(a[1]), 'big') % N).to_bytes(32, 'big'))
    raise common.MachineryError('specification asked for unknown primitive %r' % f)


def _key(q):
    return q['f'], tuple(tuple(x) for x in q['a'])


# ---------------------------------------------------------------------------------------------
# TLC runs: many short evaluations, so the JVM is started from a class-data archive and with the C1 compiler only
# ---------------------------------------------------------------------------------------------
_jsa = {'path': None, 'tried': False}


def _fast_jvm():
    flags = ['-XX:TieredStopAtLevel=1', '-Xmx2g', '-Xss64m']
    if _jsa['path']:
        flags.insert(0, '-XX:SharedArchiveFile=' + _jsa['path'])
    return tuple(flags)


def prepare_jvm(module, cfg):
    """Create a class-data-sharing archive for the evaluation runs (purely a start-up optimisation; optional)."""
    if _jsa['tried']:
        return
    _jsa['tried'] = True
    d = tempfile.mkdtemp(prefix='cds_', dir=common.scratch())
    path = os.path.join(d, 'tlc.jsa')
    fin = os.path.join(d, 'in.ndjson')
    with open(fin, 'w') as f:
        f.write('{"k":"warmup","facts":[]}\n')
    try:
        common.run_tlc(module, cfg, env={'IN_FILE': fin, 'OUT_FILE': os.path.join(d, 'out.ndjson')}, workers=1,
                       timeout=120, jvm=('-XX:ArchiveClassesAtExit=' + path, '-Xmx1g', '-Xss64m'))
    except Exception:
        return
    if os.path.exists(path) and os.path.getsize(path) > 100000:
        _jsa['path'] = path


def _eval_chunk(args):
    module, recs, cfg, timeout = args
    d = tempfile.mkdtemp(prefix='eval_', dir=common.scratch())
    fin = os.path.join(d, 'in.ndjson')
    fout = os.path.join(d, 'out.ndjson')
    with open(fin, 'w') as f:
        for r in recs:
            f.write(json.dumps(r, separators=(',', ':')) + '\n')
    rc, out = common.run_tlc(module, cfg, env={'IN_FILE': fin, 'OUT_FILE': fout}, workers=1, timeout=timeout,
                             jvm=_fast_jvm())
    if rc != 0 or not os.path.exists(fout):
        raise common.MachineryError('TLC evaluation of %s failed (rc=%s):\n%s' % (module, rc, out[-4000:]))
    res = []
    with open(fout) as f:
        for line in f:
            line = line.strip()
            if line:
                res.append(json.loads(line))
    shutil.rmtree(d, True)
    if len(res) != len(recs):
        raise common.MachineryError('TLC evaluation of %s returned %d results for %d records' % (module, len(res), len(recs)))
    return res


def tlc_eval_fast(module, recs, cfg, per_chunk=16, timeout=900):
    recs = list(recs)
    if not recs:
        return []
    nchunks = max(1, min(TLC_PROCS, (len(recs) + per_chunk - 1) // per_chunk))
    size = (len(recs) + nchunks - 1) // nchunks
    jobs = [(module, recs[i:i + size], cfg, timeout) for i in range(0, len(recs), size)]
    out = []
    with ThreadPoolExecutor(max_workers=TLC_PROCS) as ex:
        for r in ex.map(_eval_chunk, jobs):
            out.extend(r)
    return out


_EDGE = re.compile(r'^-?\d+ -> -?\d+ \[label="(\w+)', re.M)


def model_check_graph(module, cfg, expect_actions=(), workers=8, timeout=1800):
    """(M) like common.model_check, but vacuity is read from the dumped state graph (edges per action) instead of
    `-coverage 1`, whose instrumentation makes this evaluation-heavy model five times slower.  An invariant violation
    or an action without any edge is a machinery failure."""
    t0 = time.time()
    d = tempfile.mkdtemp(prefix='graph_', dir=common.scratch())
    dot = os.path.join(d, 'g.dot')
    rc, out = common.run_tlc(module, cfg, workers=workers, timeout=timeout, extra=['-dump', 'dot,actionlabels', dot])
    st = common.tlc_stats(out)
    if rc != 0 or 'Model checking completed. No error has been found.' not in out:
        raise common.MachineryError('model check %s/%s failed (rc=%s):\n%s' % (module, cfg, rc, out[-4000:]))
    cov = {}
    if os.path.exists(dot):
        with open(dot) as f:
            for m in _EDGE.finditer(f.read()):
                cov[m.group(1)] = cov.get(m.group(1), 0) + 1
    shutil.rmtree(d, True)
    for a in expect_actions:
        if not cov.get(a):
            raise common.MachineryError('vacuity: action %s of %s never taken (edges per action %s)' % (a, module, cov))
    st['coverage'] = cov
    st['wall_s'] = round(time.time() - t0, 2)
    st['module'] = module
    st['cfg'] = cfg
    return st


class Oracle:
    """Runs records through spec/<module>: TLC either gives a verdict or asks for primitive applications ("need")."""

    def __init__(self, module='Bip38Eval', cfg='Bip38Eval.cfg', max_rounds=40):
        self.module = module
        self.cfg = cfg
        self.max_rounds = max_rounds
        self.cache = {}
        self.rounds = 0
        self.applications = {}
        self.tlc_runs = 0
        self.round_times = []

    def _answer(self, qs):
        todo = {}
        for q in qs:
            k = _key(q)
            if k not in self.cache and k not in todo:
                todo[k] = q
        if todo:
            items = list(todo.items())
            # hashlib.scrypt releases the GIL; everything else is cheap
            with ThreadPoolExecutor(max_workers=common.NCPU) as ex:
                vals = list(ex.map(lambda kv: apply_prim(kv[1]['f'], kv[1]['a']), items))
            for (k, q), v in zip(items, vals):
                self.cache[k] = v
                self.applications[q['f']] = self.applications.get(q['f'], 0) + 1

    def judge(self, recs):
        """Verdict for every record (dict without 'facts'). Returns the list of verdict dicts."""
        recs = list(recs)
        facts = [[] for _ in recs]
        verdicts = [None] * len(recs)
        pending = list(range(len(recs)))
        rounds = 0
        while pending:
            rounds += 1
            if rounds > self.max_rounds:
                raise common.MachineryError('oracle loop of %s did not converge in %d rounds' % (self.module, self.max_rounds))
            batch = [dict(recs[i], facts=facts[i]) for i in pending]
            t0 = time.time()
            out = tlc_eval_fast(self.module, batch, self.cfg)
            t1 = time.time()
            self.tlc_runs += 1
            nxt = []
            asked = []
            for i, o in zip(pending, out):
                if o['v'] == 'need':
                    if not o['need']:
                        raise common.MachineryError('specification asked for nothing')
                    asked.append((i, o['need']))
                    nxt.append(i)
                else:
                    verdicts[i] = o
            self._answer([q for _, qs in asked for q in qs])
            for i, qs in asked:
                have = set(_key(x) for x in facts[i])
                new = set()
                for q in qs:
                    k = _key(q)
                    if k in have:       # a fact it was already given: the binding of the oracle table is broken
                        raise common.MachineryError('specification asked twice for %r' % (q,))
                    if k in new:        # two candidate explanations need the same application
                        continue
                    new.add(k)
                    facts[i].append({'f': q['f'], 'a': q['a'], 'o': self.cache[k]})
            self.round_times.append((len(pending), round(t1 - t0, 1), round(time.time() - t1, 1)))
            pending = nxt
        self.rounds = max(self.rounds, rounds)
        return verdicts
