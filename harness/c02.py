"""C02 - soundness / completeness of transaction verification against spec/Signing.tla.

(M) MC_Signing: all action sequences up to depth 3/4 on six input configurations; verdict rules consistent,
    completeness after honest signing, signing monotone.
(G/V) seeded action sequences (sign with any subset/order of keys over several calls, re-sign, tamper with every
    committed field class, corrupt / drop / foreign / duplicated signatures, serialize+parse round trips) are performed
    on real Transaction objects; after every action Transaction.verify() is observed and TLC (SigningEval) decides
    whether the specification allows that verdict in the state reached.
"""
import copy
import logging

from harness import common, ref, locktime
from harness.common import Check, tier

PID = 'C02'
CFGS = [
    [('single', 'legacy')], [('single', 'segwit')], [('single', 'p2sh-segwit')],
    [('ms23', 'legacy')], [('ms23', 'segwit')], [('ms23', 'p2sh-segwit')], [('ms12', 'segwit')], [('ms33', 'legacy')],
    [('ms12', 'segwit'), ('single', 'legacy')], [('ms23', 'legacy'), ('single', 'segwit')],
    [('single', 'legacy'), ('single', 'p2sh-segwit')], [('ms23', 'p2sh-segwit'), ('ms23', 'legacy')],
]
SHAPE = {'single': (1, 1), 'ms23': (3, 2), 'ms12': (2, 1), 'ms33': (3, 3)}
FIELDS = ['out.value', 'out.script', 'outpoint', 'sequence', 'locktime', 'version', 'amount']


def gen_sequences(rng, cfg, count):
    seqs = []
    for _ in range(count):
        steps = []
        nsteps = rng.randrange(2, 7)
        disturbed = False
        signed = [set() for _ in cfg]          # key positions that have signed (generator's own bookkeeping)
        for _ in range(nsteps):
            j = rng.randrange(len(cfg))
            n, m = SHAPE[cfg[j][0]]
            r = rng.random()
            if r < 0.5 and not disturbed:
                k = rng.randrange(1, n + 1)
                keys = [rng.randrange(1, n + 1) for _ in range(k)]
                if rng.random() < 0.08:
                    keys.insert(rng.randrange(len(keys) + 1), 0)
                steps.append({'op': 'sign', 'j': j + 1, 'keys': keys, 'f': '', 'pos': 0})
                signed[j] |= {k for k in keys if k}
            elif r < 0.62:
                # a raw transaction carries neither keys nor script types of unsigned / partially signed inputs, so a
                # round trip is only meaningful (and only generated) once every input has its m signatures
                if all(len(signed[x]) >= SHAPE[cfg[x][0]][1] for x in range(len(cfg))):
                    steps.append({'op': 'roundtrip', 'j': 1, 'keys': [], 'f': '', 'pos': 0})
            elif r < 0.66:
                # the signatures leave the object in their exported form (as_dict) and a new transaction is built from them
                steps.append({'op': 'export', 'j': 1, 'keys': [], 'f': '', 'pos': rng.choice([0, 1])})
            elif r < 0.78:
                f = rng.choice(FIELDS)
                fully = all(len(signed[x]) >= SHAPE[cfg[x][0]][1] for x in range(len(cfg)))
                if fully and f in ('version', 'locktime', 'sequence', 'out.value') and rng.random() < 0.5:
                    # the same field changed in the SERIALIZED transaction, which is then parsed again
                    steps.append({'op': 'tamper', 'j': j + 1, 'keys': [], 'f': f, 'pos': rng.choice([1, 2, 3])})
                else:
                    steps.append({'op': 'tamper', 'j': j + 1, 'keys': [], 'f': f, 'pos': 0})
                disturbed = True
            elif r < 0.86:
                steps.append({'op': rng.choice(['corrupt', 'drop']), 'j': j + 1, 'keys': [], 'f': '', 'pos': rng.randrange(1, n + 1)})
                disturbed = True
                # (a later round trip is still allowed: the signature objects are replaced, not removed, by corrupt;
                # after drop the count may fall below m, which the bookkeeping reflects)
                if steps[-1]['op'] == 'drop':
                    signed[j].discard(steps[-1]['pos'])
            else:
                steps.append({'op': rng.choice(['foreign', 'duplicate']), 'j': j + 1, 'keys': [], 'f': '', 'pos': 0})
                disturbed = True
        seqs.append(steps)
    return seqs


def systematic_sequences(cfg):
    """Fully sign every input (m keys each), then change one committed field - on the object and in the serialized form, with
    each kind of new value - and verify; also a round trip before the change."""
    sign_all = [{'op': 'sign', 'j': j + 1, 'keys': list(range(1, SHAPE[cfg[j][0]][1] + 1)), 'f': '', 'pos': 0} for j in range(len(cfg))]
    seqs = []
    for f in FIELDS:
        for pos in (0, 1, 2, 3):
            if pos and f not in ('version', 'locktime', 'sequence', 'out.value'):
                continue
            for j in range(len(cfg)):
                if j and f not in ('sequence', 'outpoint', 'amount'):
                    continue
                t = {'op': 'tamper', 'j': j + 1, 'keys': [], 'f': f, 'pos': pos}
                seqs.append(sign_all + [t])
                if pos == 0:
                    seqs.append(sign_all + [{'op': 'roundtrip', 'j': 1, 'keys': [], 'f': '', 'pos': 0}, t])
    return seqs


def run_sequences(job):
    """Worker: perform action sequences on real transactions; returns records for SigningEval."""
    import random
    logging.disable(logging.CRITICAL)
    from bitcoinlib.transactions import Transaction
    from bitcoinlib.keys import Key, Signature, sign as bsign
    seed, cfg, seqs, network = job[:4]
    grind = job[4] if len(job) > 4 else None          # first byte the r value of the first signature shall have
    rng = random.Random(seed)
    out = []
    for steps in seqs:
        privs = [[Key(rng.randrange(1, ref.N), network=network) for _ in range(SHAPE[shape][0])] for shape, _ in cfg]
        if isinstance(grind, str) and grind.startswith('pub01'):
            # public keys whose compressed encoding ends in 01 (key strings are told apart by their first and last bytes)
            for ks in privs:
                while ks[0].public_byte[-1] != 1:
                    ks[0] = Key(rng.randrange(1, ref.N), network=network)
        keyform = rng.choice(['object', 'hex', 'bytes']) if not isinstance(grind, str) else grind.split('-')[1]

        def kf(k):
            return k.public() if keyform == 'object' else (k.public_hex if keyform == 'hex' else k.public_byte)
        values = [rng.choice([100000, 2 ** 32 + 77]) for _ in cfg]
        outkey = Key(rng.randrange(1, ref.N), network=network)
        # what is known about the spent output may be handed over too: its locking script (single-key inputs)
        with_ls = [rng.random() < 0.4 for _ in cfg]

        def spent_script(k, wt):
            kh = ref.hash160(k.public_byte)
            if wt == 'legacy':
                return b'\x76\xa9\x14' + kh + b'\x88\xac'
            if wt == 'segwit':
                return b'\x00\x14' + kh
            return b'\xa9\x14' + ref.hash160(b'\x00\x14' + kh) + b'\x87'

        def build():
            t = Transaction(network=network, witness_type='segwit' if any(w != 'legacy' for _, w in cfg) else 'legacy')
            for j, (shape, wt) in enumerate(cfg):
                n, m = SHAPE[shape]
                ks = privs[j]
                if n == 1:
                    kw = {'locking_script': spent_script(ks[0], wt)} if with_ls[j] else {}
                    t.add_input(prev_txid=bytes([j + 1]) * 32, output_n=j, keys=kf(ks[0]), script_type='sig_pubkey', value=values[j],
                                witness_type=wt, sequence=0xfffffffd, **kw)
                else:
                    t.add_input(prev_txid=bytes([j + 1]) * 32, output_n=j, keys=[kf(k) for k in ks], script_type='p2sh_multisig',
                                sigs_required=m, value=values[j], witness_type=wt, sequence=0xfffffffd)
            t.add_output(50000, outkey.address())
            t.add_output(20000, lock_script=b'\x51')
            return t
        if grind is not None and not isinstance(grind, str):
            # a first signer whose signature has an r value starting with the wanted byte (exported forms are told apart
            # by their first byte)
            for _ in range(6000):
                trial = build()
                trial.sign([privs[0][0]], index_n=0, fail_on_unknown_key=False)
                if trial.inputs[0].signatures and trial.inputs[0].signatures[0].r >> 248 == grind:
                    break
                privs[0][0] = Key(rng.randrange(1, ref.N), network=network)
        t = build()
        foreign = Key(rng.randrange(1, ref.N), network=network)
        rec_steps = []
        err = None
        seen = {}
        vcache = {}
        for a in steps:
            j = a['j'] - 1
            try:
                inp = t.inputs[j]
                if a['op'] == 'sign':
                    keys = [foreign if p == 0 else privs[j][p - 1] for p in a['keys']]
                    t.sign(keys, index_n=j, fail_on_unknown_key=False)
                elif a['op'] == 'roundtrip':
                    t = Transaction.parse(t.raw(), strict=True, network=network)
                    for jj, v in enumerate(values):
                        t.inputs[jj].value = v
                elif a['op'] == 'export':
                    d = t.as_dict()
                    t2 = Transaction(network=network, witness_type=t.witness_type, version=t.version_int, locktime=t.locktime)
                    for jj, x in enumerate(t.inputs):
                        sigs = [sg if a['pos'] == 0 else bytes.fromhex(sg) for sg in d['inputs'][jj]['signatures']]
                        pubs = [k.public() for k in privs[jj]]
                        t2.add_input(prev_txid=x.prev_txid, output_n=x.output_n_int, keys=pubs[0] if len(pubs) == 1 else pubs,
                                     script_type=x.script_type, sigs_required=x.sigs_required, value=values[jj], witness_type=x.witness_type,
                                     sequence=x.sequence, signatures=sigs)
                    for o in t.outputs:
                        t2.add_output(o.value, lock_script=o.lock_script)
                    # (the constructor reads version 0 / locktime 0 as "not given"; the rebuilt transaction is the same transaction)
                    t2.version, t2.version_int, t2.locktime = t.version, t.version_int, t.locktime
                    t = t2
                elif a['op'] == 'tamper' and a['pos']:
                    # change the field in the raw bytes (pos selects the new value), then parse
                    f = a['f']
                    raw = bytearray(t.raw())
                    def fresh(key, old, wanted):
                        # a value this field never had in this trace (going back would make the signatures valid again)
                        had = seen.setdefault(key, {old})
                        had.add(old)
                        for c in [wanted, (old + 1) % 2 ** 32, (old + 2) % 2 ** 32, (old + 3) % 2 ** 32, 77, 78, 79, 80]:
                            if c not in had:
                                had.add(c)
                                return c
                    if f == 'version':
                        old = int.from_bytes(raw[0:4], 'little')
                        raw[0:4] = fresh('version', old, [0, old + 1, 0xffffffff][a['pos'] - 1]).to_bytes(4, 'little')
                    elif f == 'locktime':
                        old = int.from_bytes(raw[-4:], 'little')
                        raw[-4:] = fresh('locktime', old, [0, old + 1, 0xffffffff][a['pos'] - 1]).to_bytes(4, 'little')
                    elif f == 'sequence':
                        cur = inp.sequence
                        at = bytes(raw).find(inp.prev_txid[::-1] + inp.output_n[::-1])      # the outpoint of input j
                        at = bytes(raw).find(cur.to_bytes(4, 'little'), at + 36)
                        raw[at:at + 4] = fresh(('sequence', j), cur, [0, 0xfffffffe, 0xffffffff][a['pos'] - 1]).to_bytes(4, 'little')
                    else:
                        vb = int(t.outputs[0].value).to_bytes(8, 'little')
                        at = bytes(raw).find(vb)
                        raw[at:at + 8] = (int(t.outputs[0].value) + a['pos']).to_bytes(8, 'little')
                    t = Transaction.parse(bytes(raw), strict=True, network=network)
                    for jj, v in enumerate(values):
                        t.inputs[jj].value = v
                elif a['op'] == 'tamper':
                    f = a['f']
                    if f == 'out.value':
                        t.outputs[0].value += 1
                    elif f == 'out.script':
                        # never back to a value it had before (the signatures would be valid again)
                        t.outputs[1].lock_script = bytes([t.outputs[1].lock_script[0] + 1])
                    elif f == 'outpoint':
                        inp.output_n = ((int.from_bytes(inp.output_n, 'big') + 1) % 2 ** 32).to_bytes(4, 'big')
                        inp.output_n_int = int.from_bytes(inp.output_n, 'big')
                    elif f == 'sequence':
                        had = seen.setdefault(('sequence', j), {inp.sequence})
                        had.add(inp.sequence)
                        inp.sequence = next(c for c in range(0xfffffff0, 0xfffffff0 - 40, -1) if c not in had)
                        had.add(inp.sequence)
                    elif f == 'locktime':
                        had = seen.setdefault('locktime', {t.locktime})
                        had.add(t.locktime)
                        t.locktime = next(c for c in range(1000, 1040) if c not in had)
                        had.add(t.locktime)
                    elif f == 'version':
                        had = seen.setdefault('version', {t.version_int})
                        had.add(t.version_int)
                        t.version_int = next(c for c in range(3, 43) if c not in had)
                        had.add(t.version_int)
                        t.version = t.version_int.to_bytes(4, 'big')
                    elif f == 'amount':
                        inp.value += 1
                        values[j] += 1
                elif a['op'] in ('corrupt', 'drop') and inp.signatures:
                    digest = t.signature_hash(j, 1, witness_type=inp.witness_type)
                    z = int.from_bytes(digest, 'big')
                    pt = ref.parse_point(privs[j][a['pos'] - 1].public_byte) if a['pos'] <= len(privs[j]) else None
                    hits = [si for si, sg in enumerate(inp.signatures) if pt is not None and ref.ecdsa_verify(pt, z, sg.r, sg.s)]
                    if hits:
                        if a['op'] == 'drop':
                            for si in reversed(hits):          # every copy of that key's signature
                                del inp.signatures[si]
                        else:
                            for si in hits:
                                sg = inp.signatures[si]
                                inp.signatures[si] = Signature(sg.r, sg.s ^ 2 if 1 < (sg.s ^ 2) < ref.N else sg.s - 1, hash_type=sg.hash_type)
                        if len(inp.signatures) < SHAPE[cfg[j][0]][1]:
                            # update_scripts() rebuilds the unlocking data only from enough signatures: without this the object
                            # would keep serializing the signatures just removed
                            inp.witnesses = []
                            inp.unlocking_script = b''
                        inp.update_scripts()
                elif a['op'] == 'foreign' and inp.keys:
                    digest = t.signature_hash(j, 1, witness_type=inp.witness_type)
                    inp.signatures.append(bsign(digest, foreign))
                    inp.update_scripts()
                elif a['op'] == 'duplicate':
                    if inp.signatures:
                        inp.signatures.insert(1, copy.deepcopy(inp.signatures[0]))
                        inp.update_scripts()
            except Exception as e:
                err = '%s raised %r' % (a['op'], e)
            try:
                lib = bool(t.verify())
            except Exception as e:
                lib = False
            # soundness against the keys the caller LISTED: a positive verdict needs, for every input, m distinct listed public
            # keys with a signature that the reference verifier accepts over the input's digest
            listed_ok = None
            if lib:
                listed_ok = True
                try:
                    for jj, inp in enumerate(t.inputs):
                        z = int.from_bytes(t.signature_hash(jj, 1, witness_type=inp.witness_type), 'big')
                        signers = set()
                        for sg in inp.signatures:
                            for pos, k in enumerate(privs[jj]):
                                ck_ = (z, sg.r, sg.s, pos, jj)
                                if ck_ not in vcache:
                                    vcache[ck_] = ref.ecdsa_verify(ref.parse_point(k.public_byte), z, sg.r, sg.s)
                                if vcache[ck_]:
                                    signers.add(pos)
                        if len(signers) < SHAPE[cfg[jj][0]][1]:
                            listed_ok = False
                except Exception:
                    listed_ok = None
            rec_steps.append({'a': a, 'lib': lib, 'err': err or '', 'listed_ok': listed_ok})
            if err:
                break
        out.append({'cfg': [{'n': SHAPE[s][0], 'm': SHAPE[s][1], 'segwit': w != 'legacy'} for s, w in cfg], 'steps': rec_steps,
                    'kinds': cfg, 'error': err, 'network': network})
    return out


def run(replay=None):
    common.fresh_bitcoinlib_env()
    ref.selftest()
    ck = Check(PID)
    thorough = tier() == 'thorough'
    ck.rule = ('case = one action performed on a real transaction followed by Transaction.verify(); a trace = input configuration '
               '+ action sequence (2..6 actions); class = (configuration, action kind, tampered field, verdict of the specification)')
    ck.assumptions = ['signatures made by the library over the right digest are valid (C01 decides the digest)',
                      'validity of each signature is known by construction (which key signed, what was changed since)',
                      'junk signatures are only added after the honest signing phase of a trace']
    ck.model(common.model_check('MC_Signing', 'MC_Signing_thorough.cfg' if thorough else 'MC_Signing.cfg', expect_actions=['Next']))
    rng = ck.rng
    jobs = []
    nets = ['bitcoin', 'testnet', 'litecoin']
    if replay and 'locktime' in replay['case']:
        locktime.run_section(ck, thorough, replay)
        return ck.finish()
    from harness import c02ht
    if replay and 'ht_case' in replay['case']:
        c02ht.run_section(ck, thorough, replay)
        return ck.finish()
    if not replay:
        locktime.run_section(ck, thorough)
        c02ht.run_section(ck, thorough)
    if replay:
        c = replay['case']
        jobs = [(c['seed'], [tuple(x) for x in c['kinds']], [c['steps']], c['network']) + ((c['grind'],) if c.get('grind') is not None else ())]
    else:
        per = 140 if thorough else 16
        for ci, cfg in enumerate(CFGS):
            for part in range(4):
                jobs.append((common.seed() + ci * 10 + part, cfg, gen_sequences(rng, cfg, per), nets[(ci + part) % 3]))
            jobs.append((common.seed() + ci * 10 + 9, cfg, systematic_sequences(cfg), nets[ci % 3]))
            # exported signatures whose first byte looks like a DER sequence tag (0x30), an integer tag (0x02), or is zero
            sign_all = [{'op': 'sign', 'j': j + 1, 'keys': list(range(1, SHAPE[cfg[j][0]][1] + 1)), 'f': '', 'pos': 0} for j in range(len(cfg))]
            for form in ('hex', 'bytes'):
                jobs.append((common.seed() + ci * 10 + 7, cfg, [sign_all, sign_all + [{'op': 'roundtrip', 'j': 1, 'keys': [], 'f': '', 'pos': 0}]],
                             nets[ci % 3], 'pub01-' + form))
            if ci % 3 == common.seed() % 3 or thorough:
                for gb in (0x30, 0x02, 0x00):
                    jobs.append((common.seed() + ci * 10 + 8, cfg, [sign_all + [{'op': 'export', 'j': 1, 'keys': [], 'f': '', 'pos': p}]
                                                                  for p in (0, 1)], nets[ci % 3], gb))
    results = common.pmap(run_sequences, jobs)
    flat = [(job, rec) for job, res in zip(jobs, results) for rec in res]
    verdicts = common.tlc_eval('SigningEval', [{'cfg': r['cfg'], 'steps': [{'a': s['a'], 'lib': s['lib']} for s in r['steps']]}
                                               for _, r in flat])
    for (job, r), v in zip(flat, verdicts):
        ck.traces += 1
        for s in r['steps']:
            ck.case((tuple(r['kinds']), s['a']['op'], s['a']['f'], s['lib']))
        desc = ' ; '.join('%s(j=%d%s%s%s)->%s' % (s['a']['op'], s['a']['j'], (' keys=%s' % s['a']['keys']) if s['a']['keys'] else '',
                                                  (' ' + s['a']['f']) if s['a']['f'] else '', (' pos=%d' % s['a']['pos']) if s['a']['pos'] else '',
                                                  'verified' if s['lib'] else 'not-verified') for s in r['steps'])
        case = {'seed': job[0], 'kinds': [list(k) for k in r['kinds']], 'steps': [s['a'] for s in r['steps']], 'network': r['network'],
                'grind': job[4] if len(job) > 4 else None}
        bad = next((n for n, s in enumerate(r['steps']) if s.get('listed_ok') is False), None)
        if bad is not None:
            ck.violation(None, 'clause verified-without-signatures-of-the-listed-keys; inputs %s on %s, step %d of [%s]: verify() is True but '
                         'the reference verifier finds fewer than m listed public keys with a valid signature over the digest'
                         % (r['kinds'], r['network'], bad + 1, desc), case)
        if r['error']:
            ck.violation(None, 'clause action-raised; %s on %s: %s [%s]' % (r['kinds'], r['network'], r['error'], desc), case)
            continue
        if v['v'] != 'ok':
            ck.violation(None, 'clause %s; inputs %s on %s, step %d of [%s]' % (v['v'], r['kinds'], r['network'], v['at'], desc), case)
        elif v['dev']:
            ck.violation(v['dev'], 'clause %s; inputs %s: [%s]' % (v['dev'], r['kinds'], desc), case)
    ck.notes['traces'] = len(flat)
    for _, r in flat[:3]:
        ck.sample({'inputs': r['kinds'], 'steps': [[s['a']['op'], s['a']['j'], s['a']['keys'], s['a']['f'], s['lib']] for s in r['steps']]})
    return ck.finish()
