"""C20, transport level: the terminal behaviours of ServiceFailover replayed through REAL client classes (BlockstreamClient
over BaseClient.request) with a scripted HTTP layer, so that "which exchange counts as an answer" (spec/Transport.tla) is
bound to bitcoinlib/services/baseclient.py and the client code that reads the bodies.  No repository hook: the `requests`
name inside bitcoinlib.services.baseclient is replaced by a scripted object in the worker process."""
import json
import random
import time

HOSTS = ['h1', 'h2', 'h3', 'h4']
METHODS = ['blockcount', 'getutxos', 'getbalance', 'estimatefee', 'getrawtransaction', 'isspent', 'mempool']
NOCACHE_INI = '[common]\nservice_caching_enabled = False\n'
BODY_TEXT = {'empty': '', 'garbage': '<html><body><h1>502 Bad Gateway</h1></body></html>', 'null': 'null',
             'error-object': '{"error": "rate limited", "code": -1}'}


class _Resp:
    def __init__(self, status, text):
        self.status_code = status
        self.text = text
        self.content = text.encode()
        self.encoding = 'utf-8'
        self.apparent_encoding = 'ascii'
        self.headers = {}
        self.reason = ''

    @property
    def ok(self):
        return self.status_code < 400

    def json(self):
        return json.loads(self.text)


class Transport:
    """Stands in for the `requests` module inside bitcoinlib.services.baseclient."""

    def __init__(self):
        import requests
        self.exceptions = requests.exceptions
        self.script = {}        # host -> exchange {'fault','status','body'}
        self.valid = {}         # host -> function(path) -> text
        self.log = []           # (host, path)

    def _do(self, url):
        rest = url.split('://', 1)[1]
        host, _, path = rest.partition('/')
        host = host.split('.')[0]
        path = path.split('?')[0]
        if path.startswith('api/'):
            path = path[4:]
        self.log.append((host, path))
        x = self.script.get(host, {'fault': '', 'status': 200, 'body': 'valid'})
        if x['fault']:
            exc = {'timeout': self.exceptions.ReadTimeout, 'connection-error': self.exceptions.ConnectionError,
                   'ssl-error': self.exceptions.SSLError, 'too-many-redirects': self.exceptions.TooManyRedirects}[x['fault']]
            raise exc('scripted %s of %s' % (x['fault'], host))
        text = self.valid[host](path) if x['body'] == 'valid' else BODY_TEXT[x['body']]
        return _Resp(x['status'], text)

    def get(self, url, **kw):
        return self._do(url)

    def post(self, url, **kw):
        return self._do(url)


CLIENTS = {'blockstream': 'BlockstreamClient', 'mempool': 'MempoolClient'}


def term_key(t, resp=None):
    return json.dumps([t['order'], sorted((resp or t['resp']).items()), t['mp'], t['me']])


def _setup(network, client):
    import os
    d = os.environ['BCL_DATA_DIR']
    provs = {}
    for i, h in enumerate(HOSTS):
        provs[h] = {"provider": client, "network": network, "client_class": CLIENTS[client], "provider_coin_id": "",
                    "url": "http://%s.test/api/" % h, "api_key": "", "priority": 10 - i, "denominator": 1,
                    "network_overrides": None, "timeout": 0}
    with open(os.path.join(d, 'providers.json'), 'w') as f:
        json.dump(provs, f)
    import bitcoinlib.services.baseclient as bc
    tr = Transport()
    bc.requests = tr
    return tr


def replay_http(job):
    """Worker: terminal behaviours (response kinds ok/raise) -> exchanges drawn from the realizations TLC computed ->
    real Service + BlockstreamClient over the scripted transport; what is observed is compared with the behaviour."""
    network, client, terms, index, real, seed, mode = job
    relaxed = mode != 'exact'
    rng = random.Random(seed)
    from bitcoinlib.services.services import Service, ServiceError
    from harness import c20
    tr = _setup(network, client)
    txs = c20._mk_txs(network)
    qtx = txs[0].txid
    addr = txs[0].outputs[0].address
    bump = [0]

    def valid_for(i):
        def f(path):
            if path == 'blocks/tip/height':
                return str(800000 + bump[0] + i)
            if path.endswith('/utxo'):
                return json.dumps([{'txid': '%064x' % (0xabc0 + i), 'vout': i, 'value': 5000 + i,
                                    'status': {'confirmed': True, 'block_height': 700000, 'block_time': 1600000000}}])
            if path.startswith('address/'):
                return json.dumps({'address': addr, 'chain_stats': {'funded_txo_sum': 100000 + i, 'spent_txo_sum': 0, 'tx_count': 1},
                                   'mempool_stats': {'funded_txo_sum': 0, 'spent_txo_sum': 0, 'tx_count': 0}})
            if path == 'fee-estimates':
                return json.dumps({'1': 30.0 + i, '5': 20.0 + i, '25': 10.0 + i})
            if path == 'v1/fees/recommended':
                return json.dumps({'fastestFee': 30 + i, 'halfHourFee': 25 + i, 'hourFee': 20 + i, 'economyFee': 5 + i, 'minimumFee': 1 + i})
            if path.endswith('/hex'):
                return txs[i].raw_hex()
            if '/outspend/' in path:
                return json.dumps({'spent': True, 'txid': '%064x' % 7, 'vin': 0})
            if path == 'mempool/txids':
                return json.dumps(['%064x' % (0x1110 + i)])
            return 'null'
        return f
    for i, h in enumerate(HOSTS):
        tr.valid[h] = valid_for(i)
    srv = Service(network=network, providers=[client], max_providers=1)
    hosts = [h for h in HOSTS if h in srv.providers]
    if len(hosts) != len(HOSTS):
        return {'n': 0, 'bad': [], 'setup_error': 'providers seen by Service: %r' % sorted(srv.providers)}

    def call(m):
        if m == 'blockcount':
            srv._blockcount_update = 0
            try:
                return srv.blockcount()
            finally:
                srv._blockcount_update = time.time()
        if m == 'getutxos':
            return srv.getutxos(addr)
        if m == 'getbalance':
            return srv.getbalance([addr])
        if m == 'estimatefee':
            return srv.estimatefee(5)
        if m == 'getrawtransaction':
            return srv.getrawtransaction(qtx)
        if m == 'isspent':
            return srv.isspent(qtx, 0)
        if m == 'mempool':
            return srv.mempool('')

    def payload(x):
        return json.loads(BODY_TEXT[x['body']]) if x['body'] == 'error-object' else BODY_TEXT[x['body']]

    def same(m, got, h, x=None):
        if x is not None and x['body'] != 'valid':
            return got == payload(x) and type(got) is type(payload(x))
        i = HOSTS.index(h)
        if m == 'blockcount':
            return got == 800000 + bump[0] + i
        if m == 'getutxos':
            return isinstance(got, list) and len(got) == 1 and got[0].get('txid') == '%064x' % (0xabc0 + i) and \
                got[0].get('value') == 5000 + i and got[0].get('output_n') == i
        if m == 'getbalance':
            return got == 100000 + i
        if m == 'estimatefee':
            return got == (20 + i) * 1000
        if m == 'getrawtransaction':
            return got == txs[i].raw_hex()
        if m == 'isspent':
            return got in (1, True) and got is not None
        if m == 'mempool':
            return got == ['%064x' % (0x1110 + i)]

    out = []
    n = 0
    name = {'p%d' % (k + 1): HOSTS[k] for k in range(len(HOSTS))}
    for term in terms:
        for m in METHODS:
            n += 1
            tr.script.clear()
            used = {}
            for h in HOSTS:
                srv.providers[h]['url'] = ''
                srv.providers[h]['priority'] = -5
            for p, kind in term['resp'].items():
                h = name[p]
                if kind == 'ok':
                    x = rng.choice(real['ok'])
                elif relaxed:
                    x = rng.choice(real[mode])
                else:
                    x = rng.choice(real['raise'])
                tr.script[h] = x
                used[h] = x
                srv.providers[h]['url'] = 'http://%s.test/api/' % h
                srv.providers[h]['priority'] = 100 - term['order'].index(p)
            srv.max_providers = term['mp']
            srv.max_errors = term['me']
            if m == 'blockcount':
                bump[0] += 10
            before_count = srv._blockcount
            del tr.log[:]
            kind, got = 'value', None
            try:
                got = call(m)
            except ServiceError:
                kind = 'error'
            except Exception as e:
                kind = 'exception:%s:%s' % (type(e).__name__, str(e)[:80])
            called = []
            for h, _ in tr.log:
                if h not in called:
                    called.append(h)
            obs = {'kind': kind, 'called': called, 'results': list(srv.results.keys()), 'errors': sorted(srv.errors.keys()),
                   'rc': srv.resultcount, 'got': repr(got)[:160]}
            fee_default = srv.network.fee_default

            def judge(t):
                """problems of the observation against terminal behaviour t (the exchanges of providers t calls 'ok' are answers)"""
                pr = []
                dv = None
                exp_called = [name[p] for p in t['called']]
                exp_results = [name[p] for p in t['results']]
                if called != exp_called:
                    pr.append('called: observed %s, specification %s' % (called, exp_called))
                if obs['results'] != exp_results:
                    pr.append('results: observed %s, specification %s' % (obs['results'], exp_results))
                if not relaxed and obs['errors'] != sorted(name[p] for p in t['errors']):
                    pr.append('errors: observed %s, specification %s' % (obs['errors'], sorted(name[p] for p in t['errors'])))
                view = t['views'].get(m, {'view': 'value' if t['outcome'] == 'return' else 'fail', 'dev': ''})
                if view['view'] == 'value':
                    h = name[t['retval']]
                    if kind != 'value' or not same(m, got, h, used[h]):
                        pr.append('return: expected the answer of %s, observed %s %s' % (h, kind, obs['got']))
                else:
                    failed = kind == 'error' or (kind == 'value' and got is False)
                    if view['view'] == 'cached-or-fail':
                        failed = failed or (kind == 'value' and got == before_count)
                    if view['view'] == 'error':
                        failed = kind == 'error'
                    if not failed:
                        if view['dev'] and c20._is_dev(m, got, fee_default):
                            dv = view['dev']
                        pr.append('return: expected failure, observed %s %s' % (kind, obs['got']))
                return pr, dv

            problems, dev = judge(term)
            if problems and mode == 'malformed':
                # a malformed payload may also be handed on as it was sent: any subset of the malformed providers as "ok"
                bad_ps = [p for p, k in term['resp'].items() if k == 'raise']
                for mask in range(1, 2 ** len(bad_ps)):
                    resp2 = dict(term['resp'])
                    for j, p in enumerate(bad_ps):
                        if mask >> j & 1:
                            resp2[p] = 'ok'
                    t2 = index.get(term_key(term, resp2))
                    if t2 is not None and not judge(t2)[0]:
                        problems = []
                        break
            if problems:
                # which exchange was taken for an answer / which answer was passed over
                culprit = next((h for h in called if not (used[h]['fault'] == '' and used[h]['status'] in (200, 201) and used[h]['body'] == 'valid')
                                and h in obs['results']), None)
                out.append({'network': network, 'client': client, 'method': m, 'mode': mode, 'seed': seed,
                            'term': {k: term[k] for k in ('order', 'resp', 'mp', 'me', 'outcome', 'retval')},
                            'exchanges': used, 'obs': obs, 'problems': problems,
                            'dev': dev if dev is not None and len(problems) == 1 else None,
                            'taken_for_answer': used.get(culprit) if culprit else None})
    return {'n': n, 'bad': out}
