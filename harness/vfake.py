"""Scripted fake service providers (registered as bitcoinlib.services.vfake by the C20 driver; no repository hook).

providers.json entries point at FakeClient / FakeClientNoMethods; the provider name travels in the url ('fake://p1').
SCRIPT maps provider name -> behaviour; every instantiation and call is appended to LOG."""
from bitcoinlib.services.baseclient import BaseClient, ClientError

SCRIPT = {}
VALUES = {}
LOG = []

METHODS = ['getbalance', 'getutxos', 'gettransaction', 'gettransactions', 'getrawtransaction', 'sendrawtransaction',
           'estimatefee', 'blockcount', 'getblock', 'getrawblock', 'mempool', 'isspent', 'getinfo']


class FakeClientNoMethods(BaseClient):
    def __init__(self, network, base_url, denominator, *args):
        super().__init__(network, 'vfake', base_url, denominator, *args)
        self.pname = base_url.split('//')[-1]
        LOG.append(('inst', self.pname, ''))


class FakeClient(FakeClientNoMethods):
    pass


def _make(method):
    def call(self, *args):
        LOG.append(('call', self.pname, method))
        kind = SCRIPT.get(self.pname, 'ok')
        if kind == 'ok':
            v = VALUES[(self.pname, method)]
            return v(*args) if callable(v) else v
        if kind == 'false':
            return False
        if kind == 'raiseattr':
            raise AttributeError('scripted attribute error')
        raise ClientError('scripted failure of %s' % self.pname)
    call.__name__ = method
    return call


for _m in METHODS:
    setattr(FakeClient, _m, _make(_m))
