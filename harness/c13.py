"""C13 - ECDSA signatures are valid, canonical, deterministic; the verifier is exact  (spec/Ecdsa.tla).

(M) MC_Ecdsa: bounded model on a toy curve - the signing ledger/judge against the declarative statements of the
    property (never blames the specification's signer, blames exactly the histories that break Deterministic /
    NonceUnique / LowS / StrictDER / Valid), DER round trip, every encoding class of the verifier table denotes what it
    is meant to, the verdict operator agrees with the reference verifier.
(V) signing: bitcoinlib signs (sign, Signature.create, Transaction.sign; key/digest representations, hash types,
    deterministic / random / explicit nonces, adversarial keys and digests); the traces are validated by TLC
    (EcdsaEval `strace`, `ledger`).  Validity of each signature is an oracle fact of the reference secp256k1 code.
(G) verifier: TLC generates the class table (r, s classes x encoding classes x digest classes x key classes) with
    the bytes for each case (EcdsaEval `vgen`); the implementation's verify / Signature.parse_bytes answers are judged
    by TLC (`vcase`, `pcase`).  (V) randomly mutated encodings are classified by TLC (`denote`) and judged the same way.
(G) environment: TLC enumerates the behaviours of spec/EcdsaEnv.tla (Seed / SaveState / RestoreState / ForkSign on the
    ambient pseudo-random generators interleaved with sign calls, MC_EcdsaEnv model-checks them); each is replayed with
    random.seed / numpy.random.seed, getstate / setstate and os.fork around real sign calls and the recorded r, s are judged
    by TLC (`envgen`, `envtrace`).
(G) object: TLC enumerates the call sequences of spec/EcdsaObj.tla on one Signature object (verify with given / omitted
    digest and key, public_key / txid assignments; MC_EcdsaObj model-checks the judge); each is replayed on real objects and
    the verdicts together with the key / digest the object reported before each call are judged by TLC (`objgen`, `objtrace`).
Python only generates inputs, transports values and evaluates the primitives (harness/ref.py).
"""
import itertools

from harness import common, ref, c13_ec
from harness.common import Check, tier

PID = 'C13'
PROCS = 8          # parallel TLC / driver processes (the machine is shared)


def spread_eval(recs, procs):
    """tlc_eval over `procs` TLC processes with heavy and light records dealt round-robin."""
    n = len(recs)
    if n == 0:
        return []
    procs = max(1, min(procs, n))
    order = [i for p in range(procs) for i in range(p, n, procs)]
    out = common.tlc_eval('EcdsaEval', [recs[i] for i in order], chunk=(n + procs - 1) // procs, procs=procs)
    res = [None] * n
    for i, o in zip(order, out):
        res[i] = o
    return res
N = ref.N
HALF = (N - 1) // 2


def h32(v):
    return v.to_bytes(32, 'big').hex()


def bl(v):
    """int -> minimal big-endian byte list (TLA+ scalar)."""
    return list(v.to_bytes((v.bit_length() + 7) // 8, 'big'))


def hb(hexstr):
    return list(bytes.fromhex(hexstr))


# ---------------------------------------------------------------------------------------------------------------
# workers (run in fresh processes with bitcoinlib imported from the tree under test)
# ---------------------------------------------------------------------------------------------------------------
_pub_cache = {}


def _pub_point(d):
    if d not in _pub_cache:
        _pub_cache[d] = c13_ec.mul_G(d)
    return _pub_cache[d]


def _mk_key(form, dhex):
    from bitcoinlib.keys import Key, HDKey
    if form == 'Key':
        return Key(dhex)
    if form == 'Key-uncompressed':
        return Key(dhex, compressed=False)
    if form == 'HDKey':
        return HDKey(dhex)
    if form == 'HDKey-chain':
        return HDKey(key=bytes.fromhex(dhex), chain=b'\x07' * 32)
    if form == 'hex':
        return dhex
    if form == 'bytes':
        return bytes.fromhex(dhex)
    raise ValueError(form)


def z_as(zhex, form):
    """The digest in the representation `form` (all denote the same 32 bytes)."""
    if form == 'bytes':
        return bytes.fromhex(zhex)
    if form == 'hex':
        return zhex.lower()
    if form == 'hex-upper':
        return zhex.upper()
    if form == 'hex-mixed':
        return ''.join(c.upper() if i % 2 else c.lower() for i, c in enumerate(zhex))
    raise ValueError(form)


def _obs_sig(sg, d, zhex):
    r, s = int(sg.r), int(sg.s)
    der = sg.as_der_encoded()
    raw = sg.bytes()
    return {'refused': False, 'r': '%x' % r, 's': '%x' % s, 'der': bytes(der).hex(), 'raw': bytes(raw).hex(),
            'k': None if sg.k is None else '%x' % int(sg.k), 'pub': ref.ser_point(_pub_point(d)).hex(),
            'valid': bool(c13_ec.ecdsa_verify(_pub_point(d), int(zhex, 16), r, s))}


def _do_sign(req):
    from bitcoinlib.keys import sign, Signature, verify
    d = int(req['d'], 16)
    try:
        key = _mk_key(req['keyform'], req['d'])
        z = z_as(req['z'], req['zform'])
        kw = {'hash_type': req['ht']}
        if req['mode'] == 'random':
            kw['use_rfc6979'] = False
        elif req['mode'] == 'explicit':
            kw['k'] = int(req['k'], 16)
        f = sign if req['api'] == 'sign' else Signature.create
        sg = f(z, key, **kw)
        o = _obs_sig(sg, d, req['z'])
        if req.get('selfv'):
            sv = {}
            for name, call in (('obj.verify()', lambda: sg.verify()),
                               ('obj.verify(z)', lambda: sg.verify(z)),
                               ('obj.verify(z-bytes)', lambda: sg.verify(bytes.fromhex(req['z']))),
                               ('verify(z,obj)', lambda: verify(z, sg))):
                try:
                    sv[name] = 'accept' if call() is True else 'reject'
                except Exception:
                    sv[name] = 'reject'
            o['selfv'] = sv
        return o
    except Exception as e:      # any exception = refused
        return {'refused': True, 'err': repr(e)[:200]}


def _do_tx(req):
    """Sign a transaction with Transaction.sign; one observation per signature found in the inputs afterwards."""
    from bitcoinlib.keys import Key
    from bitcoinlib.transactions import Transaction
    wt, st = req['wt'], req['st']
    ds = [int(x, 16) for x in req['ds']]
    keys = [Key(x, compressed=req.get('compressed', True)) for x in req['ds']]
    try:
        t = Transaction(network='bitcoin', witness_type=wt)
        for i in range(req['nin']):
            t.add_input(prev_txid=ref.sha256(bytes([i]) + bytes.fromhex(req['salt'])), output_n=i,
                        keys=[k.public() for k in keys], script_type=st, witness_type=wt, value=100000 + i,
                        sigs_required=len(keys), compressed=req.get('compressed', True))
        t.add_output(50000 * req['nin'], address=keys[0].address())
        zs = [t.signature_hash(i, witness_type=wt) for i in range(req['nin'])]
        t.sign(keys)
        out = []
        for i, inp in enumerate(t.inputs):
            for sg in inp.signatures:
                pub = sg.public_key.public_byte
                pt = ref.parse_point(bytes(pub))
                who = [d for d in ds if _pub_point(d) == pt]
                if not who:
                    out.append({'refused': True, 'err': 'signature of input %d carries a key that is not a signer' % i})
                    continue
                o = _obs_sig(sg, who[0], zs[i].hex())
                o.update({'d': h32(who[0]), 'z': zs[i].hex()})
                out.append(o)
        if len(out) != req['nin'] * len(keys):
            out.append({'refused': True, 'err': 'expected %d signatures, found %d' % (req['nin'] * len(keys), len(out))})
        return out
    except Exception as e:
        return [{'refused': True, 'err': repr(e)[:200]}]


def _do_verify(c):
    """One verifier case: what the three entry points answer, what parse_bytes returns, and the oracle facts."""
    from bitcoinlib.keys import verify, Signature, Key, HDKey
    sig = bytes.fromhex(c['sig'])
    z = bytes.fromhex(c['z'])
    pub = bytes.fromhex(c['pub'])
    res = {}
    for api in c['apis']:
        try:
            if api == 'verify':
                ok = verify(z, sig, pub)
            elif api == 'verify-hex':       # hex digest and signature, key object
                ok = verify(z.hex(), sig.hex(), Key(pub))
            elif api == 'verify-HDKey':
                ok = verify(z, sig, HDKey(pub))
            elif api == 'verify-Key-hex':
                ok = verify(z, sig, Key(pub.hex()))
            elif api == 'verify-pubhex':     # the key as hexadecimal text
                ok = verify(z, sig, pub.hex())
            elif api == 'parse-verify-pubhex':
                ok = Signature.parse_bytes(sig).verify(z, pub.hex())
            elif api == 'verify-point':      # the key as a coordinate pair (65-octet inputs only)
                ok = verify(z, sig, Key((int.from_bytes(pub[1:33], 'big'), int.from_bytes(pub[33:], 'big'))))
            elif api == 'verify-hex-upper':
                ok = verify(z.hex().upper(), sig.hex(), Key(pub))
            elif api == 'parse-verify':
                ok = Signature.parse_bytes(sig, public_key=pub).verify(z)
            elif api == 'parse-verify-hex':
                ok = Signature.parse_bytes(sig).verify(z_as(z.hex(), c.get('zform2', 'hex')), pub)
            elif api == 'reuse-verify-hex':
                sg = Signature.parse_bytes(sig, public_key=pub)
                try:
                    sg.verify(z)
                except Exception:
                    pass
                ok = sg.verify(z.hex())
            elif api == 'reuse-verify':     # the same object asked about another digest first
                sg = Signature.parse_bytes(sig, public_key=pub)
                try:
                    sg.verify(bytes([z[0] ^ 0x40]) + z[1:])
                except Exception:
                    pass
                ok = sg.verify(z)
            elif api == 'rs-verify':        # only for 64-byte raw cases
                ok = Signature(int.from_bytes(sig[:32], 'big'), int.from_bytes(sig[32:], 'big')).verify(z, pub)
            else:
                raise ValueError(api)
            res[api] = 'accept' if ok is True or (ok and ok == 1) else 'reject'
        except Exception:
            res[api] = 'reject'
    try:
        p = Signature.parse_bytes(sig)
        parsed = {'ok': True, 'r': bl(int(p.r)), 's': bl(int(p.s)), 'ht': int(p.hash_type)}
    except Exception:
        parsed = {'ok': False, 'r': [], 's': [], 'ht': 0}
    pt = ref.parse_point(pub)
    eq = False
    if pt is not None and c['kind'] in ('raw', 'strict', 'lax'):
        eq = bool(c13_ec.ecdsa_verify(pt, int.from_bytes(z, 'big'), int(c['dr'] or '0', 16), int(c['ds'] or '0', 16)))
    eqt = False
    if pt is not None and c.get('tail'):
        eqt = bool(c13_ec.ecdsa_verify(pt, int.from_bytes(z, 'big'), int(c['tr'] or '0', 16), int(c['ts'] or '0', 16)))
    # public key: the curve equation on the integers as written (range, prefix and length are decided by the specification)
    curveeq = False
    if len(pub) == 33:
        xx = int.from_bytes(pub[1:], 'big')
        ysq = (pow(xx, 3, ref.P) + 7) % ref.P
        curveeq = ysq == 0 or pow(ysq, (ref.P - 1) // 2, ref.P) == 1
    elif len(pub) == 65:
        xx, yy = int.from_bytes(pub[1:33], 'big'), int.from_bytes(pub[33:], 'big')
        curveeq = (yy * yy - xx * xx * xx - 7) % ref.P == 0
    # the triple under the reading "length decides, prefix ignored" (spec deviation public-key-prefix-length-mismatch-accepted)
    eqalt = False
    alts = []
    if len(pub) == 65 and pub[0] in (2, 3):
        alts = [ref.parse_point(b'\x04' + pub[1:])]
    elif len(pub) == 33 and pub[0] == 4:
        alts = [ref.parse_point(b'\x02' + pub[1:]), ref.parse_point(b'\x03' + pub[1:])]
    if c['kind'] in ('raw', 'strict', 'lax'):
        for ap in alts:
            if ap is not None and c13_ec.ecdsa_verify(ap, int.from_bytes(z, 'big'), int(c['dr'] or '0', 16), int(c['ds'] or '0', 16)):
                eqalt = True
    return {'obs': res, 'parsed': parsed, 'havept': pt is not None, 'curveeq': bool(curveeq), 'eq': eq, 'eqt': eqt,
            'eqalt': eqalt}


def _do_env(b):
    """Replay one behaviour of spec/EcdsaEnv.tla: the environment's actions on the ambient pseudo-random generators
    (random, numpy.random) interleaved with sign calls; returns what every sign call produced."""
    import json
    import os
    import random
    from bitcoinlib.keys import sign
    try:
        import numpy
    except Exception:       # numpy is optional
        numpy = None

    def do_sign(st):
        kw = {}
        if st['mode'] == 'random':
            kw['use_rfc6979'] = False
        elif st['mode'] == 'explicit':
            kw['k'] = int(b['ks'][str(st['kk'])], 16)
        try:
            sg = sign(bytes.fromhex(b['zs'][str(st['z'])]), b['keys'][str(st['key'])], **kw)
            return {'refused': False, 'r': '%x' % int(sg.r), 's': '%x' % int(sg.s)}
        except Exception as e:
            return {'refused': True, 'err': repr(e)[:200]}

    saved = None
    out = []
    for st in b['steps']:
        a = st['a']
        if a in ('seed1', 'seed2'):
            random.seed(b['seeds'][a])
            if numpy:
                numpy.random.seed(b['seeds'][a] % (1 << 32))
        elif a == 'save':
            saved = (random.getstate(), numpy.random.get_state() if numpy else None)
        elif a == 'restore':
            random.setstate(saved[0])
            if numpy:
                numpy.random.set_state(saved[1])
        elif a == 'sign':
            out.append(do_sign(st))
        elif a == 'forksign':       # the call runs in a forked child, which inherits the ambient state
            rfd, wfd = os.pipe()
            pid = os.fork()
            if pid == 0:
                try:
                    os.close(rfd)
                    os.write(wfd, json.dumps(do_sign(st)).encode())
                finally:
                    os._exit(0)
            os.close(wfd)
            data = b''
            while True:
                chunk = os.read(rfd, 65536)
                if not chunk:
                    break
                data += chunk
            os.close(rfd)
            os.waitpid(pid, 0)
            out.append(json.loads(data.decode()) if data else {'refused': True, 'err': 'forked child returned nothing'})
        else:
            raise ValueError(a)
    return out


def _do_obj(job):
    """Replay call sequences of spec/EcdsaObj.tla on real Signature objects: before every action what the object reports
    as its key and digest, and the verdict of every verify call."""
    from bitcoinlib.keys import sign, Signature, Key, HDKey, verify
    ds = {1: int(job['keys']['1'], 16), 2: int(job['keys']['2'], 16)}
    zs = {1: bytes.fromhex(job['zs']['1']), 2: bytes.fromhex(job['zs']['2'])}
    pubs = {i: ref.ser_point(c13_ec.mul_G(ds[i])) for i in (1, 2)}
    base, facts = {}, {}
    for signer in (1, 2):
        sg = sign(zs[1], Key(job['keys'][str(signer)]))
        base[signer] = (int(sg.r), int(sg.s), bytes(sg.as_der_encoded()), bytes(sg.bytes()))
        facts[signer] = [[bool(c13_ec.ecdsa_verify(c13_ec.mul_G(ds[k]), int.from_bytes(zs[z], 'big'), int(sg.r), int(sg.s)))
                          for z in (1, 2)] for k in (1, 2)]

    forms = {i: [pubs[i], Key(pubs[i]), HDKey(pubs[i]), ref.ser_point(c13_ec.mul_G(ds[i]), False)] for i in (1, 2)}

    def keyarg(i, n):       # the key in one of the forms the API takes
        return forms[i][n % 4]

    def zarg(i, n):
        return [zs[i], zs[i].hex()][n % 2]

    def report(sg):
        try:
            pk = sg.public_key
            pkb = None if pk is None else bytes(pk.public_compressed_byte)
        except Exception:
            pkb = b'?'
        try:
            tz = sg.txid
            tzb = None if not tz else (bytes.fromhex(tz) if isinstance(tz, str) else bytes(tz))
        except Exception:
            tzb = b'?'
        pki = 0 if pkb is None else 1 if pkb == pubs[1] else 2 if pkb == pubs[2] else 3
        tzi = 0 if tzb is None else 1 if tzb == zs[1] else 2 if tzb == zs[2] else 3
        return pki, tzi

    out = []
    for n, q in enumerate(job['seqs']):
        c = q['c']
        signer = 2 if c == 'init-k1-signed-by-k2' else 1
        r, s, der, raw = base[signer]
        try:
            if c == 'sign':
                sg = sign(zarg(1, n), Key(job['keys']['1']))
            elif c == 'rs':
                sg = Signature(r, s) if n % 2 else Signature.parse_bytes(der)
            elif c == 'parse-k1':
                sg = Signature.parse_bytes(der, public_key=keyarg(1, n)) if n % 2 else Signature(r, s, public_key=keyarg(1, n))
            elif c == 'parse-k2':
                sg = Signature.parse_bytes(der, public_key=keyarg(2, n)) if n % 2 else Signature(r, s, public_key=keyarg(2, n))
            else:
                sg = Signature(r, s, txid=zarg(1, n), public_key=keyarg(1, n))
        except Exception as e:
            out.append({'refused': True, 'err': repr(e)[:200]})
            continue
        evs = []
        for j, act in enumerate(q['calls']):
            pki, tzi = report(sg)
            ev = {'a': act['a'], 'via': act['via'], 'z': act['z'], 'k': act['k'], 'pk': pki, 'tz': tzi, 'obs': ''}
            try:
                if act['a'] == 'verify':
                    za = zarg(act['z'], n + j) if act['z'] else None
                    ka = keyarg(act['k'], n + j) if act['k'] else None
                    via = act['via']
                    try:
                        if via == 'method':             # the object's own method, omitted arguments really omitted
                            args = {}
                            if za is not None:
                                args['txid'] = za
                            if ka is not None:
                                args['public_key'] = ka
                            ok = sg.verify(**args)
                        elif via == 'module-object':    # the module-level function handed the object
                            ok = verify(za, sg, ka) if ka is not None else verify(za, sg)
                        else:                           # the module-level function handed a serialized signature
                            ser = {'module-raw': raw, 'module-der': der, 'module-hex': der.hex(), 'module-der-noht': der[:-1]}[via]
                            ok = verify(za, ser, ka) if ka is not None else verify(za, ser)
                        ev['obs'] = 'accept' if ok is True else 'reject'
                    except Exception:
                        ev['obs'] = 'reject'
                elif act['a'] == 'setkey':
                    sg.public_key = keyarg(act['k'], n + j)
                else:
                    sg.txid = zarg(act['z'], n + j)
            except Exception as e:
                ev['err'] = repr(e)[:120]
            evs.append(ev)
        out.append({'refused': False, 'events': evs, 'fact': facts[signer]})
    return out


def _job(job):
    t = job['t']
    if t == 'obj':
        return _do_obj(job)
    if t == 'env':
        return [_do_env(b) for b in job['behs']]
    if t == 'sign':
        out = []
        for req in job['reqs']:
            if req.get('api') == 'tx':
                out.append(_do_tx(req))
            else:
                out.append(_do_sign(req))
        return out
    if t == 'verify':
        return [_do_verify(c) for c in job['cases']]
    raise ValueError(t)


# ---------------------------------------------------------------------------------------------------------------
# input generation (no oracle here: values handed to the implementation)
# ---------------------------------------------------------------------------------------------------------------
ADV_KEYS = [1, 2, 3, N - 1, N - 2, HALF, HALF + 1, 2 ** 255, 2 ** 128, (1 << 256) // 3 % N, 0xff, 1 << 248]
ADV_DIGESTS = [0, 1, 2, N - 1, N, N + 1, 2 ** 256 - 1, 2 ** 255, 2 ** 255 - 1, 1 << 248, 0xff, HALF, 2 ** 256 - N, 2 ** 128]
KEYFORMS = ['Key', 'HDKey', 'hex', 'Key-uncompressed', 'bytes', 'HDKey-chain']
HASHTYPES = [1, 2, 3, 0x81, 0x82, 0x83, 0, 0x41, 0xff, 0x80, 0x7f]
KEYFORM_OF = {'verify-hex': 'Key', 'verify-hex-upper': 'Key', 'verify-HDKey': 'HDKey', 'verify-Key-hex': 'Key',
              'verify-pubhex': 'hex', 'parse-verify-pubhex': 'hex', 'verify-point': 'point'}
HALF_INV = pow(2, -1, N)        # nonce 1/2: x(k*G) has 166 bits only (the shortest r known)


def ascii_digests(rng):
    """32-byte BINARY digests whose bytes happen to be text: (class name, value).  A digest is 32 arbitrary bytes; code that
    guesses "is this hex?" from the content goes wrong exactly here."""
    def pick(alphabet):
        return bytes(rng.choice(alphabet) for _ in range(32))
    hexl, hexu, dig = b'0123456789abcdef', b'0123456789ABCDEF', b'0123456789'
    out = [('ascii-hex-lower', pick(hexl)), ('ascii-hex-lower', b'0123456789abcdef' * 2), ('ascii-hex-upper', pick(hexu)),
           ('ascii-hex-mixed', pick(hexl + b'ABCDEF')), ('ascii-digits', pick(dig)), ('ascii-letters-a-f', pick(b'abcdefABCDEF')),
           ('ascii-zero-chars', b'0' * 32), ('ascii-one-char', bytes([rng.choice(hexl)]) * 32),
           ('ascii-whitespace', pick(b' \t\n\r\x0b\x0c')), ('ascii-spaces', b' ' * 32),
           ('ascii-hex-and-spaces', b''.join(rng.choice([b'ab', b'0 ', b' 1', b'f0', b'  ']) for _ in range(16))),
           ('ascii-printable', pick(bytes(range(0x20, 0x7f)))), ('ascii-0x-prefix', b'0x' + pick(hexl)[:30]),
           # digests whose hex TEXT looks like something else: only decimal digits / only letters / leading zeros
           ('hextext-digits', bytes(rng.choice([0x12, 0x34, 0x56, 0x78, 0x90, 0x01]) for _ in range(32))),
           ('hextext-letters', bytes(rng.choice([0xab, 0xcd, 0xef, 0xfa, 0xce]) for _ in range(32))),
           ('hextext-leading-zeros', bytes(16) + pick(hexl)[:16])]
    return [(name, int.from_bytes(b, 'big')) for name, b in out]


def rand_scalar(rng):
    style = rng.randrange(6)
    if style == 0:
        return rng.randrange(1, N)
    if style == 1:
        return rng.randrange(1, 1 << rng.choice([8, 16, 64, 128, 200]))
    if style == 2:
        return N - rng.randrange(1, 1 << rng.choice([8, 16, 64]))
    if style == 3:      # zero-heavy
        v = 0
        for _ in range(rng.randrange(1, 4)):
            v |= rng.randrange(1, 256) << (8 * rng.randrange(32))
        return v % N or 1
    if style == 4:
        return rng.choice(ADV_KEYS)
    return rng.randrange(1, N)


def rand_digest(rng):
    style = rng.randrange(6)
    if style == 0:
        return rng.choice(ADV_DIGESTS)
    if style == 1:
        v = 0
        for _ in range(rng.randrange(1, 4)):
            v |= rng.randrange(1, 256) << (8 * rng.randrange(32))
        return v
    if style == 2:
        return (N + rng.randrange(-300, 300)) % (1 << 256)
    return rng.getrandbits(256)


def sign_req(d, z, mode='det', k=None, ht=1, keyform='Key', zform='bytes', api='sign', zc=None, selfv=False):
    r = {'d': h32(d), 'z': h32(z), 'mode': mode, 'k': None if k is None else '%x' % k, 'ht': ht, 'keyform': keyform,
         'zform': zform, 'api': api}
    if zc:
        r['zc'] = zc
    if selfv:
        r['selfv'] = True
    return r


def craft_digest(d, k, s_raw):
    """Digest for which key d with nonce k yields s = s_raw before low-S normalisation (input generation only)."""
    r = ref.ec_mul(k)[0] % N
    return (s_raw * k - r * d) % N


def gen_sessions(rng, thorough, zforms):
    """Lists of signing requests; each list is one trace (one ledger)."""
    sessions = []
    nscale = 6 if thorough else 1
    # (0) digests that look like text, in every representation, on both signing entry points; the produced objects are
    #     asked to verify themselves
    for g in range(2 * nscale):
        keys = [rand_scalar(rng) for _ in range(2)]
        reqs = []
        for name, z in ascii_digests(rng):
            for d in keys:
                for zf in zforms:
                    reqs.append(sign_req(d, z, 'det', ht=rng.choice(HASHTYPES), keyform=rng.choice(KEYFORMS), zform=zf,
                                         api=['sign', 'create'][len(reqs) % 2], zc=name, selfv=True))
            reqs.append(sign_req(keys[0], z, 'random', zform=rng.choice(zforms), zc=name, selfv=True))
            reqs.append(sign_req(keys[1], z, 'explicit', k=rng.randrange(1, N), zform=rng.choice(zforms), zc=name, selfv=True))
        rng.shuffle(reqs)
        sessions.append(('ascii', reqs))
    # (a) grids: every key with every digest, each pair signed several times under different representations
    for g in range(10 * nscale):
        keys = [rand_scalar(rng) for _ in range(4)]
        digs = [rand_digest(rng) for _ in range(5)]
        if g == 0:
            keys, digs = ADV_KEYS[:6], ADV_DIGESTS[:7]
        elif g == 1:
            keys, digs = ADV_KEYS[6:], ADV_DIGESTS[7:]
        reqs = []
        for rep in range(3):
            for d in keys:
                for z in digs:
                    reqs.append(sign_req(d, z, 'det', ht=rng.choice(HASHTYPES) if rep else 1,
                                         keyform=KEYFORMS[(rep + len(reqs)) % len(KEYFORMS)] if rep else 'Key',
                                         zform=rng.choice(zforms), api=rng.choice(['sign', 'create']),
                                         selfv=rng.random() < 0.25))
        rng.shuffle(reqs)
        sessions.append(('grid', reqs))
    # (b) library-drawn random nonces: same digest under several keys, same key over several digests, repeated pairs
    for g in range(6 * nscale):
        keys = [rand_scalar(rng) for _ in range(4)]
        digs = [rand_digest(rng) for _ in range(4)]
        reqs = []
        for d in keys:
            for z in digs:
                for _ in range(2):
                    reqs.append(sign_req(d, z, 'random', ht=rng.choice(HASHTYPES), keyform=rng.choice(KEYFORMS),
                                         zform=rng.choice(zforms), api=rng.choice(['sign', 'create']),
                                         selfv=rng.random() < 0.25))
                reqs.append(sign_req(d, z, 'det'))
        rng.shuffle(reqs)
        sessions.append(('random', reqs))
    # (c) explicit nonces, incl. one nonce for many pairs (excluded from NonceUnique), the short-r nonce, and digests
    #     crafted so that s before normalisation sits at the low-S boundary and around 2^255
    for g in range(3 * nscale):
        reqs = []
        ks = [rng.randrange(1, N) for _ in range(3)] + [HALF_INV, 1, 2, N - 1, rng.randrange(1, 1 << 64)]
        keys = [rand_scalar(rng) for _ in range(3)]
        for k in ks:
            for d in keys:
                reqs.append(sign_req(d, rand_digest(rng), 'explicit', k=k, ht=rng.choice(HASHTYPES),
                                     keyform=rng.choice(KEYFORMS)))
        for d in keys:
            k = rng.randrange(1, N)
            for s_raw in [HALF - 1, HALF, HALF + 1, HALF + 2, HALF + rng.randrange(3, 1 << 100), 2 ** 255 - 1, 2 ** 255,
                          2 ** 255 + 1, 2 ** 255 + rng.randrange(2, 1 << 100), N - 1, N - 2, 1, 2,
                          rng.randrange(1, 1 << 64), HALF + (1 << 126), 2 ** 255 - (1 << 120)]:
                reqs.append(sign_req(d, craft_digest(d, k, s_raw), 'explicit', k=k, ht=1))
            # short r and short s together: a DER signature of far less than 64 bytes
            reqs.append(sign_req(d, craft_digest(d, HALF_INV, rng.randrange(1, 1 << 64)), 'explicit', k=HALF_INV))
        for d in keys[:2]:       # the same pair again without a nonce: determinism is about library-derived nonces
            z = rand_digest(rng)
            reqs += [sign_req(d, z, 'det'), sign_req(d, z, 'explicit', k=ks[0]), sign_req(d, z, 'det', keyform='HDKey')]
        sessions.append(('explicit', reqs))
    # (d) Transaction.sign
    for g in range(2 * nscale):
        reqs = []
        for wt, st, nk in [('legacy', 'sig_pubkey', 1), ('segwit', 'sig_pubkey', 1), ('legacy', 'p2sh_multisig', 2),
                           ('segwit', 'p2sh_multisig', 3)]:
            for rep in range(2):
                ds = [rand_scalar(rng) for _ in range(nk)]
                req = {'api': 'tx', 'wt': wt, 'st': st, 'ds': [h32(d) for d in ds], 'nin': rng.randrange(1, 4),
                       'salt': '%04x' % rng.randrange(65536), 'compressed': not (wt == 'legacy' and rep == 1 and nk == 1)}
                reqs += [req, dict(req)]        # signing the same transaction twice: same digests, same signatures
        sessions.append(('tx', reqs))
    return sessions


def key_variants(rng, Q):
    """SEC1 encodings for the key classes of the verifier table (input generation)."""
    x, y = Q
    other = ref.ec_mul(rng.randrange(1, N))
    xo = (x + 1) % ref.P
    while ref.lift_x(xo, 0) is not None:
        xo = (xo + 1) % ref.P
    b32 = lambda v: v.to_bytes(32, 'big')
    comp, unc = ref.ser_point(Q, ref.on_curve(Q)), ref.ser_point(Q, False)
    kv = {'right': comp, 'uncompressed': unc, 'other': ref.ser_point(other),
          'negated': ref.ser_point(ref.ec_neg(Q)), 'offcurve-xy': b'\x04' + b32(x) + b32((y + 1) % ref.P),
          'offcurve-x': b'\x02' + b32(xo),
          # malformations of the octet string
          'infinity-00': b'\x00', 'x-zero': b'\x02' + bytes(32), 'empty': b'',
          'prefix04-compressed-length': b'\x04' + b32(x), 'prefix02-uncompressed-length': b'\x02' + unc[1:],
          'prefix03-uncompressed-length': b'\x03' + unc[1:], 'prefix05': b'\x05' + b32(x),
          'prefix00-compressed-length': b'\x00' + b32(x), 'hybrid': bytes([6 + (y & 1)]) + unc[1:],
          'one-byte-short': comp[:-1], 'one-byte-long': comp + b'\x00',
          'uncompressed-y-negated': b'\x04' + b32(x) + b32((-y) % ref.P),
          'uncompressed-y-other-parity': b'\x04' + b32(x) + b32(y ^ 1),
          'uncompressed-x-y-swapped': b'\x04' + b32(y) + b32(x)}
    if x + ref.P < 1 << 256:        # a coordinate that is not a field element: c + p
        kv['x-plus-p'] = comp[:1] + b32(x + ref.P)
        kv['x-plus-p-uncompressed'] = b'\x04' + b32(x + ref.P) + b32(y)
    if y + ref.P < 1 << 256:
        kv['y-plus-p'] = b'\x04' + b32(x) + b32(y + ref.P)
    return kv


def gen_bases(rng, thorough):
    """Valid (Q, z, r, s) made with the reference arithmetic: bases of the verifier table."""
    bases = []

    def own(d, z, k, flip=False, name='own'):
        r = ref.ec_mul(k)[0] % N
        s = pow(k, -1, N) * (z + r * d) % N
        if r == 0 or s == 0:
            return
        if (s > HALF) != flip:
            s = N - s
        bases.append({'name': name, 'Q': ref.ec_mul(d), 'z': z % (1 << 256), 'r': r, 's': s})
    n = 14 if thorough else 3
    for i in range(n):
        own(rand_scalar(rng), rng.getrandbits(256), rng.randrange(1, N), flip=(i % 3 == 2))
        bases[-1]['allkeys'] = i == 0
    own(rand_scalar(rng), rng.randrange(2, 1 << 200), rng.randrange(1, N), name='own-small-digest')
    own(N - 1, N - 2, rng.randrange(1, N), name='own-near-n')
    # short r (nonce 1/2): DER + hash type is at most 64 bytes long
    d = rand_scalar(rng)
    own(d, rng.getrandbits(256), HALF_INV, name='short-r')
    own(d, craft_digest(d, HALF_INV, rng.randrange(1, 1 << 64)), HALF_INV, name='short-r-short-s')
    # digests that look like text (reduced table: digest classes x key classes x both exact encodings, low and high S)
    for i, (name, z) in enumerate(ascii_digests(rng)):
        own(rand_scalar(rng), z, rng.randrange(1, N), flip=(i % 2 == 1), name=name)
        bases[-1]['lite'] = True
    # small r and small s (so that r + n, s + n still fit 32 bytes): public key chosen to fit (no private key known)
    for _ in range(2 if thorough else 1):
        x = rng.randrange(1, 1 << 60)
        while ref.lift_x(x, 0) is None:
            x += 1
        R = ref.lift_x(x, rng.randrange(2))
        r, s, z = x % N, rng.randrange(1, 1 << 100), rng.getrandbits(256)
        w = pow(s, -1, N)
        u1, u2 = z * w % N, r * w % N
        Q = ref.ec_mul(pow(u2, -1, N), ref.ec_add(R, ref.ec_neg(ref.ec_mul(u1))))
        bases.append({'name': 'forged-small', 'Q': Q, 'z': z, 'r': r, 's': s})
    # public keys with a small coordinate c (so that c + p still fits the field width), with a triple valid under them
    def forge(Q, name):
        u1, u2 = rng.randrange(1, N), rng.randrange(1, N)
        R = ref.ec_add(ref.ec_mul(u1), ref.ec_mul(u2, Q))
        r = R[0] % N
        s = r * pow(u2, -1, N) % N
        bases.append({'name': name, 'Q': Q, 'z': u1 * s % N, 'r': r, 's': s, 'lite': True, 'allkeys': True})
    x = rng.randrange(1, 1 << 31)
    while ref.lift_x(x, 0) is None:
        x += 1
    forge(ref.lift_x(x, rng.randrange(2)), 'key-small-x')
    y = rng.randrange(1, 1 << 31)
    while True:     # p = 7 mod 9: a cube root of a cubic residue a is a^((p+2)/9)
        a = (y * y - 7) % ref.P
        x = pow(a, (ref.P + 2) // 9, ref.P)
        if pow(x, 3, ref.P) == a:
            break
        y += 1
    forge((x, y), 'key-small-y')
    # invalid-curve: a public key that is NOT on the curve, with (z, r, s) that satisfy the verification equation when the
    # group formulas are applied to it regardless (they do not involve the curve constant b)
    # (two orders of evaluation: separate multiplications, and the simultaneous "Shamir" multiplication)
    for i in range(4 if thorough else 2):
        Qo = ref.ec_mul(rng.randrange(1, N))
        Qo = (Qo[0], (Qo[1] + rng.randrange(1, 1 << 32)) % ref.P)
        u1, u2 = rng.randrange(1, N), rng.randrange(1, N)
        R = ref.ec_add(ref.ec_mul(u1), ref.ec_mul(u2, Qo)) if i % 2 else c13_ec.lin_comb(u1, u2, Qo)
        r = R[0] % N
        s = r * pow(u2, -1, N) % N
        bases.append({'name': 'forged-offcurve', 'Q': Qo, 'z': u1 * s % N, 'r': r, 's': s})
    for b in bases:
        if b['name'] == 'forged-offcurve':
            if ref.on_curve(b['Q']):
                raise common.MachineryError('off-curve base is on the curve')
            continue
        if not ref.ecdsa_verify(b['Q'], b['z'], b['r'], b['s']):
            raise common.MachineryError('base signature generator produced an invalid triple (%s)' % b['name'])
    return bases


def mutate(rng, b):
    b = bytearray(b)
    for _ in range(rng.choice([1, 1, 1, 2])):
        op = rng.randrange(6)
        i = rng.randrange(len(b))
        if op == 0:
            b[i] ^= 1 << rng.randrange(8)
        elif op == 1:
            del b[i]
        elif op == 2:
            b.insert(i, rng.choice([0, 0, 0x80, 0xff, rng.randrange(256)]))
        elif op == 3:
            j = rng.choice([1, 3, min(len(b) - 1, 5 + b[3] if len(b) > 3 else 1)])
            b[j] = (b[j] + rng.choice([-1, 1, 2, 128])) % 256
        elif op == 4:
            b[i] = rng.choice([0, 0x80, 0xff, 0x30, 0x02])
        else:
            b += bytes([rng.randrange(256)])
        if not b:
            b = bytearray(b'\x30')
    return bytes(b)


# ---------------------------------------------------------------------------------------------------------------
def run(replay=None):
    common.fresh_bitcoinlib_env()
    ref.selftest()
    c13_ec.selftest()
    ck = Check(PID)
    thorough = tier() == 'thorough'
    rng = ck.rng
    ck.rule = ('signing: one case per signature produced, class = (session kind, mode, api, key form, digest form, hash type, '
               'size class of key and digest); verifier: one case per (table row or mutated input, entry point), class = '
               '(r class, s class, digest class, encoding class, key class, entry point, what the bytes denote)')
    ck.assumptions = ['TLC evaluates Ecdsa.tla correctly',
                      'harness/ref.py (pure-Python secp256k1, checked against published vectors at start) gives the oracle '
                      'facts: validity of a triple, point on curve; harness/c13_ec.py is a faster evaluation of the same '
                      'function, compared with ref.py at start and on every 25th call',
                      'a nonce is identified by r = x(kG) mod n (k and n-k share it)',
                      'a 64-byte input is r||s by interface contract; DER inputs carry the hash-type byte',
                      'refusing BER-valid but non-strict encodings (and DER without hash type) is permitted',
                      'ambient state of a sign call = the process-wide generators of random and numpy.random (seeded, saved, '
                      'restored, inherited by a forked child); other ambient sources (clock, pid) are not modelled',
                      'a digest is 32 arbitrary bytes given as bytes or as hex text of any letter case; all representations '
                      'denote the same message (digest classes include bytes that look like hex text, digits, whitespace, '
                      'printable ASCII)']

    import time
    t0 = time.time()
    phases = {}

    def phase(name):
        phases[name] = round(time.time() - t0 - sum(phases.values()), 1)

    # ---------------- (M)
    ck.model(common.model_check('MC_Ecdsa', 'MC_Ecdsa_thorough.cfg' if thorough else 'MC_Ecdsa.cfg', workers=8,
                                expect_actions=['SpecSign', 'BadSign']))
    ck.model(common.model_check('MC_EcdsaObj', 'MC_EcdsaObj_thorough.cfg' if thorough else 'MC_EcdsaObj.cfg', workers=4,
                                expect_actions=['Call']))
    ck.model(common.model_check('MC_EcdsaEnv', 'MC_EcdsaEnv_thorough.cfg' if thorough else 'MC_EcdsaEnv.cfg', workers=4,
                                expect_actions=['Step']))

    phase('model')
    # ---------------- inputs
    # Digest representations on the signing side: bytes and hex text of any letter case denote the same digest and must
    # give the same signature (a disagreement between letter cases is the spec deviation "sign-nonce-depends-on-hex-case").
    zforms = ['bytes', 'hex', 'hex-upper', 'hex-mixed']
    if replay:
        case = replay['case']
        sessions = [('replay', case['reqs'])] if case.get('kind') == 'sign' else []
        vcases = [case['vcase']] if case.get('kind') == 'verify' else []
        envs = [case['beh']] if case.get('kind') == 'env' else []
        objjobs = [case['job']] if case.get('kind') == 'obj' else []
    else:
        sessions = gen_sessions(rng, thorough, zforms)
        vcases = []
        bases = gen_bases(rng, thorough)
        # randomly mutated encodings of valid signatures (what they denote is decided by TLC)
        muts = []
        for i in range(3000 if thorough else 400):
            b = bases[i % len(bases)]
            form = rng.randrange(3)
            enc = (ref_der(b['r'], b['s']) + bytes([rng.choice(HASHTYPES)])) if form else \
                b['r'].to_bytes(32, 'big') + b['s'].to_bytes(32, 'big')
            muts.append((b, mutate(rng, enc)))
        grecs = [{'k': 'vgen', 'r': bl(b['r']), 's': bl(b['s']), 'z': list(b['z'].to_bytes(32, 'big')),
                  'ht': rng.choice([1, 1, 0x83, 2]), 'lite': bool(b.get('lite')), 'allkeys': bool(b.get('allkeys'))} for b in bases]
        grecs += [{'k': 'denote', 'sig': list(m)} for _, m in muts]
        # the environment of a sign call (EcdsaEnv): TLC enumerates the behaviours
        grecs += [{'k': 'envgen', 'plans': ['random', 'mixed'], 'maxlen': 5 if thorough else 4},
                  {'k': 'envgen', 'plans': ['det', 'explicit'], 'maxlen': 4 if thorough else 3}]
        # one Signature object as a state machine (EcdsaObj): TLC enumerates the call sequences
        allc = ['sign', 'rs', 'parse-k1', 'parse-k2', 'init-k1-signed-by-k2']
        if thorough:
            parts = [{'routes': 'object', 'maxlen': 3, 'cons': ['sign', 'init-k1-signed-by-k2', 'parse-k2']},
                     {'routes': 'all', 'maxlen': 2, 'cons': allc},
                     {'routes': 'method', 'maxlen': 4, 'cons': ['sign', 'init-k1-signed-by-k2']},
                     {'routes': 'method', 'maxlen': 3, 'cons': allc}]
        else:
            parts = [{'routes': 'all', 'maxlen': 1, 'cons': allc}, {'routes': 'all', 'maxlen': 2, 'cons': ['sign']},
                     {'routes': 'object', 'maxlen': 2, 'cons': allc}, {'routes': 'method', 'maxlen': 3, 'cons': allc}]
        grecs += [{'k': 'objgen', 'parts': parts}]
        gout = spread_eval(grecs, PROCS // 2)
        gen, den = gout[:len(bases)], gout[len(bases):len(bases) + len(muts)]
        oseqs = gout[-1]['seqs']
        ochunk = (len(oseqs) + PROCS - 1) // PROCS
        objjobs = []
        for i in range(0, len(oseqs), ochunk):
            d1 = rand_scalar(rng)
            z1 = rand_digest(rng)
            # the second key of every other chunk is the negation of the first (same x coordinate, other y: the nearest
            # wrong key); what each signature is worth under each key is established by the reference verifier either way
            d2 = (N - d1) if (i // ochunk) % 2 else ((d1 * 7 + 11) % N or 5)
            objjobs.append({'t': 'obj', 'keys': {'1': h32(d1), '2': h32(d2)},
                            'zs': {'1': h32(z1), '2': h32((z1 ^ (1 << rng.randrange(256))))}, 'seqs': oseqs[i:i + ochunk]})
        envs = []
        for g in gout[len(bases) + len(muts):-1]:
            for bh in g['behs']:
                ks = [rng.randrange(1, N) for _ in range(2)]
                envs.append({'plan': bh['plan'], 'steps': bh['steps'],
                             'keys': {'1': h32(rand_scalar(rng)), '2': h32(rand_scalar(rng))},
                             'zs': {'1': h32(rand_digest(rng)), '2': h32(rand_digest(rng))},
                             'ks': {'1': '%x' % ks[0], '2': '%x' % ks[1]},
                             'seeds': {'seed1': rng.randrange(1 << 30), 'seed2': rng.randrange(1 << 30)}})
        for e in envs:      # distinct arguments per behaviour (input generation)
            if e['keys']['1'] == e['keys']['2'] or e['zs']['1'] == e['zs']['2'] or e['seeds']['seed1'] == e['seeds']['seed2']:
                e['keys']['2'] = h32((int(e['keys']['1'], 16) + 1) % N or 2)
                e['zs']['2'] = h32((int(e['zs']['1'], 16) + 1) % (1 << 256))
                e['seeds']['seed2'] = e['seeds']['seed1'] + 1
        for b, g in zip(bases, gen):
            kv = key_variants(rng, b['Q'])
            for c in g['cases']:
                for kc in c['keys']:
                    if kc not in kv:        # class not applicable to this point (c + p needs a small coordinate)
                        continue
                    apis = ['verify', 'verify-hex', 'parse-verify'] + (['rs-verify'] if c['enc'] == 'raw64' else [])
                    if c['rc'] == 'valid' and c['sc'] in ('valid', 'twin'):
                        apis += ['reuse-verify', 'reuse-verify-hex', 'verify-hex-upper', 'parse-verify-hex']
                    if len(c['keys']) > 1:  # the key classes: every form in which the API takes a public key
                        apis += ['verify-HDKey', 'verify-Key-hex', 'verify-pubhex', 'parse-verify-pubhex']
                        if len(kv[kc]) == 65 and kv[kc][0] == 4:
                            apis.append('verify-point')
                    vcases.append({'sig': bytes(c['sig']).hex(), 'z': bytes(c['z']).hex(), 'pub': kv[kc].hex(), 'apis': apis,
                                   'kind': c['kind'], 'dr': bytes(c['dr']).hex(), 'ds': bytes(c['ds']).hex(),
                                   'tail': c['tail'], 'tr': bytes(c['tr']).hex(), 'ts': bytes(c['ts']).hex(),
                                   'zform2': rng.choice(['hex', 'hex-upper', 'hex-mixed']),
                                   'cls': [b['name'], c['rc'], c['sc'], c['zc'], c['enc'], kc]})
        for (b, m), dn in zip(muts, den):
            vcases.append({'sig': m.hex(), 'z': h32(b['z']), 'pub': ref.ser_point(b['Q']).hex(),
                           'apis': ['verify', 'parse-verify'] + (['rs-verify'] if len(m) == 64 else []),
                           'kind': dn['kind'], 'dr': bytes(dn['dr']).hex(), 'ds': bytes(dn['ds']).hex(),
                           'tail': dn['tail'], 'tr': bytes(dn['tr']).hex(), 'ts': bytes(dn['ts']).hex(),
                           'cls': [b['name'], 'mutated', 'mutated', 'right', 'mutated-' + dn['kind'], 'right']})

    phase('generate (TLC vgen/denote)')
    # ---------------- drive the implementation
    jobs = [{'t': 'sign', 'reqs': reqs} for _, reqs in sessions]
    chunk = 150
    jobs += [{'t': 'verify', 'cases': vcases[i:i + chunk]} for i in range(0, len(vcases), chunk)]
    nver = len(jobs) - len(sessions)
    echunk = max(1, (len(envs) + PROCS - 1) // PROCS)
    jobs += [{'t': 'env', 'behs': envs[i:i + echunk]} for i in range(0, len(envs), echunk)]
    nenv = len(jobs) - len(sessions) - nver
    jobs += objjobs
    results = common.pmap(_job, jobs, procs=PROCS)
    obj_res = results[len(sessions) + nver + nenv:]
    results = results[:len(sessions) + nver + nenv]
    sign_res = results[:len(sessions)]
    ver_res = [x for chunk_res in results[len(sessions):len(sessions) + nver] for x in chunk_res]
    env_res = [x for chunk_res in results[len(sessions) + nver:] for x in chunk_res]

    phase('drive bitcoinlib + reference facts')
    # ---------------- signing traces -> TLC
    traces = []         # (kind, [(req, obs)])
    for (kind, reqs), obs in zip(sessions, sign_res):
        evs = []
        for req, o in zip(reqs, obs):
            for oo in (o if isinstance(o, list) else [o]):
                evs.append((req, oo))
        traces.append((kind, evs))

    def event(req, o):
        return {'mode': req.get('mode', 'det'), 'key': o.get('d', req.get('d')), 'z': o.get('z', req.get('z')),
                'rep': req.get('zform', 'bytes'), 'ht': req.get('ht', 1), 'r': hb(o['r'].zfill(len(o['r']) + len(o['r']) % 2)),
                's': hb(o['s'].zfill(len(o['s']) + len(o['s']) % 2)), 'der': hb(o['der']), 'raw': hb(o['raw']), 'valid': o['valid']}

    recs, index = [], []
    allev = []
    for ti, (kind, evs) in enumerate(traces):
        good = []
        for ei, (req, o) in enumerate(evs):
            if o.get('refused'):
                ck.case(('sign-refused', kind))
                ck.violation(None, 'signing refused: clause sign-refused; %s -> %s' % (short(req), o.get('err')),
                             {'kind': 'sign', 'reqs': [req]})
                continue
            good.append((ei, req, o))
        recs.append({'k': 'strace', 'events': [event(req, o) for _, req, o in good]})
        index.append((ti, good))
        allev += [(ti, ei, req, o) for ei, req, o in good]
    if not replay:
        recs.append({'k': 'ledger', 'events': [{'mode': req.get('mode', 'det'), 'key': o.get('d', req.get('d')),
                                                 'z': o.get('z', req.get('z')), 'rep': req.get('zform', 'bytes'),
                                                 'r': hb(o['r'].zfill(len(o['r']) + len(o['r']) % 2)),
                                                 's': hb(o['s'].zfill(len(o['s']) + len(o['s']) % 2))} for _, _, req, o in allev]})
    # one TLC round for signing traces, the global ledger and the verifier answers
    vrecs, vidx = [], []
    for c, res in zip(vcases, ver_res):
        for api in c['apis']:
            vrecs.append({'k': 'vcase', 'sig': hb(c['sig']), 'pub': hb(c['pub']), 'curveeq': res['curveeq'],
                          'havept': res['havept'], 'keyform': KEYFORM_OF.get(api, 'bytes'), 'eqalt': res['eqalt'], 'eq': res['eq'],
                          'fr': hb(c['dr']), 'fs': hb(c['ds']), 'eqt': res['eqt'], 'tr': hb(c.get('tr', '')),
                          'ts': hb(c.get('ts', '')), 'obs': res['obs'][api]})
            vidx.append((c, api, res))
        vrecs.append({'k': 'pcase', 'sig': hb(c['sig']), 'p': res['parsed']})
        vidx.append((c, 'parse_bytes', res))
    # signature objects made by the library, asked to verify themselves (a valid triple: must accept)
    for ti, ei, req, o in allev:
        if o.get('selfv') and o['valid']:
            c = {'sig': o['der'], 'z': req['z'], 'pub': '(signer %s)' % req['d'], 'kind': 'strict', 'selfreq': req,
                 'cls': ['signed:' + traces[ti][0], 'valid', 'valid', req.get('zc', 'right') + '/' + req['zform'], 'der', 'right']}
            rr, ss = o['r'].zfill(len(o['r']) + len(o['r']) % 2), o['s'].zfill(len(o['s']) + len(o['s']) % 2)
            for api, obs in sorted(o['selfv'].items()):
                vrecs.append({'k': 'vcase', 'sig': hb(o['der']), 'pub': hb(o['pub']), 'curveeq': True, 'havept': True,
                              'keyform': 'Key', 'eqalt': False, 'eq': True, 'fr': hb(rr), 'fs': hb(ss),
                              'eqt': False, 'tr': [], 'ts': [], 'obs': obs})
                vidx.append((c, api, {'obs': o['selfv']}))
    # behaviours of the environment: the recorded r, s of every sign call
    erecs, eidx = [], []
    for e, obs in zip(envs, env_res):
        signs = [st for st in e['steps'] if st['a'] in ('sign', 'forksign')]
        klass = ('env', e['plan'], tuple(st['a'] for st in e['steps']))
        if len(obs) != len(signs) or any(o.get('refused') for o in obs):
            ck.case(klass)
            ck.violation(None, 'environment behaviour %s: clause sign-refused; %s' % (env_short(e), [o.get('err') for o in obs]),
                         {'kind': 'env', 'beh': e})
            continue
        evs = []
        for st, o in zip(signs, obs):
            rr, ss = o['r'].zfill(len(o['r']) + len(o['r']) % 2), o['s'].zfill(len(o['s']) + len(o['s']) % 2)
            kk = e['ks'][str(st['kk'])]
            evs.append({'mode': st['mode'], 'key': e['keys'][str(st['key'])], 'z': e['zs'][str(st['z'])], 'rep': 'bytes',
                        'r': hb(rr), 's': hb(ss), 'k': hb(kk.zfill(len(kk) + len(kk) % 2)) if st['mode'] == 'explicit' else []})
        erecs.append({'k': 'envtrace', 'events': evs})
        eidx.append((e, klass, obs))
    # call sequences on one Signature object
    orecs, oidx = [], []
    for job, res in zip(objjobs, obj_res):
        for q, o in zip(job['seqs'], res):
            one = dict(job, seqs=[q])
            klass = ('obj', q['c'], tuple((a['a'], a['via'], a['z'], a['k']) for a in q['calls']))
            if o.get('refused'):
                ck.case(klass)
                ck.violation(None, 'Signature object %s: clause construction-refused; %s' % (q['c'], o.get('err')), {'kind': 'obj', 'job': one})
                continue
            orecs.append({'k': 'objtrace', 'c': q['c'], 'fact': o['fact'],
                          'events': [{k: e[k] for k in ('a', 'via', 'z', 'k', 'pk', 'tz', 'obs')} for e in o['events']]})
            oidx.append((one, q, o, klass))
    allverd = spread_eval(recs + vrecs + erecs + orecs, PROCS)
    n1, n2, n3 = len(recs), len(recs) + len(vrecs), len(recs) + len(vrecs) + len(erecs)
    verd, vverd, everd, overd = allverd[:n1], allverd[n1:n2], allverd[n2:n3], allverd[n3:]
    for (one, q, o, klass), v in zip(oidx, overd):
        ck.case(klass)
        for i, fails in enumerate(v['evs']):
            for f in fails:
                ck.violation(f['dev'] or None, 'Signature object built by %s, calls %s: clause %s at call %d; object reported key %s digest %s, '
                             'answered %s, specification expects %s' % (
                                 q['c'], obj_short(q['calls']), f['v'], i + 1, o['events'][i]['pk'], o['events'][i]['tz'],
                                 o['events'][i]['obs'] or o['events'][i].get('err'), fmt_exp(f['exp'])), {'kind': 'obj', 'job': one})
    for (e, klass, obs), v in zip(eidx, everd):
        ck.case(klass)
        for i, fails in enumerate(v['evs']):
            for f in fails:
                ck.violation(f['dev'] or None, 'environment behaviour %s: clause %s at sign call %d; r of the calls: %s' % (
                    env_short(e), f['v'], i + 1, [o['r'] for o in obs]), {'kind': 'env', 'beh': e})
    reported = set()
    for (ti, good), v in zip(index, verd):
        kind, evs = traces[ti]
        if len(v['evs']) != len(good):
            raise common.MachineryError('EcdsaEval returned %d event verdicts for %d events' % (len(v['evs']), len(good)))
        for pos, ((ei, req, o), fails) in enumerate(zip(good, v['evs'])):
            ck.case(sign_class(kind, req, o))
            for f in fails:
                reported.add((ti, ei, f['v']))
                reqs = related([(r_, o_) for _, r_, o_ in good[:pos + 1]]) if f['v'] in ('not-deterministic', 'nonce-shared') else [req]
                ck.violation(f['dev'] or None, '%s: clause %s; got r=%s s=%s der=%s, specification expects %s' % (
                    short(req), f['v'], o['r'], o['s'], o['der'], fmt_exp(f['exp'])), {'kind': 'sign', 'reqs': dedup_tx(reqs)})
    if not replay and recs:
        for (ti, ei, req, o), fails in zip(allev, verd[-1]['evs']):
            for f in fails:
                if (ti, ei, f['v']) not in reported:
                    ck.violation(f['dev'] or None, '%s: clause %s across sessions; r=%s s=%s' % (short(req), f['v'], o['r'], o['s']),
                                 {'kind': 'sign', 'reqs': related([(r_, o_) for _, _, r_, o_ in allev[:allev.index((ti, ei, req, o)) + 1]])})
    nsig = len(allev)
    ck.traces = len(traces)

    # ---------------- verifier answers
    for (c, api, res), v in zip(vidx, vverd):
        ck.case(tuple(c['cls'][1:]) + (api, c['kind']))
        if v['v'] == 'oracle-fact-for-wrong-pair':
            raise common.MachineryError('oracle fact computed for a pair other than the one the specification denotes: %s' % c)
        if v['v'] != 'ok':
            got = res['obs'].get(api) if api != 'parse_bytes' else res['parsed']
            ck.violation(v['dev'] or None, '%s(sig=%s, z=%s, pub=%s) [%s]: clause %s; got %s, specification expects %s' % (
                api, c['sig'], c['z'], c['pub'], '/'.join(c['cls']), v['v'], got, fmt_exp(v['exp'])),
                {'kind': 'sign', 'reqs': [c['selfreq']]} if 'selfreq' in c else
                {'kind': 'verify', 'vcase': dict(c, apis=[a for a in c['apis'] if a == api] or c['apis'][:1])})

    phase('judge signing traces and verifier answers (TLC)')
    ck.notes['phase_s'] = phases
    # ---------------- evidence
    for kind, evs in traces[:1] + traces[-1:]:
        for req, o in evs[:2]:
            ck.sample({'signing': short(req), 'observed': {k: o.get(k) for k in ('r', 's', 'der', 'k', 'valid', 'refused')}}, limit=8)
    for c in vcases[:2] + vcases[len(vcases) // 2:len(vcases) // 2 + 2]:
        ck.sample({'verifier case': c['cls'], 'sig': c['sig'], 'denotes': c['kind']}, limit=8)
    ck.notes['signatures_produced_and_judged'] = nsig
    ck.notes['signing_sessions'] = len(traces)
    ck.notes['verifier_cases'] = len(vcases)
    ck.notes['verifier_answers_judged'] = len(vrecs)
    ck.notes['environment_behaviours_replayed'] = len(envs)
    ck.notes['object_call_sequences_replayed'] = len(orecs)
    return ck.finish()


def obj_short(calls):
    def one(a):
        if a['a'] == 'verify':
            return '%s(%s, %s)' % ({'method': 'sig.verify', 'module-object': 'verify[sig object]'}.get(a['via'], 'verify[' + a['via'][7:] + ']'),
                                   'z%d' % a['z'] if a['z'] else '-', 'key%d' % a['k'] if a['k'] else '-')
        return 'public_key=key%d' % a['k'] if a['a'] == 'setkey' else 'txid=z%d' % a['z']
    return ' ; '.join(one(a) for a in calls)


def env_short(e):
    out = []
    for st in e['steps']:
        if st['a'] in ('sign', 'forksign'):
            out.append('%s(key%d, msg%d, %s%s)' % (st['a'], st['key'], st['z'], st['mode'],
                                                  ' k%d' % st['kk'] if st['mode'] == 'explicit' else ''))
        else:
            out.append(st['a'])
    return '[%s] ' % e['plan'] + ' ; '.join(out)


def ref_der(r, s):
    """Input generation for the mutation driver only: a DER signature to be mutated (what it denotes afterwards is
    decided by TLC)."""
    def i(v):
        b = v.to_bytes((v.bit_length() + 7) // 8 or 1, 'big')
        b = b'\x00' + b if b[0] & 0x80 else b
        return b'\x02' + bytes([len(b)]) + b
    body = i(r) + i(s)
    return b'\x30' + bytes([len(body)]) + body


def size_class(v):
    if v < 4:
        return 'tiny'
    if v >= N:
        return '>=n'
    if N - v < 4:
        return 'n-'
    bl_ = v.bit_length()
    return 'b%d' % (bl_ // 64)


def sign_class(kind, req, o):
    if req.get('api') == 'tx':
        return kind, 'tx', req['wt'], req['st'], req['nin'], len(o['der']) // 2
    return (kind, req['mode'], req['api'], req['keyform'], req['zform'], req['ht'], size_class(int(req['d'], 16)),
            req.get('zc') or size_class(int(req['z'], 16)), len(o['der']) // 2)


def short(req):
    if req.get('api') == 'tx':
        return 'Transaction.sign(%s %s, %d inputs, keys %s)' % (req['wt'], req['st'], req['nin'], ','.join(req['ds']))
    return '%s(z=%s as %s, key=%s as %s, mode=%s%s, hash_type=%d)' % (
        req['api'], req['z'], req['zform'], req['d'], req['keyform'], req['mode'], ' k=' + req['k'] if req['k'] else '', req['ht'])


def dedup_tx(reqs):
    out = []
    for r in reqs:
        if not out or out[-1] is not r:
            out.append(r)
    return out[-40:]


def related(pairs):
    """Requests of a trace prefix that matter for a ledger failure of its last event: the events that share its r or
    its (key, digest)."""
    req, o = pairs[-1]
    kz = (o.get('d', req.get('d')), o.get('z', req.get('z')))
    keep = [r_ for r_, o_ in pairs[:-1]
            if o_['r'] == o['r'] or (o_.get('d', r_.get('d')), o_.get('z', r_.get('z'))) == kz]
    return dedup_tx(keep + [req])


def fmt_exp(e):
    def f(x):
        if isinstance(x, list) and x and all(isinstance(i, int) for i in x):
            return bytes(x).hex()
        if isinstance(x, list):
            return '[' + ', '.join(f(i) for i in x) + ']'
        return str(x)
    return f(e)
