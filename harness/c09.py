"""C09 - wallet keys follow the BIP44/49/84/45/48 paths, indices are issued without gaps or repeats, restore is
deterministic (spec/WalletKeys.tla, Bip32.tla, AddrScript.tla).

(M) MC_WalletKeys: the bookkeeping machine (fresh keys, unused keys, keys by position, new accounts, used marks; a wallet
    with a private master key and a watch-only wallet of one account) in all orders up to a bound: NoGaps,
    AddressesDistinct (path injective), WellFormed, WatchOnlyOwnAccount, NoRepeat, UsedNotHandedOut, KeysPersist,
    Refusals.
(V) seeded histories on real wallets (every network in rotation, every witness type, mixed witness types, several
    accounts and networks in one wallet, created from mnemonic / seed / extended key, reopened in between) are recorded
    and folded by TLC over the same operators: positions handed out, path text of every key, refusals, the wallet's
    key list after every call; then the complete key tree, distinct addresses, and the tables of wallets restored from
    mnemonic / seed / master key and of a watch-only wallet made from an account public key.
    Every key of every tree is judged by TLC with the Bip32 operators (CKDpriv / CKDpub from its parent, the master
    key from the seed) and the address construction, the primitives being oracle facts from harness/ref.py.
"""
import hashlib
import logging
import os
import random
import tempfile

from harness import common, ref
from harness.common import Check, tier
from harness import c09_oracle

PID = 'C09'

# network rotation: (network, witness types it is used with)
NETS = [('bitcoin', ['segwit', 'legacy', 'p2sh-segwit']), ('testnet', ['segwit', 'legacy', 'p2sh-segwit']),
        ('litecoin', ['segwit', 'legacy', 'p2sh-segwit']), ('bitcoinlib_test', ['segwit', 'legacy', 'p2sh-segwit']),
        ('dogecoin', ['legacy']), ('regtest', ['segwit', 'legacy', 'p2sh-segwit']),
        ('litecoin_testnet', ['segwit', 'legacy', 'p2sh-segwit']), ('signet', ['segwit', 'p2sh-segwit', 'legacy']),
        ('testnet4', ['legacy', 'segwit', 'p2sh-segwit']), ('dogecoin_testnet', ['legacy']),
        ('litecoin_legacy', ['legacy', 'segwit', 'p2sh-segwit'])]
COIN = {'bitcoin': 0, 'testnet': 1, 'testnet4': 1, 'signet': 1, 'regtest': 0, 'litecoin': 2, 'litecoin_legacy': 2,
        'litecoin_testnet': 1, 'dogecoin': 3, 'dogecoin_testnet': 1, 'bitcoinlib_test': 9999999}       # driver only: to pick requests
WTS = ['segwit', 'legacy', 'p2sh-segwit']


def codes(s):
    return [ord(c) for c in s]


def _int(x, none=-1):
    return none if x is None else int(x)


def row_of(k):
    """One row of the wallet's key list (DbKey or WalletKey)."""
    return [k.network_name, k.witness_type, _int(k.account_id), _int(k.change), _int(k.address_index), 1 if k.used else 0,
            _int(k.depth)]


def out_of(k):
    return {'net': k.network_name, 'wt': k.witness_type, 'acct': _int(k.account_id), 'ch': _int(k.change),
            'idx': _int(k.address_index), 'path': codes(k.path), 'id': int(k.key_id)}


def obs_hd(dbk, hk):
    """Observation of one stored key: the extended key stored for it (hk: HDKey parsed from DbKey.wif) and the columns."""
    priv = bool(hk.is_private)
    ci = hk.child_index
    return {'priv': priv, 'k': list(bytes.fromhex(hk.private_hex)) if priv else [], 'P': list(bytes.fromhex(hk.public_hex)),
            'c': list(hk.chain), 'depth': int(hk.depth), 'fp': list(hk.parent_fingerprint),
            'idx': list(ci.to_bytes(4, 'big')) if 0 <= ci < 2 ** 32 else [],
            'kdb': list(dbk.private or b''), 'Pdb': list(dbk.public or b''), 'addr': codes(dbk.address or '')}


def table_of(name, db_uri, material=True):
    """Complete key table of a wallet (read through a freshly opened Wallet object): rows for the trace record,
    observations for the key records (material=False: rows only - the script keys of a multisig wallet)."""
    from bitcoinlib.wallets import Wallet
    w = Wallet(name, db_uri=db_uri)
    rows, obs = [], {}
    for dbk in w.keys():
        if material:
            hk = w.key(dbk.id).key()
            obs[dbk.id] = obs_hd(dbk, hk)
        rows.append({'id': int(dbk.id), 'parent': _int(dbk.parent_id, 0), 'depth': _int(dbk.depth), 'path': codes(dbk.path),
                     'net': dbk.network_name, 'wt': dbk.witness_type, 'acct': _int(dbk.account_id), 'ch': _int(dbk.change),
                     'idx': _int(dbk.address_index), 'addr': codes(dbk.address or ''), 'P': list(dbk.public or b''),
                     'cos': _int(dbk.cosigner_id, 0), 'kt': dbk.key_type or '', 'purpose': _int(dbk.purpose, 0)})
    try:
        w.session.close()
    except Exception:
        pass
    return rows, obs


def key_records(rows, obs, root, rng=None, nleaf=None):
    """One 'key' record per row: the key with the key it hangs under (root: how the top of the tree is defined).
    With nleaf: every inner key of the tree, but only a seeded sample of nleaf address keys."""
    recs = []
    if nleaf is not None:
        deepest = max(r['depth'] for r in rows)
        leaf = [r for r in rows if r['depth'] == deepest]
        keep = set(r['id'] for r in rng.sample(leaf, min(nleaf, len(leaf))))
        rows = [r for r in rows if r['depth'] < deepest or r['id'] in keep]
    for r in rows:
        o = obs[r['id']]
        rec = {'k': 'key', 'root': 'child', 'seed': [], 'words': [], 'pass': [], 'parent': o, 'child': o, 'tok': [],
               'net': r['net'], 'wt': r['wt'], 'id': r['id'], 'path': r['path'], 'exported': False, 'noaddr': False}
        if r['parent'] == 0 or r['parent'] not in obs:
            rec.update(root)
            rec['noaddr'] = True            # the top key of a wallet is never paid to: its address column is not judged
        else:
            rec['parent'] = obs[r['parent']]
            rec['tok'] = codes(''.join(chr(c) for c in r['path']).split('/')[-1])
        recs.append(rec)
    return recs


PURPOSE = {'legacy': 44, 'p2sh-segwit': 49, 'segwit': 84}      # driver only: to spell requests


def spelling(a, kw, variant):
    """One of the documented spellings of the request 'the key(s) of chain (net, wt, acct, ch) from index idx':
    (path argument, position keyword arguments, remaining keyword arguments)."""
    sp, ch, idx, acct = a.get('spell', 'args'), a['ch'], a['idx'], a['acct']
    kwp = dict(kw)
    mark = "'" if variant % 2 else ''
    if sp == 'args':
        return [], {'change': ch, 'address_index': idx}, kwp
    if sp == 'list':
        return [ch, idx], {}, kwp
    if sp == 'str':
        return '%d/%d' % (ch, idx), {}, kwp
    if sp == 'index':                                   # [index] + change argument
        return [idx], {'change': ch}, kwp
    kwp.pop('account_id', None)                         # the path names the account
    if sp == 'acct-list':
        return [('%d%s' % (acct, mark)) if mark else acct, ch, idx], {}, kwp
    if sp == 'acct-str':
        return "%d'/%d/%d" % (acct, ch, idx), {}, kwp
    coin = COIN[a['net']]
    if sp == 'coin-list':
        return ["%d'" % coin if mark else coin, acct, ch, idx], {}, kwp
    if sp == 'full-list':
        return [PURPOSE[a['wt']], "%d'" % coin, "%d'" % acct if mark else acct, ch, idx], {}, kwp
    if sp == 'full-str':
        return "m/%d'/%d'/%d'/%d/%d" % (PURPOSE[a['wt']], coin, acct, ch, idx), {}, kwp
    raise common.MachineryError('unknown spelling %r' % sp)


SPELL_FULL = ['args', 'list', 'str', 'index', 'acct-list', 'acct-list', 'acct-list', 'acct-str', 'coin-list', 'full-list', 'full-str']
ACCT_IN_PATH = ('acct-list', 'acct-str', 'coin-list', 'full-list', 'full-str', 'offset-path')
SPELL_REL = ['args', 'list', 'str', 'index']          # watch-only and multisig wallets: below the account key


class Driver:
    """One wallet and the requests made to it; records events for WalletKeysEval."""

    def __init__(self, w, name, db_uri, cfg, rng):
        self.w, self.name, self.db_uri, self.cfg, self.rng = w, name, db_uri, cfg, rng
        self.events, self.desc = [], []
        self.fake = 0
        self.gentle = False         # only requests for one key at a time, position given by arguments
        self.ooo = False            # many requests by explicit position, out of index order
        self.default_acct = cfg['acct']     # the account requests without account number refer to
        self.queue = []             # requests of a scenario under way
        self.exported = False       # public_master() was called on the current wallet object
        self.ever_exported = False

    def chains_known(self):
        """(net, wt, acct) triples and positions the wallet lists (driver's view, used to pick requests only)."""
        keys = [row_of(k) for k in self.w.keys()]
        return [k for k in keys if k[6] == self.w.key_depth]

    def record(self, a, ok, out, text):
        leafs = [row_of(k) for k in self.w.keys()]
        self.events.append({'a': a, 'ok': ok, 'out': out, 'leafs': leafs})
        self.desc.append(text + (' -> ' + ', '.join(''.join(chr(c) for c in o['path']) for o in out) if ok else ' -> refused'))

    def call(self, a, variant):
        """Perform request a through one of the public spellings; returns (ok, keys handed out, text)."""
        w, cfg = self.w, self.cfg
        own_net, own_wt, own_acct = a['net'] == cfg['net'], a['wt'] == cfg['wt'], a['acct'] == self.default_acct
        kw = {}
        # arguments that equal the wallet's defaults are sometimes left out (explicit: never)
        ex = bool(a.get('explicit'))
        if not own_net or variant % 2 or ex:
            kw['network'] = a['net']
        if not own_wt or variant % 3 == 0 or ex:
            kw['witness_type'] = a['wt']
        if not own_acct or not own_net or variant % 5 < 2 or ex:
            kw['account_id'] = a['acct']
        op, n, ch, idx = a['op'], a['n'], a['ch'], a['idx']
        try:
            if op == 'new_keys':
                if n == 1 and ch == 1 and variant % 2:
                    text, r = 'new_key_change(%s)' % kw, [w.new_key_change(**kw)]
                elif n == 1 and variant % 7 < 5:
                    text, r = 'new_key(change=%d, %s)' % (ch, kw), [w.new_key(change=ch, **kw)]
                else:
                    text, r = 'new_keys(change=%d, number_of_keys=%d, %s)' % (ch, n, kw), w.new_keys(change=ch, number_of_keys=n, **kw)
            elif op == 'get_keys':
                if n == 1 and ch == 1 and variant % 2:
                    text, r = 'get_key_change(%s)' % kw, [w.get_key_change(**kw)]
                elif n == 1 and variant % 7 < 5:
                    text, r = 'get_key(change=%d, %s)' % (ch, kw), [w.get_key(change=ch, **kw)]
                elif ch == 1 and variant % 2:
                    text, r = 'get_keys_change(number_of_keys=%d, %s)' % (n, kw), w.get_keys_change(number_of_keys=n, **kw)
                else:
                    text, r = 'get_keys(change=%d, number_of_keys=%d, %s)' % (ch, n, kw), w.get_keys(change=ch, number_of_keys=n, **kw)
            elif op == 'key_for_path':
                path, extra, kwp = spelling(a, kw, variant)
                if n > 1:
                    text = 'keys_for_path(%r, number_of_keys=%d, %s)' % (path, n, dict(kwp, **extra))
                    r = w.keys_for_path(path, number_of_keys=n, **dict(kwp, **extra))
                else:
                    text = 'key_for_path(%r, %s)' % (path, dict(kwp, **extra))
                    r = [w.key_for_path(path, **dict(kwp, **extra))]
            elif op == 'new_account':
                kw.pop('account_id', None)
                if a['acct'] >= 0:
                    kw['account_id'] = a['acct']
                text, r = 'new_account(%s)' % kw, [w.new_account(**kw)]
            elif op == 'mark_used':
                k = [x for x in w.keys() if row_of(x)[:5] == [a['net'], a['wt'], a['acct'], ch, idx] and x.depth == w.key_depth][0]
                self.fake += 1
                txid = hashlib.sha256(b'%s-%d' % (self.name.encode(), self.fake)).hexdigest()
                text = 'funds arrive at %s (utxos_update(key_id, utxos=[...]))' % k.path
                w.utxos_update(key_id=k.id, utxos=[{'address': k.address, 'txid': txid, 'confirmations': 3, 'output_n': 0, 'input_n': 0,
                                                   'block_height': None, 'fee': None, 'size': 0, 'value': 100000, 'script': '', 'date': None}],
                               rescan_all=False)
                r = []
            elif op == 'export' and a.get('spell') in ('offset-', 'offset-path', 'offset+'):
                # the account key asked for through key_for_path with a level offset
                kw2 = dict(kw)
                if a['spell'] == 'offset-path':
                    kw2.pop('account_id', None)
                    path, off = [a['acct']], w.depth_public_master - w.key_depth
                else:
                    kw2['account_id'] = a['acct']
                    path, off = [], (w.depth_public_master - w.key_depth if a['spell'] == 'offset-' else w.depth_public_master + 1)
                text = 'key_for_path(%r, level_offset=%d, %s)' % (path, off, kw2)
                r = [w.key_for_path(path, level_offset=off, **kw2)]
            elif op == 'export':
                kw2 = {k: v for k, v in kw.items() if k != 'account_id' or not self.cfg['watch']}
                if a.get('spell') == 'as_private':
                    kw2['as_private'] = True
                text = 'public_master(%s)' % kw2
                pm = w.public_master(**kw2)
                self.exported = self.ever_exported = True
                if not pm.wif or bool(pm.is_private) != (a.get('spell') == 'as_private' and bool(w.main_key.is_private)):
                    return False, [], text + ' returned no public key'
                self.last_export = (int(pm.key_id), pm.wif)
                r = [pm]
            elif op == 'set_default':
                text = 'default_account_id = %d' % a['acct']
                w.default_account_id = a['acct']
                self.default_acct = a['acct']
                r = []
            elif op == 'reopen':
                from bitcoinlib.wallets import Wallet
                try:
                    w.session.close()
                except Exception:
                    pass
                self.w = Wallet(self.name, db_uri=self.db_uri)
                self.exported = False
                text, r = 'close + reopen', []
            else:
                raise common.MachineryError('unknown op %r' % op)
        except common.MachineryError:
            raise
        except Exception as e:
            try:
                self.w.session.rollback()
            except Exception:
                pass
            return False, [], '%s(%s) raised %s' % (op, kw, type(e).__name__)
        if r is None or any(x is None for x in r):
            return False, [], text + ' returned None'
        return True, [out_of(x) for x in r], text

    def step(self, a, variant):
        if self.gentle and a['op'] in ('new_keys', 'get_keys', 'key_for_path'):
            a = dict(a, n=1, form='args', spell='args')
        if a['op'] == 'key_for_path' and 'spell' not in a:
            a = dict(a, spell='args' if a['form'] == 'args' else 'list')
        a.setdefault('acctin', 'arg')
        ok, out, text = self.call(a, variant)
        self.record(a, ok, out, text)

    def pick(self, watch):
        """A request, chosen from the driver's view of the wallet (TLC decides what the right answer is)."""
        rng, cfg = self.rng, self.cfg
        leafs = self.chains_known()
        accts = sorted({(k[0], k[1], k[2]) for k in leafs})
        r = rng.random()
        own = (cfg['net'], cfg['wt'], cfg['acct'] if watch else self.default_acct)

        def req(op, net, wt, acct, ch=0, n=1, idx=0):
            sp = 'args'
            if op == 'key_for_path':
                sp = rng.choice(SPELL_REL if watch or cfg['ms'] else SPELL_FULL)
            elif op == 'export' and not watch and not cfg['ms']:
                sp = rng.choice(['public_master', 'public_master', 'offset-', 'offset-path', 'offset+'])
            # form (for the specification): whether the change chain is given in the path or as an argument
            if net != cfg['net'] and sp in ACCT_IN_PATH:
                sp = 'list' if op == 'key_for_path' else 'offset-'      # other networks: the account is always given by number
            if sp in ACCT_IN_PATH and acct == self.default_acct and rng.random() < 0.6:
                # a path that names the account is worth the trouble for an account other than the default one
                others = sorted({a_[2] for a_ in accts if a_[0] == net and a_[1] == wt and a_[2] != acct})
                acct = rng.choice(others + [1, 2, 3]) if acct == 0 else rng.choice(others + [0])
            return {'op': op, 'net': net, 'wt': wt, 'acct': acct, 'ch': ch, 'n': n, 'idx': idx, 'spell': sp,
                    'form': 'args' if sp in ('args', 'index') or op != 'key_for_path' else 'path',
                    'acctin': 'path' if sp in ACCT_IN_PATH else 'arg'}

        def some_chain():
            x = rng.random()
            if not watch and self.default_acct != 0 and rng.random() < 0.3:
                # account 0 asked for by number in a wallet whose default account is another one
                return cfg['net'], rng.choice([cfg['wt'], cfg['wt'], rng.choice(dict(NETS)[cfg['net']])]), 0, rng.choice([0, 0, 1])
            if watch or x < 0.45 or not accts:
                net, wt, acct = own
            elif x < 0.8:
                net, wt, acct = rng.choice(accts)
            elif x < 0.9:                                # another witness type, created on the fly
                net, acct = cfg['net'], cfg['acct']
                wt = rng.choice([t for t in dict(NETS)[net] if True])
            else:                                        # an account that may not exist yet
                net, wt = rng.choice(accts)[:2]
                acct = rng.choice([0, 1, 2, 3])
            return net, wt, acct, rng.choice([0, 0, 1])

        def top(net, wt, acct, ch):
            ix = [k[4] for k in leafs if k[:4] == [net, wt, acct, ch]]
            return max(ix) if ix else -1
        if self.queue:
            return self.queue.pop(0)
        if watch and rng.random() < 0.1:
            # a wallet made from an account key asked for what its key material does not give: another witness type,
            # through every kind of request
            wt2 = rng.choice([t for t in WTS if t != cfg['wt']])
            op = rng.choice(['new_keys', 'new_keys', 'get_keys', 'get_keys', 'key_for_path', 'new_account'])
            return req(op, cfg['net'], wt2, cfg['acct'] if op != 'new_account' else rng.choice([-1, 1]), rng.choice([0, 1]),
                       rng.choice([1, 1, 2, 3]) if op != 'new_account' else 1, rng.choice([0, 0, 1]))
        if not cfg['ms'] and rng.random() < (0.2 if self.ooo else 0.07):
            # scenario: keys of one chain created by position in descending order with holes (as a restore or an import of
            # known positions does), the wallet possibly reopened, then fresh keys of that chain
            net, wt, acct, ch = some_chain()
            have = {k[4] for k in leafs if k[:4] == [net, wt, acct, ch]}
            top = max(have | {0})
            hi = top + rng.choice([2, 3, 4])
            lows = [i for i in range(0, hi) if i not in have]
            picks = sorted(rng.sample(lows, min(len(lows), rng.choice([1, 1, 2]))), reverse=True)
            plan = [req('key_for_path', net, wt, acct, ch, 1, i) for i in [hi] + picks]
            if rng.random() < 0.3:
                plan.append(req('reopen', cfg['net'], cfg['wt'], cfg['acct']))
            plan.append(req(rng.choice(['new_keys', 'new_keys', 'get_keys']), net, wt, acct, ch, rng.choice([1, 2, 2, 3])))
            plan.append(req('new_keys', net, wt, acct, ch, rng.choice([1, 2])))
            self.queue = plan[1:]
            return plan[0]
        if self.ooo and rng.random() < 0.45:
            # a key by explicit position, in no particular order: holes, descending, behind the end
            net, wt, acct, ch = some_chain()
            have = {k[4] for k in leafs if k[:4] == [net, wt, acct, ch]}
            free = [i for i in range(0, max(have | {0}) + 5) if i not in have]
            return req('key_for_path', net, wt, acct, ch, rng.choice([1, 1, 1, 2]), rng.choice(free))
        if not watch and rng.random() < 0.03:
            mine = [a_ for a_ in accts if a_[0] == cfg['net']]
            if mine:
                a_ = rng.choice(mine)
                return req('set_default', a_[0], a_[1], a_[2])
        if r < 0.26:
            net, wt, acct, ch = some_chain()
            return req('new_keys', net, wt, acct, ch, rng.choice([1, 1, 1, 2, 3, 5]))
        if r < 0.46:
            net, wt, acct, ch = some_chain()
            return req('get_keys', net, wt, acct, ch, rng.choice([1, 1, 2, 3, 6]))
        if r < 0.62:
            net, wt, acct, ch = some_chain()
            t = top(net, wt, acct, ch)
            idx = rng.choice([0, max(t, 0), t + 1, t + 1, t + 2, t + rng.randrange(2, 6), rng.randrange(0, t + 2)])
            return req('key_for_path', net, wt, acct, ch, rng.choice([1, 1, 1, 2, 3]), idx)
        if r < 0.74 and leafs:
            k = rng.choice(leafs)
            return req('mark_used', k[0], k[1], k[2], k[3], 1, k[4])
        if r < 0.82:
            return req('reopen', cfg['net'], cfg['wt'], cfg['acct'])
        if r < 0.86:
            net, wt, acct = own if (watch or not accts or rng.random() < 0.4) else rng.choice(accts + [(cfg['net'], cfg['wt'], 0)])
            return req('export', net, wt, acct)
        if r < 0.96 and not watch:
            x = rng.random()
            if x < 0.35:
                net, wt = cfg['net'], cfg['wt']
            elif x < 0.8:                                # an account of another witness type of the same wallet
                net, wt = cfg['net'], rng.choice(dict(NETS)[cfg['net']])
            else:                                        # an account in another network (distinct coin type or not)
                net = rng.choice([n for n, _ in NETS])
                wt = rng.choice(dict(NETS)[net])
            return req('new_account', net, wt, rng.choice([-1, -1, -1, 0, 1, 2, 5]))
        # requests the wallet cannot serve: a watch-only wallet outside its account, a network sharing a coin type
        if watch:
            x = rng.random()
            if x < 0.2:
                return req(rng.choice(['new_keys', 'get_keys', 'key_for_path']), cfg['net'], cfg['wt'], cfg['acct'] + rng.choice([1, 2]),
                           rng.choice([0, 1]), 1, rng.choice([0, 0, 1]))
            if x < 0.4:
                return req('new_account', cfg['net'], cfg['wt'], -1)
            if x < 0.7:
                return req('new_keys', cfg['net'], rng.choice([t for t in WTS if t != cfg['wt']]), cfg['acct'])
            return req('new_keys', rng.choice([n for n, _ in NETS if n != cfg['net']]), cfg['wt'], cfg['acct'])
        clash = [n for n, _ in NETS if n not in {a[0] for a in accts} and COIN[n] in {COIN[a[0]] for a in accts}]
        if clash and rng.random() < 0.3:
            net = rng.choice(clash)
            wt = rng.choice(dict(NETS)[net])
            return req(rng.choice(['key_for_path', 'new_keys', 'new_account']), net, wt, rng.choice([0, 0, 1]), rng.choice([0, 1]), 1, rng.choice([0, 1, 3]))
        net, wt, acct, ch = some_chain()
        return req('new_keys', net, wt, acct, ch, 1)


def _pick_ms(self):
    """A request to a multisig wallet (one network, one witness type, one account)."""
    rng, cfg = self.rng, self.cfg
    leafs = self.chains_known()
    r = rng.random()

    def req(op, ch=0, n=1, idx=0, net=None, wt=None):
        sp = rng.choice(SPELL_REL) if op == 'key_for_path' else 'args'
        return {'op': op, 'net': net or cfg['net'], 'wt': wt or cfg['wt'], 'acct': 0, 'ch': ch, 'n': n, 'idx': idx, 'spell': sp,
                'form': 'args' if sp in ('args', 'index') else 'path', 'acctin': 'arg'}
    ch = rng.choice([0, 0, 1])
    ix = [k[4] for k in leafs if k[3] == ch]
    t = max(ix) if ix else -1
    if self.ooo and rng.random() < 0.4:
        free = [i for i in range(0, t + 5) if i not in ix]
        return req('key_for_path', ch, 1, rng.choice(free))
    if r < 0.3:
        return req('new_keys', ch, rng.choice([1, 1, 2, 3]))
    if r < 0.5:
        return req('get_keys', ch, rng.choice([1, 1, 2, 4]))
    if r < 0.68:
        return req('key_for_path', ch, rng.choice([1, 1, 2]), rng.choice([0, t + 1, t + 1, t + 2, rng.randrange(0, t + 2)]))
    if r < 0.8 and leafs:
        k = rng.choice(leafs)
        return req('mark_used', k[3], 1, k[4])
    if r < 0.92:
        return req('reopen')
    if r < 0.96:
        return req('new_keys', ch, 1, 0, None, rng.choice([t_ for t_ in WTS if t_ != cfg['wt']]))
    return req('new_keys', ch, 1, 0, rng.choice([n for n, _ in NETS if n != cfg['net']]))


Driver.pick_ms = _pick_ms


def obj_snapshot(k):
    """What a key object says about itself: (field, value) pairs as texts (transport only)."""
    out = []
    for f in ('witness_type', 'is_private', 'depth', 'key_type', 'multisig', 'compressed', 'encoding', 'script_type',
              'child_index', 'public_hex', 'private_hex'):
        out.append([f, str(getattr(k, f, None))])
    out.append(['network', k.network.name])
    out.append(['chain', bytes(k.chain or b'').hex()])
    out.append(['parent_fingerprint', bytes(k.parent_fingerprint or b'').hex()])
    for f, call in (('wif()', lambda: k.wif()), ('wif_public()', lambda: k.wif_public()),
                    ('wif_private()', lambda: k.wif_private() if k.is_private else ''), ('address()', lambda: k.address())):
        try:
            out.append([f, str(call())])
        except Exception as e:
            out.append([f, 'raised ' + type(e).__name__])
    return out


def object_record(what, before, k, reuse=None):
    return {'k': 'object', 'what': what, 'before': before, 'after': obj_snapshot(k), 'reuse': reuse or {'net': '', 'wt': ''}}


def _mk_wallet(kind, name, db_uri, net, wt, acct, material, kobj=None):
    from bitcoinlib.wallets import Wallet
    from bitcoinlib.keys import HDKey
    kw = {'network': net, 'witness_type': wt, 'db_uri': db_uri}
    if acct:
        kw['account_id'] = acct
    if kind == 'mnemonic':
        return Wallet.create(name, keys=material['words'], password=material['pass'], **kw)
    seed = bytes.fromhex(material['seed'])
    hk = kobj if kobj is not None else HDKey.from_seed(seed, network=net, witness_type=wt)
    if kind == 'seed':
        return Wallet.create(name, keys=hk, **kw)
    if kind == 'xprv':
        return Wallet.create(name, keys=hk.wif_private(), **kw)
    raise common.MachineryError('unknown wallet material %r' % kind)


def chain_tops(leafs, only=None):
    tops = {}
    for k in leafs:
        c = tuple(k[:4])
        if only is not None and c[:3] != only:
            continue
        tops[c] = max(tops.get(c, -1), k[4])
    return sorted(tops.items())


def derive_all(w2, leafs):
    """Bulk-derive in the restored wallet w2 every chain of `leafs` (rows of the original) up to its highest index."""
    for (net, wt, acct, ch), t in chain_tops(leafs):
        for i in range(t + 1):
            w2.key_for_path([], change=ch, address_index=i, account_id=acct, network=net, witness_type=wt)


def derive_events(drv, tops, rng):
    """The same through a driver: recorded requests key_for_path(chain, 0 .. top)."""
    for (net, wt, acct, ch), t in tops:
        if drv.gentle:
            for i in range(t + 1):
                drv.step({'op': 'key_for_path', 'net': net, 'wt': wt, 'acct': acct, 'ch': ch, 'n': 1, 'idx': i, 'form': 'args'}, rng.randrange(0, 420))
            continue
        drv.step({'op': 'key_for_path', 'net': net, 'wt': wt, 'acct': acct, 'ch': ch, 'n': t + 1, 'idx': 0, 'form': 'args'}, rng.randrange(0, 420))


def restored_rows(w2):
    out = []
    for k in w2.keys():
        if k.depth == w2.key_depth:
            out.append({'net': k.network_name, 'wt': k.witness_type, 'acct': _int(k.account_id), 'ch': _int(k.change),
                        'idx': _int(k.address_index), 'addr': codes(k.address or ''), 'P': list(k.public or b''), 'path': codes(k.path)})
    return out


def family(job):
    """Worker: one seeded wallet family - a wallet with private master key and its history, wallets restored from the
    same material, a watch-only wallet of one of its accounts with a history of its own."""
    logging.disable(logging.CRITICAL)
    from bitcoinlib.mnemonic import Mnemonic
    seedn, net, wt, nops = job['seed'], job['net'], job['wt'], job['nops']
    rng = random.Random(seedn)
    # wallet databases of this family: one sqlite file per wallet, in memory-backed storage where there is one
    shm = '/dev/shm' if os.path.isdir('/dev/shm') and os.access('/dev/shm', os.W_OK) else os.environ['BCL_DATA_DIR']
    d = tempfile.mkdtemp(prefix='verif_c09_', dir=shm)
    try:
        return _family(job, d)
    except common.MachineryError:
        raise
    except Exception as e:                  # a call of the library the driver does not expect to fail
        import traceback
        return {'job': job, 'kind': '?', 'traces': [], 'keys': [], 'desc': {}, 'setup_error': None, 'problems': [],
                'fatal': '%r %s' % (e, traceback.format_exc()[-600:])}
    finally:
        import shutil
        shutil.rmtree(d, True)


def _family(job, d):
    from bitcoinlib.mnemonic import Mnemonic
    seedn, net, wt, nops = job['seed'], job['net'], job['wt'], job['nops']
    rng = random.Random(seedn)

    def uri(n):
        return 'sqlite:///' + os.path.join(d, n + '.sqlite')
    kind = ['mnemonic', 'seed', 'xprv'][seedn % 3]
    acct = rng.choice([0, 0, 0, 1, 2, 3])
    material = {'words': '', 'pass': '', 'seed': ''}
    if kind == 'mnemonic':
        ent = bytes(rng.getrandbits(8) for _ in range(rng.choice([16, 20, 32])))
        material['words'] = Mnemonic().to_mnemonic(ent)
        material['pass'] = rng.choice(['', '', 'TREZOR', 'pass phrase 9'])
        root = {'root': 'mnemonic', 'words': codes(material['words']), 'pass': codes(material['pass'])}
    else:
        material['seed'] = bytes(rng.getrandbits(8) for _ in range(rng.choice([16, 32, 64]))).hex()
        root = {'root': 'seed', 'seed': list(bytes.fromhex(material['seed']))}
    res = {'job': job, 'kind': kind, 'traces': [], 'keys': [], 'desc': {}, 'setup_error': None, 'objects': []}
    name = 'w%d' % seedn
    # the caller's key object: an HDKey with a witness type of its own (equal to the wallet's or not), handed to Wallet.create
    # together with explicit settings, and used again later
    kobj, kwt, snap0 = None, wt, None
    if kind == 'seed':
        from bitcoinlib.keys import HDKey
        kwt = rng.choice(dict(NETS)[net])
        kobj = HDKey.from_seed(bytes.fromhex(material['seed']), network=net, witness_type=kwt)
        snap0 = obj_snapshot(kobj)
    try:
        w = _mk_wallet(kind, name, uri(name), net, wt, acct, material, kobj)
    except Exception as e:
        res['setup_error'] = 'Wallet.create(%s, %s, %s, account %d): %r' % (kind, net, wt, acct, e)
        return res
    cfg = {'net': net, 'wt': wt, 'acct': acct, 'ms': False, 'cos': 0, 'watch': False, 'kwt': kwt}
    if kobj is not None:
        res['objects'].append(object_record('Wallet.create(keys=<HDKey %s>, network=%s, witness_type=%s, account_id=%d)' % (kwt, net, wt, acct), snap0, kobj))
    drv = Driver(w, name, uri(name), cfg, rng)
    drv.gentle = bool(job.get('gentle'))
    drv.ooo = bool(job.get('ooo'))
    for i in range(nops):
        drv.step(drv.pick(False), rng.randrange(0, 420))
    w = drv.w
    leafs = [row_of(k) for k in w.keys() if k.depth == w.key_depth]
    restored = []
    problems = []
    from bitcoinlib.wallets import Wallet
    # (a) watch-only wallet from the public key of one account; it gets a history of its own
    accts = sorted({(k[0], k[1], k[2]) for k in leafs})
    an, awt, aacct = accts[rng.randrange(len(accts))]
    wtrace = None
    w3name = None
    try:
        # the account public key is exported by number (a recorded request: it has to be the key of THAT account)
        drv.last_export = None
        # (every other family: the PRIVATE account key - a wallet that can sign for one account but, like the watch-only
        # one, derives nothing outside it)
        apriv = bool(job.get('acctpriv'))
        drv.step({'op': 'export', 'net': an, 'wt': awt, 'acct': aacct, 'ch': 0, 'n': 1, 'idx': 0, 'form': 'args', 'explicit': True,
                  'spell': 'as_private' if apriv else 'public_master'}, 0)
        if not drv.last_export:
            raise RuntimeError('public_master(account_id=%d, witness_type=%s, network=%s) gave no key' % (aacct, awt, an))
        pmid, pmwif = drv.last_export
        pmobj, pmsnap = None, None
        if seedn % 3 == 2:
            # the key OBJECT an export returns, used as the account wallet's key (and described before / after)
            pmobj = Wallet(name, db_uri=uri(name)).key(pmid).key()
            if not apriv:
                pmobj = pmobj.public()
            pmsnap = obj_snapshot(pmobj)
        w3 = Wallet.create(name + 'p', keys=pmobj if pmobj is not None else pmwif, network=an, witness_type=awt, db_uri=uri(name + 'p'))
        if pmobj is not None:
            res['objects'].append(object_record('Wallet.create(keys=<account key object>, network=%s, witness_type=%s)' % (an, awt), pmsnap, pmobj))
        w3name = name + 'p'
        cfg3 = {'net': an, 'wt': awt, 'acct': _int(w3.main_key.account_id), 'ms': False, 'cos': 0, 'watch': True, 'priv': apriv, 'kwt': awt}
        drv3 = Driver(w3, name + 'p', uri(name + 'p'), cfg3, rng)
        drv3.gentle = bool(job.get('gentle'))
        drv3.ooo = bool(job.get('ooo'))
        for i in range(max(3, nops // 2)):
            drv3.step(drv3.pick(True), rng.randrange(0, 420))
        # the full wallet derives every position the watch-only wallet created on its own, and the other way round:
        # both must list the same addresses
        leafs3 = [[an, awt, aacct] + row_of(k)[3:] for k in drv3.w.keys() if k.depth == drv3.w.key_depth]
        derive_events(drv, chain_tops(leafs3), rng)
        w = drv.w
        leafs = [row_of(k) for k in w.keys() if k.depth == w.key_depth]
        mine = [[an, awt, cfg3['acct']] + k[3:] for k in leafs if tuple(k[:3]) == (an, awt, aacct)]
        derive_events(drv3, chain_tops(mine), rng)
        restored.append({'kind': 'xpub', 'net': an, 'wt': awt, 'acct': aacct, 'keys': restored_rows(drv3.w)})
        res['desc']['watch'] = drv3.desc
    except Exception as e:
        import traceback
        problems.append('watch-only wallet of account (%s, %s, %d) raised %r %s' % (an, awt, aacct, e, traceback.format_exc()[-400:]))
        w3name = None
    rows, obs = table_of(name, uri(name))
    if w3name:
        rows3, obs3 = table_of(w3name, uri(w3name))
        wtrace = {'k': 'trace', 'cfg': cfg3, 'events': drv3.events, 'keys': rows3, 'restored': [], 'cotrees': []}
        res['keys'] += [dict(x, wallet='account-private' if apriv else 'watch-only', exported=drv3.ever_exported) for x in
                        key_records(rows3, obs3, {'root': 'acct' if apriv else 'pub', 'parent': obs[pmid]}, rng, job.get('nleaf'))]
    # (b) restored from the same material in another spelling, every chain derived in bulk
    leafs = [row_of(k) for k in drv.w.keys() if k.depth == drv.w.key_depth]
    if kind == 'mnemonic':
        material['seed'] = ref.pbkdf2_sha512(ref.nfkd(material['words']).encode(), b'mnemonic' + ref.nfkd(material['pass']).encode()).hex()
        k2 = rng.choice(['mnemonic', 'seed', 'xprv'])
    else:
        k2 = rng.choice(['seed', 'xprv'])
    try:
        w2 = _mk_wallet(k2, name + 'r', uri(name + 'r'), net, wt, acct, material)
        derive_all(w2, leafs)
        restored.append({'kind': k2, 'net': net, 'wt': wt, 'acct': acct, 'keys': restored_rows(w2)})
    except Exception as e:
        problems.append('restoring from %s raised %r' % (k2, e))
    res['traces'].append({'k': 'trace', 'cfg': cfg, 'events': drv.events, 'keys': rows, 'restored': restored, 'cotrees': []})
    if kobj is not None:
        # the same object again: after the history, after an export from the object itself, and as key of another wallet
        # created with default settings - which has to be the wallet of the object's ORIGINAL witness type and network
        res['objects'].append(object_record('the history of the wallet made from it', snap0, kobj))
        try:
            kobj.public_master()
            res['objects'].append(object_record('HDKey.public_master()', snap0, kobj))
            ucfg = {'net': net, 'wt': kwt, 'acct': 0, 'ms': False, 'cos': 0, 'watch': False, 'kwt': kwt}
            wu = Wallet.create(name + 'u', keys=kobj, db_uri=uri(name + 'u'))
            res['objects'].append(object_record('Wallet.create(keys=<the same HDKey>) with default settings', snap0, kobj,
                                                {'net': ucfg['net'], 'wt': ucfg['wt']}))
            drvu = Driver(wu, name + 'u', uri(name + 'u'), ucfg, rng)
            drvu.gentle = True
            for i in range(3):
                drvu.step(drvu.pick(False), rng.randrange(0, 420))
            rowsu, obsu = table_of(name + 'u', uri(name + 'u'))
            res['traces'].append({'k': 'trace', 'cfg': ucfg, 'events': drvu.events, 'keys': rowsu, 'restored': [], 'cotrees': [], 'which': 'reuse'})
            res['keys'] += [dict(x, wallet='reused-object', exported=drvu.ever_exported) for x in key_records(rowsu, obsu, root, rng, 4)]
            res['desc']['reuse'] = drvu.desc
        except Exception as e:
            problems.append('wallet from the reused key object raised %r' % e)
    if wtrace:
        res['traces'].append(wtrace)
    res['keys'] += [dict(x, wallet='full', exported=drv.ever_exported) for x in key_records(rows, obs, root, rng, job.get('nleaf'))]
    res['desc']['full'] = drv.desc
    res['problems'] = problems
    res['material'] = {'kind': kind, 'restored_from': k2, 'watch_account': [an, awt, aacct]}
    return res


def jobs_for(n, base, nleaf=None):
    jobs = []
    combos = [(net, wt) for net, wts in NETS for wt in wts]
    for i in range(n):
        net, wt = combos[i % len(combos)]
        # every other wallet on a network whose extended-key versions do not tell the witness types apart asks for one key
        # at a time (so that its history is not cut short by the known deviation of bulk creation)
        gentle = net.startswith('litecoin') and (i // len(combos)) % 2 == 0
        jobs.append({'seed': base + i, 'net': net, 'wt': wt, 'nops': 6 + (i * 7) % 9, 'nleaf': nleaf, 'gentle': gentle,
                     'ooo': i % 3 == 1, 'acctpriv': i % 2 == 1})
    return jobs


def _dispatch(x):
    from harness import c09_ms
    return family(x[1]) if x[0] == 's' else c09_ms.family(x[1])


def describe(fam, which, upto=None):
    d = fam['desc'].get(which, [])
    return ' ; '.join(d[:upto] if upto else d)[:1200]


def run(replay=None):
    common.fresh_bitcoinlib_env()
    ref.selftest()
    ck = Check(PID)
    thorough = tier() == 'thorough'
    ck.rule = ('trace = seeded history of one wallet database (full wallet or watch-only wallet of one account); case = one call with '
               'the keys it handed out and the wallet\'s key list after it, or one stored key judged against BIP32 and the address '
               'construction; class = (wallet kind, network, witness type, request, own / other chain, answered / refused) resp. '
               '(key, network, witness type, depth, private / public derivation)')
    ck.assumptions = ['offline: funds arrive through utxos_update(key_id=, utxos=[...]); Wallet.scan itself needs a provider and is '
                      'represented by its key requests (get_keys in bulk per witness type and chain)',
                      'harness/ref.py is the standard interpretation of HMAC-SHA512, HASH160, SHA-256d, secp256k1 and PBKDF2 '
                      '(BIP39 seed: NFKD sentence, salt "mnemonic" + passphrase - the structure of C14)',
                      'regtest is the library\'s own network definition (coin type 0, main-net prefixes), bitcoinlib_test its unit-test network',
                      'one wallet holds networks with pairwise distinct coin types only (others must be refused)',
                      'multisig key paths (BIP45/48) are stated in the specification and model; cosigner wallets are driven by C10']
    from concurrent.futures import ThreadPoolExecutor
    acts = ['NewKeys', 'GetKeys', 'KeyForPath', 'NewAccount', 'MarkUsed', 'Export']
    ex = ThreadPoolExecutor(3)
    mc1 = ex.submit(common.model_check, 'MC_WalletKeys', 'MC_WalletKeys_thorough.cfg' if thorough else 'MC_WalletKeys.cfg',
                    workers=8 if thorough else 4, expect_actions=acts)
    mc2 = ex.submit(common.model_check, 'MC_WalletKeys', 'MC_WalletKeys_watch_thorough.cfg' if thorough else 'MC_WalletKeys_watch.cfg',
                    workers=3, expect_actions=acts)
    mc3 = ex.submit(common.model_check, 'MC_WalletKeys', 'MC_WalletKeys_ms_thorough.cfg' if thorough else 'MC_WalletKeys_ms.cfg',
                    workers=3, expect_actions=acts)
    if replay:
        jobs = [replay['case']['job']]
    else:
        jobs = jobs_for(300 if thorough else 38, common.seed() % 1000000, None if thorough else 5)
    import time as _t
    T = [_t.time()]

    def lap(what):
        if os.environ.get('VERIF_DEBUG'):
            print('DEBUG time %-10s %.1fs' % (what, _t.time() - T[0]))
        T[0] = _t.time()
    from harness import c09_ms
    if replay:
        msjobs = []
        if jobs[0].get('ms'):
            msjobs, jobs = jobs, []
    else:
        combos = [(n, t) for n, ts in NETS for t in ts]
        nms = 60 if thorough else 10
        base = common.seed() % 1000000
        msjobs = [{'seed': base + 5000 + i, 'net': combos[(i * 5 + base) % len(combos)][0], 'wt': combos[(i * 5 + base) % len(combos)][1],
                   'nops': 5 + i % 6, 'nleaf': None if thorough else 5, 'ms': True, 'gentle': i % 2 == 0, 'ooo': i % 3 == 1} for i in range(nms)]
    res_all = common.pmap(_dispatch, [('s', j) for j in jobs] + [('m', j) for j in msjobs], procs=10)
    fams = res_all
    lap('drive')
    trecs, tinfo, krecs, kinfo = [], [], [], []
    for fam in fams:
        if fam['setup_error'] or fam.get('fatal'):
            ck.violation(None, 'clause call-raised; wallet family %s: %s' % (fam['job'], fam['setup_error'] or fam['fatal']), {'job': fam['job']})
            continue
        for t in fam['traces']:
            trecs.append(t)
            tinfo.append(fam)
        for k in fam['keys']:
            krecs.append(k)
            kinfo.append(fam)
    # the restored wallets are compared in a second pass, for the families all of whose histories conform (after a
    # deviation a wallet's table is what the deviation left behind)
    rrecs, rinfo = [], []
    for t, fam in zip(trecs, tinfo):
        if t['restored']:
            rrecs.append({'k': 'restore', 'cfg': t['cfg'], 'keys': t['keys'], 'restored': t['restored']})
            rinfo.append(fam)
            t['restored'] = []
    tver = common.tlc_eval('WalletKeysEval', trecs, procs=8 if thorough else 3, timeout=900)
    conform = {}
    for t, fam, v in zip(trecs, tinfo, tver):
        conform[fam['job']['seed']] = conform.get(fam['job']['seed'], True) and v['v'] == 'ok'
    keep = [i for i, fam in enumerate(rinfo) if conform.get(fam['job']['seed'], False)]
    rver = common.tlc_eval('WalletKeysEval', [rrecs[i] for i in keep], procs=4 if thorough else 2, timeout=900)
    for i, v in zip(keep, rver):
        fam, r = rinfo[i], rrecs[i]
        ck.case(('restore', r['cfg']['net'], r['cfg']['wt'], r['cfg']['ms'], tuple(x['kind'] for x in r['restored'])))
        if v['v'] != 'ok':
            R = r['restored'][v['at'] - 1]
            ck.violation(None, 'clause %s; wallet %s/%s account %d (seed %d, from %s) restored from %s (account %s/%s/%d) | history: %s' % (
                v['v'], r['cfg']['net'], r['cfg']['wt'], r['cfg']['acct'], fam['job']['seed'], fam['kind'], R['kind'], R['net'], R['wt'], R['acct'],
                describe(fam, 'full')), {'job': fam['job']})
    orecs = [(fam, o) for fam in fams for o in fam.get('objects', [])]
    over = common.tlc_eval('WalletKeysEval', [o for _, o in orecs], procs=1, timeout=600)
    for (fam, o), v in zip(orecs, over):
        ck.case(('object', fam['kind'], fam['job']['net'], fam['job']['wt'], o['what'].split('(')[0]))
        if v['v'] != 'ok':
            ck.violation(None, 'clause %s; key object of wallet family %s/%s (seed %d, from %s) after %s: now says %s' % (
                v['v'], fam['job']['net'], fam['job']['wt'], fam['job']['seed'], fam['kind'], o['what'],
                [x for x in v['exp'] if x][:4]), {'job': fam['job']})
    ck.notes['key_objects_described'] = len(orecs)
    lap('traces')
    orc = c09_oracle.Oracle9()
    kver = orc.judge(procs=12 if thorough else 5, recs=[{x: r[x] for x in ('k', 'root', 'seed', 'words', 'pass', 'parent', 'child', 'tok', 'net', 'wt', 'exported', 'noaddr')} for r in krecs])
    lap('keys')
    for t, fam, v in zip(trecs, tinfo, tver):
        ck.traces += 1
        case = {'job': fam['job']}
        kindw = 'multisig' if t['cfg']['ms'] else (('account-private' if t['cfg'].get('priv') else 'watch-only') if t['cfg']['watch'] else 'full')
        for e in t['events']:
            own = (e['a']['net'], e['a']['wt'], e['a']['acct']) == (t['cfg']['net'], t['cfg']['wt'], t['cfg']['acct'])
            ck.case((kindw, t['cfg']['net'], t['cfg']['wt'], e['a']['op'], min(e['a']['n'], 2), own, e['ok']))
        if v['v'] != 'ok':
            which = t.get('which') or ('watch' if t['cfg']['watch'] and not t['cfg']['ms'] else 'full')
            at = v['at']
            text = 'clause %s; %s wallet %s/%s account %d (seed %d, from %s), at %s: %s | expected %s | history: %s' % (
                v['v'], kindw, t['cfg']['net'], t['cfg']['wt'], t['cfg']['acct'], fam['job']['seed'], fam['kind'], at,
                (fam['desc'][which][at - 1] if 0 < at <= len(fam['desc'][which]) and v['v'] not in ('two-keys-share-an-address',) else '')[:300],
                str(v['exp'])[:200], describe(fam, which, at - 1 if at else None))
            for key in (v['devs'] or [None]):
                ck.violation(key, text, case)
    for r, fam, v in zip(krecs, kinfo, kver):
        o = r['child']
        ck.case(('key', r['wallet'], r['net'], r['wt'], o['depth'], o['priv'], r['root']))
        if v['v'] != 'ok':
            text = 'clause %s; key %s (id %d) of the %s wallet %s/%s (seed %d, from %s): stored public key %s address %s | expected %s' % (
                v['v'], ''.join(chr(c) for c in r['path']), r['id'], r['wallet'], fam['job']['net'], fam['job']['wt'], fam['job']['seed'],
                fam['kind'], bytes(o['P']).hex(), ''.join(chr(c) for c in o['addr']),
                [bytes(x).hex() for x in v['exp']][:3])
            for key in (v['devs'] or [None]):
                ck.violation(key, text, {'job': fam['job']})
    # a restore / export that raised is a finding only for a wallet whose history conforms (after a deviation the wallet's
    # tables are what the deviation left behind)
    for fam in fams:
        if not conform.get(fam['job']['seed'], True):
            continue
        for p in fam.get('problems', []):
            ck.violation(None, 'clause restore-raised; wallet %s/%s (seed %d, from %s): %s | history: %s' % (
                fam['job']['net'], fam['job']['wt'], fam['job']['seed'], fam['kind'], p, describe(fam, 'full')), {'job': fam['job']})
    ck.model(mc1.result())
    ck.model(mc2.result())
    ck.model(mc3.result())
    ck.notes['events'] = sum(len(t['events']) for t in trecs)
    ck.notes['keys_judged'] = len(krecs)
    ck.notes['restored_wallets'] = sum(len(rrecs[i]['restored']) for i in keep)
    ck.notes['oracle'] = {'rounds': orc.rounds, 'applications': orc.applications}
    for fam in fams[:2]:
        ck.sample({'wallet': [fam['job']['net'], fam['job']['wt'], fam['kind']], 'history': fam['desc'].get('full', [])[:5]})
    return ck.finish()
