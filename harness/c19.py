"""C19 - script evaluation against spec/ScriptVM.tla (consensus semantics + named deviations).

(M) MC_ScriptVM: bounded model of the script machine (design invariants).
(G) programs: every implemented opcode against every small stack (one-step exhaustive), random multi-step programs
    with nested conditionals, standard spends with real signatures, lock-time environments.  Each program is run by
    bitcoinlib's Script.evaluate; TLC (ScriptVMEval) computes the consensus result from the specification, and on
    disagreement the smallest set of named deviations reproducing the observation exactly.
"""
import hashlib
import itertools
import logging

from harness import common, ref
from harness.common import Check, blist, tier

PID = 'C19'

OPS = {
    'OP_0': 0, 'OP_1NEGATE': 79, 'OP_NOP': 97, 'OP_IF': 99, 'OP_NOTIF': 100, 'OP_ELSE': 103, 'OP_ENDIF': 104,
    'OP_VERIFY': 105, 'OP_RETURN': 106, 'OP_2DROP': 109, 'OP_2DUP': 110, 'OP_3DUP': 111, 'OP_2OVER': 112, 'OP_2ROT': 113,
    'OP_2SWAP': 114, 'OP_IFDUP': 115, 'OP_DEPTH': 116, 'OP_DROP': 117, 'OP_DUP': 118, 'OP_NIP': 119, 'OP_OVER': 120,
    'OP_PICK': 121, 'OP_ROLL': 122, 'OP_ROT': 123, 'OP_SWAP': 124, 'OP_TUCK': 125, 'OP_SIZE': 130, 'OP_EQUAL': 135,
    'OP_EQUALVERIFY': 136, 'OP_1ADD': 139, 'OP_1SUB': 140, 'OP_NEGATE': 143, 'OP_ABS': 144, 'OP_NOT': 145, 'OP_0NOTEQUAL': 146,
    'OP_ADD': 147, 'OP_SUB': 148, 'OP_BOOLAND': 154, 'OP_BOOLOR': 155, 'OP_NUMEQUAL': 156, 'OP_NUMEQUALVERIFY': 157,
    'OP_NUMNOTEQUAL': 158, 'OP_LESSTHAN': 159, 'OP_GREATERTHAN': 160, 'OP_LESSTHANOREQUAL': 161, 'OP_GREATERTHANOREQUAL': 162,
    'OP_MIN': 163, 'OP_MAX': 164, 'OP_WITHIN': 165, 'OP_RIPEMD160': 166, 'OP_SHA1': 167, 'OP_SHA256': 168, 'OP_HASH160': 169,
    'OP_HASH256': 170, 'OP_CHECKSIG': 172, 'OP_CHECKSIGVERIFY': 173, 'OP_CHECKMULTISIG': 174, 'OP_CHECKMULTISIGVERIFY': 175,
    'OP_NOP1': 176, 'OP_CLTV': 177, 'OP_CSV': 178, 'OP_NOP4': 179, 'OP_NOP5': 180, 'OP_NOP6': 181, 'OP_NOP7': 182, 'OP_NOP8': 183,
    'OP_NOP9': 184, 'OP_NOP10': 185}
for _i in range(1, 17):
    OPS['OP_%d' % _i] = 80 + _i
FLOW = (99, 100, 103, 104)
HASHES = {166: 'ripemd160', 167: 'sha1', 168: 'sha256', 169: 'hash160', 170: 'hash256'}
VALUES = [b'', b'\x00', b'\x01', b'\x02', b'\x03', b'\x7f', b'\x80', b'\x81', b'\xff', b'\x00\x80', b'\xff\x7f',
          b'\x01\x02\x03\x04\x05']
MSG = hashlib.sha256(b'verif C19 message').digest()


def hash_fact(name, v):
    if name == 'ripemd160':
        return ref.ripemd160(v)
    if name == 'sha1':
        return hashlib.sha1(v).digest()
    if name == 'sha256':
        return ref.sha256(v)
    if name == 'hash160':
        return ref.hash160(v)
    return ref.sha256d(v)


def strict_der(sig):
    """BIP66 IsValidSignatureEncoding (sig includes the hash-type byte)."""
    if len(sig) < 9 or len(sig) > 73:
        return False
    if sig[0] != 0x30 or sig[1] != len(sig) - 3:
        return False
    lr = sig[3]
    if 5 + lr >= len(sig):
        return False
    ls = sig[5 + lr]
    if lr + ls + 7 != len(sig):
        return False
    if sig[2] != 2 or lr == 0 or sig[4] & 0x80:
        return False
    if lr > 1 and sig[4] == 0 and not sig[5] & 0x80:
        return False
    if sig[lr + 4] != 2 or ls == 0 or sig[lr + 6] & 0x80:
        return False
    if ls > 1 and sig[lr + 6] == 0 and not sig[lr + 7] & 0x80:
        return False
    return True


def sig_class(sig, pk, msg=MSG):
    if not sig:
        return 'unparsable'
    if not strict_der(sig):
        return 'badder'
    pt = ref.parse_point(pk)
    if pt is None:
        return 'unparsable'
    lr = sig[3]
    r = int.from_bytes(sig[4:4 + lr], 'big')
    ls = sig[5 + lr]
    s = int.from_bytes(sig[6 + lr:6 + lr + ls], 'big')
    return 'valid' if ref.ecdsa_verify(pt, int.from_bytes(msg, 'big'), r, s) else 'invalid'


def der_sig(k, msg=MSG, nonce=None):
    """A strict-DER, low-S signature by private key k (reference implementation), with hash type 01."""
    nonce = nonce or ref.rfc6979_k(k, msg)
    r = ref.ec_mul(nonce)[0] % ref.N
    s = pow(nonce, -1, ref.N) * (int.from_bytes(msg, 'big') + r * k) % ref.N
    if s > ref.N // 2:
        s = ref.N - s

    def enc(v):
        b = v.to_bytes((v.bit_length() + 8) // 8, 'big')
        return b'\x02' + bytes([len(b)]) + b
    body = enc(r) + enc(s)
    return b'\x30' + bytes([len(body)]) + body + b'\x01'


def jitems(prog):
    return [{'t': 'op', 'c': c} if isinstance(c, int) else {'t': 'data', 'd': blist(c)} for c in prog]


def push(v):
    return 0 if v == b'' else v


def env_spec(e, hashes, sigs):
    seq = e['sequence']
    return {'hashes': [[n, blist(a), blist(b)] for (n, a), b in sorted(hashes.items())],
            'sigs': [[blist(a), blist(b), c] for (a, b), c in sorted(sigs.items())],
            'locktime': e['locktime'], 'seqfinal': seq == 0xffffffff, 'version': e['version'],
            'seqdisable': bool(seq >> 31 & 1), 'seqtype': bool(seq >> 22 & 1), 'seqval': seq & 0xffff,
            'hasredeem': 'redeemscript' in e, 'redeem': blist(e.get('redeemscript', b''))}


DEFAULT_ENV = {'sequence': 0xfffffffe, 'locktime': 100, 'version': 2}


def run_lib(progs):
    """Evaluate programs with bitcoinlib (in this process); returns [(ok, stack)]."""
    from bitcoinlib.scripts import Script
    out = []
    for prog, env in progs:
        e = dict(env)
        try:
            sc = Script(commands=list(prog))
            ok = bool(sc.evaluate(message=MSG, env_data=e))
            stack = [bytes(x) for x in sc.stack] if ok else []
        except Exception:
            ok, stack = False, []
        # the same object evaluated once more: evaluation is a function of script and environment
        again = None
        try:
            ok2 = bool(sc.evaluate(message=MSG, env_data=dict(env)))
            stack2 = [bytes(x) for x in sc.stack] if ok2 else []
        except Exception:
            ok2, stack2 = False, []
        if (ok2, stack2) != (ok, stack):
            again = (ok2, [x.hex() for x in stack2])
        out.append((ok, stack, again))
    return out


def lib_worker(chunk):
    logging.disable(logging.CRITICAL)
    return run_lib(chunk)


def gen_programs(ck, thorough, keys):
    rng = ck.rng
    progs = []      # (program, env, class, description)
    allops = sorted(set(OPS.values()))
    single = [c for c in allops if c not in FLOW]
    # --- (1) one-step exhaustive: every opcode against every stack of depth <= 3 over VALUES
    stacks = [()]
    for d in (1, 2, 3):
        stacks += list(itertools.product(range(len(VALUES)), repeat=d))
    for stk in stacks:
        if len(stk) == 3 and not thorough and rng.random() > 0.12:
            continue
        pre = [push(VALUES[i]) for i in stk]
        for c in single:
            progs.append((pre + [c], DEFAULT_ENV, ('one-step', c, len(stk)), None))
            if c not in (105, 106) and rng.random() < 0.15:
                progs.append((pre + [c, OPS['OP_DEPTH']], DEFAULT_ENV, ('one-step+depth', c, len(stk)), None))
    # deeper stacks for the opcodes that need them
    deep_ops = [OPS[x] for x in ('OP_2ROT', 'OP_2OVER', 'OP_3DUP', 'OP_2SWAP', 'OP_PICK', 'OP_ROLL', 'OP_ROT', 'OP_TUCK', 'OP_WITHIN')]
    for _ in range(20000 if thorough else 1500):
        d = rng.randrange(3, 7)
        pre = [bytes([0x10 + i]) for i in range(d)]
        c = rng.choice(deep_ops)
        if c in (OPS['OP_PICK'], OPS['OP_ROLL']):
            pre.append(push(rng.choice([b'', b'\x01', b'\x02', b'\x03', b'\x04', b'\x05', b'\x06', b'\x81', b'\x00'])))
        if c == OPS['OP_WITHIN']:
            pre = pre[:max(0, d - 3)] + [push(ref_num(rng.randrange(-3, 6))) for _ in range(3)]
        progs.append((pre + [c], DEFAULT_ENV, ('deep', c, d), None))
        progs.append((pre + [c, OPS['OP_DEPTH']], DEFAULT_ENV, ('deep+depth', c, d), None))
    # --- (1b) conditionals against every kind of condition value (any length; CastToBool)
    cond_vals = VALUES + [b'\x00\x00', b'\x00\x00\x00\x00\x00', b'\x00\x00\x00\x80', b'\x00\x00\x00\x00\x80',
                          b'\x00\x00\x00\x00\x00\x01', b'\x80\x00', ref.hash160(b'x'), ref.pubkey(7), b'\x00' * 20,
                          b'\x00' * 32 + b'\x80', der_sig(5)]
    for v in cond_vals:
        for c in (99, 100):
            progs.append(([push(v), c, 81, 103, 0, 104], DEFAULT_ENV, ('cond-else', c, len(v)), None))
            progs.append(([push(v), c, 81, 104, 116], DEFAULT_ENV, ('cond-depth', c, len(v)), None))
            progs.append(([push(v), c, 106, 104, 81], DEFAULT_ENV, ('cond-return', c, len(v)), None))
            progs.append(([push(v), c, 82, 103, 83, 104, 116, 148], DEFAULT_ENV, ('cond-else2', c, len(v)), None))
            for w in cond_vals[:6] + cond_vals[-5:-1]:
                progs.append(([push(v), c, push(w), 100 if c == 99 else 99, 85, 103, 86, 104, 103, 87, 104], DEFAULT_ENV,
                              ('cond-nested', c, len(v), len(w)), None))
    # --- (2) arithmetic / comparison tables on small numbers (operand order matters)
    nums = [-3, -1, 0, 1, 2, 5, 127, 128, 255, 256, -128, 70000]
    for c in range(OPS['OP_ADD'], OPS['OP_MAX'] + 1):
        if c in set(OPS.values()):
            for a in nums:
                for b in nums:
                    progs.append(([push(ref_num(a)), push(ref_num(b)), c], DEFAULT_ENV, ('arith', c), None))
    # --- (2b) numeric operands longer than 4 bytes (the limit is on the LENGTH, whatever the value): zero-padded small numbers,
    # long zero and negative zero, values that need 5 bytes, data; in every operand position of every numeric opcode
    long_ops = [b'\x05\x00\x00\x00\x00', b'\x00\x00\x00\x00\x00', b'\x00\x00\x00\x00\x80', b'\x01\x00\x00\x00\x80', b'\x00' * 20,
                b'\xff\xff\xff\x7f\x00', b'\x00\x00\x00\x80\x00', b'\x01\x00\x00\x00\x00\x00']
    unary = [OPS[x] for x in ('OP_1ADD', 'OP_1SUB', 'OP_NEGATE', 'OP_ABS', 'OP_NOT', 'OP_0NOTEQUAL') if x in OPS]
    for v in long_ops:
        for c in unary:
            progs.append(([push(v), c], DEFAULT_ENV, ('arith-long-unary', c, len(v)), None))
            progs.append(([push(v), c, OPS['OP_DEPTH']], DEFAULT_ENV, ('arith-long-unary+depth', c, len(v)), None))
        for c in range(OPS['OP_ADD'], OPS['OP_MAX'] + 1):
            if c in set(OPS.values()):
                for small in (b'', b'\x01', b'\x05'):
                    progs.append(([push(v), push(small), c], DEFAULT_ENV, ('arith-long-first', c, len(v)), None))
                    progs.append(([push(small), push(v), c], DEFAULT_ENV, ('arith-long-second', c, len(v)), None))
        for pos in range(3):
            args = [push(b'\x01'), push(b''), push(b'\x05')]
            args[pos] = push(v)
            progs.append((args + [OPS['OP_WITHIN']], DEFAULT_ENV, ('within-long', pos, len(v)), None))
        for c in (OPS['OP_PICK'], OPS['OP_ROLL']):
            progs.append(([push(b'\x11'), push(b'\x12'), push(v), c], DEFAULT_ENV, ('pick-roll-long', c, len(v)), None))
    for x in (-1, 0, 1, 2, 3, 5):
        for lo in (0, 1, 2):
            for hi in (1, 2, 3, 5):
                progs.append(([push(ref_num(x)), push(ref_num(lo)), push(ref_num(hi)), OPS['OP_WITHIN']], DEFAULT_ENV,
                              ('within',), None))
    # --- (3) random multi-step programs with nested conditionals
    simple = [c for c in single if c not in (172, 173, 174, 175) and c not in HASHES]

    def block(depth, n):
        out = []
        for _ in range(n):
            r = rng.random()
            if r < 0.12 and depth < 3:
                out.append(push(rng.choice(VALUES + [b'\x00' * 5, b'\x07' * 20, b'\x00\x00\x80'])))
                out.append(rng.choice([99, 100]))
                out += block(depth + 1, rng.randrange(0, 4))
                if rng.random() < 0.6:
                    out.append(103)
                    out += block(depth + 1, rng.randrange(0, 4))
                out.append(104)
            elif r < 0.5:
                out.append(push(rng.choice(VALUES[:11])) if rng.random() < 0.7 else push(ref_num(rng.randrange(-20, 300))))
            elif r < 0.55:
                out.append(rng.choice(list(HASHES)))
            else:
                out.append(rng.choice(simple))
        return out
    for _ in range(40000 if thorough else 4000):
        p = block(0, rng.randrange(2, 10))
        if rng.random() < 0.05:       # unbalanced conditionals
            p = [q for q in p if q != 104][:12] if rng.random() < 0.5 else p + [rng.choice([103, 104])]
        progs.append((p, DEFAULT_ENV, ('multi', min(len(p), 12), sum(1 for q in p if q in (99, 100))), None))
    # --- (4) standard spends with real signatures
    for i, (k, pub) in enumerate(keys):
        sig = der_sig(k)
        other = der_sig(keys[(i + 1) % len(keys)][0])
        h160 = ref.hash160(pub)
        p2pkh = [118, 169, h160, 136, 172]
        for s, nm in ((sig, 'good'), (other, 'wrongkey'), (b'', 'emptysig'), (sig[:-2] + bytes([sig[-2] ^ 1, 1]), 'corrupt')):
            progs.append(([s, pub] + p2pkh, DEFAULT_ENV, ('p2pkh', nm), None))
            progs.append(([s, pub, 172], DEFAULT_ENV, ('p2pk', nm), None))
            progs.append(([s, pub, 172, 145], DEFAULT_ENV, ('p2pk-not', nm), None))
            progs.append(([s, pub, 173, 81], DEFAULT_ENV, ('checksigverify', nm), None))
        progs.append(([sig, keys[(i + 1) % len(keys)][1]] + p2pkh, DEFAULT_ENV, ('p2pkh', 'wrongpub'), None))
        progs.append(([sig, b'\x02' + b'\x00' * 31 + b'\x05', 172, 145], DEFAULT_ENV, ('p2pk-not', 'offcurve'), None))
    # bare multisig m-of-n
    for n in (1, 2, 3):
        for m in range(1, n + 1):
            ks = keys[:n]
            pubs = [p for _, p in ks]
            redeem_cmds = [80 + m] + pubs + [80 + n, 174]
            from_lib_redeem = b''.join(bytes([c]) if isinstance(c, int) else bytes([len(c)]) + c for c in redeem_cmds)
            for signers in itertools.permutations(range(n), m):
                sigs = [der_sig(ks[j][0]) for j in signers]
                for with_env in (False, True):
                    env = dict(DEFAULT_ENV)
                    if with_env:
                        env['redeemscript'] = from_lib_redeem
                    progs.append(([0] + sigs + redeem_cmds, env, ('multisig', m, n, list(signers) == sorted(signers), with_env), None))
                    progs.append(([0] + sigs + redeem_cmds[:-1] + [175, 81], env, ('multisigverify', m, n, with_env), None))
            if m >= 1:
                foreign = der_sig(keys[-1][0])
                env = dict(DEFAULT_ENV)
                env['redeemscript'] = from_lib_redeem
                progs.append(([0] + [foreign] * m + redeem_cmds, env, ('multisig-foreign', m, n), None))
                progs.append(([0] + [der_sig(ks[0][0])] * m + redeem_cmds, env, ('multisig-dup', m, n), None))
                progs.append(([der_sig(ks[j][0]) for j in range(m)] + redeem_cmds, env, ('multisig-nodummy', m, n), None))
                if m < n:
                    progs.append(([0] + [der_sig(ks[j][0]) for j in range(m - 1)] + redeem_cmds, env, ('multisig-short', m, n), None))
    # --- (5) lock times
    for lock in (0, 1, 99, 100, 101, 49999999, 50000001, 499999999, 500000000, 500000001, 1600000000):
        for seq in (0xffffffff, 0xfffffffe, 0, 5, 0x400005, 0x80000005, 0x00400000 | 3):
            for ver in (1, 2):
                env = {'sequence': seq, 'locktime': lock, 'version': ver}
                # operands longer than 4 bytes: non-minimal 5-byte numbers, bit 31 set (CSV disable flag), >= 2^32, negative,
                # and items longer than 5 bytes (a hash, 6 bytes)
                for raw5 in (b'\x05\x00\x00\x00\x00', b'\x00\x00\x00\x80\x00', b'\x05\x00\x00\x80\x00', b'\x00\x00\x00\x00\x01',
                             b'\x05\x00\x00\x00\x80', b'\x00\x00\x00\x00\x80', ref.hash160(b'x'), b'\x01\x00\x00\x00\x00\x00'):
                    progs.append(([raw5, 177], env, ('cltv-long', len(raw5)), None))
                    progs.append(([raw5, 178], env, ('csv-long', len(raw5), raw5[3] >= 128), None))
                for opnd in (0, 1, 5, 6, 100, 0x400003, 0x400006, 499999999, 500000000, 1500000000, -1):
                    if abs(opnd) < 2 ** 31:
                        progs.append(([push(ref_num(opnd)), 177], env, ('cltv', lock >= 500000000, seq == 0xffffffff, opnd < 0), None))
                        progs.append(([push(ref_num(opnd)), 178], env, ('csv', ver, seq >> 31, seq >> 22 & 1, opnd < 0), None))
                progs.append(([177, 81], env, ('cltv-empty',), None))
                progs.append(([178, 81], env, ('csv-empty',), None))
    return progs


def ref_num(i):
    """Minimal script-number encoding (input construction only)."""
    if i == 0:
        return b''
    a = abs(i)
    b = bytearray(a.to_bytes((a.bit_length() + 7) // 8, 'little'))
    if b[-1] & 0x80:
        b.append(0x80 if i < 0 else 0)
    elif i < 0:
        b[-1] |= 0x80
    return bytes(b)


def run(replay=None):
    common.fresh_bitcoinlib_env()
    ref.selftest()
    logging.disable(logging.CRITICAL)
    ck = Check(PID)
    thorough = tier() == 'thorough'
    ck.rule = ('case = program run by Script.evaluate and by the specification (TLC); class = (family, opcode, stack depth / '
               'shape); families: every implemented opcode x every stack of depth<=3 over 12 values (quick: depth 3 sampled), '
               'deep-stack opcodes, arithmetic/comparison operand tables, random programs with nested IF/NOTIF/ELSE/ENDIF, '
               'P2PKH/P2PK/bare multisig spends with real signatures, CLTV/CSV environments')
    ck.assumptions = ['hash functions and ECDSA validity are oracle facts computed by harness/ref.py and hashlib',
                      'consensus flags P2SH|DERSIG|CLTV|CSV; policy-only rules (MINIMALDATA, NULLDUMMY, MINIMALIF) not applied',
                      'numeric operands below 2^31; scripts with more than one OP_ELSE per IF are not generated',
                      'P2SH two-phase evaluation is outside Script.evaluate and not modelled']
    ck.model(common.model_check('MC_ScriptVM', 'MC_ScriptVM_thorough.cfg' if thorough else 'MC_ScriptVM.cfg', expect_actions=['Next']))
    keys = [(k, ref.pubkey(k, compressed=(k % 2 == 0))) for k in (0x1111, 0x2222, 0x3333, 0xabcdef12345)]
    if replay:
        c = replay['case']
        progs = [([bytes.fromhex(x['d']) if x['t'] == 'data' else x['c'] for x in c['prog']], c['env'], ('replay',), None)]
        for p in progs:
            if 'redeemscript' in p[1]:
                p[1]['redeemscript'] = bytes.fromhex(p[1]['redeemscript'])
    else:
        progs = gen_programs(ck, thorough, keys)
    # run the implementation
    chunks = [progs[i::32] for i in range(32)]
    obs_chunks = common.pmap(lib_worker, [[(p, e) for p, e, _, _ in ch] for ch in chunks])
    obs = [None] * len(progs)
    for ci, oc in enumerate(obs_chunks):
        for j, o in enumerate(oc):
            obs[ci + 32 * j] = o
    # oracle facts: hashes of all pushed values (more on demand), signature classes for all (sig-like, key-like) pairs
    hashes = {}
    sigcache = {}

    def facts(prog):
        datas = [c for c in prog if isinstance(c, bytes)]
        hs = {}
        for c in prog:
            if isinstance(c, int) and c in HASHES:
                for d in datas + [b'']:
                    hs[(HASHES[c], d)] = hash_fact(HASHES[c], d)
        sg = {}
        if any(isinstance(c, int) and 172 <= c <= 175 for c in prog):
            cand = set(datas) | {b'\x01', b'\x02', b'\x03'}
            for a in cand:
                for b in cand:
                    if a and (a, b) not in sigcache:
                        sigcache[(a, b)] = sig_class(a, b)
                    if a:
                        sg[(a, b)] = sigcache[(a, b)]
        return hs, sg

    recs = []
    extra = [dict() for _ in progs]
    for i, (p, e, _, _) in enumerate(progs):
        hs, sg = facts(p)
        extra[i] = {'h': hs, 's': sg}
        recs.append({'prog': jitems(p), 'env': env_spec(e, hs, sg), 'obs': {'ok': obs[i][0], 'stack': [blist(x) for x in obs[i][1]]}})
    verdicts = common.tlc_eval('ScriptVMEval', recs, timeout=3000)
    # supply missing facts and re-evaluate (fixpoint)
    for _round in range(12):
        todo = [i for i, v in enumerate(verdicts) if v['v'] == 'need']
        if not todo:
            break
        for i in todo:
            nd = verdicts[i]['need']
            a, b = bytes(nd['a']), bytes(nd['b'])
            if nd['kind'] == 'hash':
                extra[i]['h'][(nd['name'], a)] = hash_fact(nd['name'], a)
            elif nd['kind'] == 'sig':
                extra[i]['s'][(a, b)] = sig_class(a, b)
            else:
                raise common.MachineryError('multisig fact missing for program %r' % (progs[i][0],))
            recs[i]['env'] = env_spec(progs[i][1], extra[i]['h'], extra[i]['s'])
        res = common.tlc_eval('ScriptVMEval', [recs[i] for i in todo], timeout=3000)
        for i, v in zip(todo, res):
            verdicts[i] = v
    if any(v['v'] == 'need' for v in verdicts):
        raise common.MachineryError('oracle facts did not converge')
    opname = {v: k for k, v in OPS.items()}

    def show(p):
        return ' '.join(opname.get(c, str(c)) if isinstance(c, int) else c.hex() for c in p)
    ndev = {}
    for i, o in enumerate(obs):
        if o[2] is not None:
            ck.violation(None, 'clause second-evaluation-differs; program [%s]: first evaluation %s stack %s, second evaluation of the same '
                         'Script object %s stack %s' % (show(progs[i][0]), 'VALID' if o[0] else 'invalid', [x.hex() for x in o[1]],
                                                        'VALID' if o[2][0] else 'invalid', o[2][1]),
                         {'prog': [{'t': 'op', 'c': c} if isinstance(c, int) else {'t': 'data', 'd': c.hex()} for c in progs[i][0]],
                          'env': {k: (x.hex() if isinstance(x, bytes) else x) for k, x in progs[i][1].items()}})
    for (p, e, klass, _), o, v in zip(progs, obs, verdicts):
        ck.case(klass)
        if v['v'] == 'ok':
            continue
        case = {'prog': [{'t': 'op', 'c': c} if isinstance(c, int) else {'t': 'data', 'd': c.hex()} for c in p],
                'env': {k: (x.hex() if isinstance(x, bytes) else x) for k, x in e.items()}}
        text = 'program [%s] env %s: bitcoinlib %s stack %s; consensus %s stack %s' % (
            show(p), {k: (x.hex() if isinstance(x, bytes) else x) for k, x in e.items()},
            'VALID' if o[0] else 'invalid', [x.hex() for x in o[1]],
            'VALID' if v['exp_ok'] else 'invalid', [bytes(x).hex() for x in v['exp_stack']])
        sets = sorted(sorted(s) for s in v['devs'])
        if not sets:
            ck.violation(None, 'clause unexplained-%s; %s' % (klass[0], text), case)
            continue
        # attributed iff some minimal explaining set consists of listed deviations only
        best = next((s for s in sets if all(d in ck.known for d in s)), sets[0])
        for d in best:
            ndev[d] = ndev.get(d, 0) + 1
            ck.violation(d, 'clause %s; %s' % (d, text), case)
    ck.traces = len(progs)
    ck.notes['programs'] = len(progs)
    ck.notes['accepted_by_lib_rejected_by_consensus'] = sum(1 for o, v in zip(obs, verdicts) if v['v'] != 'ok' and o[0] and not v['exp_ok'])
    ck.notes['deviation_counts'] = ndev
    for i in (0, len(progs) // 3, len(progs) // 2, len(progs) - 1):
        ck.sample({'program': show(progs[i][0]), 'lib': [obs[i][0], [x.hex() for x in obs[i][1]]],
                   'spec': [verdicts[i]['exp_ok'], [bytes(x).hex() for x in verdicts[i]['exp_stack']]]})
    return ck.finish()
