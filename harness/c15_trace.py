"""C15 helper: ONE process = one history of key-generation requests (freshness is a statement about repeated calls
within one process, so every history runs in a freshly started interpreter).

usage: python -m harness.c15_trace '<json job>'      prints one JSON object {"events": [...], "desc": [...]}
job = {"calls": [[op, arg-or-null], ...], "passphrase": str, "network": str}
ops:  intermediate / intermediate-lot (bip38_intermediate_password, owner_salt argument or its default)
      new (bip38_create_new_encrypted_wif, seed argument or its default)      key (Key())      hdkey (HDKey())
The library's os.urandom / random sources are left untouched; only results are observed.
"""
import json
import os
import sys

sys.path.insert(0, os.path.dirname(os.path.dirname(os.path.abspath(__file__))))


def run_env(job):
    """Replay one behaviour of spec/Bip38Env.tla: the environment's actions on the ambient pseudo-random generators (random,
    numpy.random) interleaved with generation requests; returns what every request handed out."""
    import random
    from bitcoinlib.keys import Key, HDKey, bip38_intermediate_password, bip38_create_new_encrypted_wif
    try:
        import numpy
    except Exception:       # numpy is optional
        numpy = None
    pw, net, comp = job['passphrase'], job['network'], bool(job.get('compressed', True))
    acts = job['env']
    inter0 = None
    if any(a in ('new', 'forknew', 'newx') for a in acts):      # entropy supplied: nothing is drawn here
        inter0 = bip38_intermediate_password(pw, owner_salt=bytes(range(1, 9)))

    def codes(s):
        return [ord(c) for c in s]

    def request(a):
        ev = {'op': {'inter': 'intermediate', 'interlot': 'intermediate-lot', 'new': 'new', 'forknew': 'new', 'newx': 'new'}.get(a, a),
              'explicit': a == 'newx', 'arg': list(bytes.fromhex(job['supplied'])) if a == 'newx' else [], 'out': [], 'code': [],
              'outs': [], 'desc': a}
        try:
            if a in ('inter', 'interlot'):
                code = bip38_intermediate_password(pw, **({'lot': 123456, 'sequence': 7} if a == 'interlot' else {}))
                ev['code'] = codes(code)
                ev['outs'] = [codes(code)]
                ev['desc'] += ' -> ' + code
            elif a in ('new', 'forknew', 'newx'):
                kw = {'seed': bytes.fromhex(job['supplied'])} if a == 'newx' else {}
                r = bip38_create_new_encrypted_wif(inter0, compressed=comp, network=net, **kw)
                seed = r['seed'] if isinstance(r['seed'], (bytes, bytearray)) else bytes.fromhex(r['seed'])
                ev['out'] = list(seed)
                ev['outs'] = [codes(r['encrypted_wif']), codes(r['address']), codes(r['confirmation_code'])]
                ev['desc'] += ' -> %s / %s' % (r['encrypted_wif'], r['address'])
            elif a == 'key':
                k = Key(network=net)
                ev['out'] = list(k.private_byte)
                ev['outs'] = [list(k.private_byte)]
                ev['desc'] += ' -> key %s..' % k.private_byte.hex()[:8]
            elif a == 'hdkey':
                k = HDKey(network=net)
                ev['out'] = list(k.private_byte + k.chain)
                ev['outs'] = [list(k.private_byte)]
                ev['desc'] += ' -> key %s..' % k.private_byte.hex()[:8]
            else:
                raise ValueError(a)
        except Exception as e:
            ev['refused'] = '%s: %s' % (type(e).__name__, str(e)[:120])
            ev['desc'] += ' RAISED ' + ev['refused']
        return ev

    saved = None
    events, desc = [], []
    for a in acts:
        if a in ('seed1', 'seed2'):
            random.seed(job['seeds'][a])
            if numpy:
                numpy.random.seed(job['seeds'][a] % (1 << 32))
            desc.append('random.seed(%d)' % job['seeds'][a])
        elif a == 'save':
            saved = (random.getstate(), numpy.random.get_state() if numpy else None)
            desc.append('getstate')
        elif a == 'restore':
            random.setstate(saved[0])
            if numpy:
                numpy.random.set_state(saved[1])
            desc.append('setstate')
        elif a == 'forknew':        # the request runs in a forked child, which inherits the ambient state
            rfd, wfd = os.pipe()
            pid = os.fork()
            if pid == 0:
                try:
                    os.close(rfd)
                    os.write(wfd, json.dumps(request(a)).encode())
                finally:
                    os._exit(0)
            os.close(wfd)
            data = b''
            while True:
                chunk = os.read(rfd, 65536)
                if not chunk:
                    break
                data += chunk
            os.close(rfd)
            os.waitpid(pid, 0)
            ev = json.loads(data.decode()) if data else {'refused': 'forked child returned nothing', 'desc': a + ' RAISED'}
            events.append(ev)
            desc.append('[fork] ' + ev['desc'])
        else:
            ev = request(a)
            events.append(ev)
            desc.append(ev['desc'])
    sys.stdout.write(json.dumps({'events': events, 'desc': desc, 'news': []}))


def run_hist(job):
    """One history of calls of spec/Bip38Hist.tla in this (fresh) process - or the set-up of the tokens the histories use.
    Every call is observed exactly as in the single-call scenarios of harness/c15.py."""
    from harness import c15
    from bitcoinlib.keys import bip38_intermediate_password
    if 'setup' in job:
        out = {}
        for name, j in job['setup'].items():
            out[name] = c15.drive_ec(dict(j, decs=[])) if j['kind'] == 'ec' else c15.drive_nonec(dict(j, decs=[], tok=None, enc_route='Key'))
        sys.stdout.write(json.dumps({'events': out}))
        return
    res = []
    for call in job['hist']:
        if call['c'] == 'dec':
            res.append(c15._obs_dec(call['route'], call['tok'], c15.PY(call['pw']), call['net']))
        elif call['c'] == 'enc':
            res.append(c15.drive_nonec(dict(call, decs=[], tok=None, enc_route='Key'))['enc'])
        elif call['c'] == 'inter':
            try:
                code = bip38_intermediate_password(c15.PY(call['pw']), lot=call['lot'], sequence=call['seq'], owner_salt=bytes.fromhex(call['salt']))
                res.append({'ok': True, 'code': code})
            except Exception as e:
                res.append({'ok': False, 'code': '', 'note': '%s: %s' % (type(e).__name__, str(e)[:120])})
        else:
            raise ValueError(call['c'])
    sys.stdout.write(json.dumps({'events': res}))


def main():
    job = json.loads(sys.argv[1])
    from harness import common
    common.fresh_bitcoinlib_env()
    if 'env' in job:
        return run_env(job)
    if 'hist' in job or 'setup' in job:
        return run_hist(job)
    from bitcoinlib.keys import Key, HDKey, bip38_intermediate_password, bip38_create_new_encrypted_wif
    pw = job['passphrase']
    net = job['network']
    events, desc, news = [], [], []
    inter_for_new = None
    for op, arg in job['calls']:
        ev = {'op': op, 'explicit': arg is not None, 'arg': list(bytes.fromhex(arg)) if arg else [], 'out': [], 'code': []}
        d = '%s(%s)' % (op, 'entropy=' + arg if arg else 'default entropy')
        try:
            if op in ('intermediate', 'intermediate-lot'):
                kw = {'lot': 123456, 'sequence': 7} if op == 'intermediate-lot' else {}
                if arg:
                    kw['owner_salt'] = bytes.fromhex(arg)
                code = bip38_intermediate_password(pw, **kw)
                ev['code'] = [ord(c) for c in code]
                if inter_for_new is None:
                    inter_for_new = code
                d += ' -> ' + code
            elif op == 'new':
                if inter_for_new is None:
                    inter_for_new = bip38_intermediate_password(pw, owner_salt=bytes(range(8)))
                kw = {'seed': bytes.fromhex(arg)} if arg else {}
                comp = bool(job.get('compressed', True))
                r = bip38_create_new_encrypted_wif(inter_for_new, compressed=comp, network=net, **kw)
                seed = r['seed'] if isinstance(r['seed'], (bytes, bytearray)) else bytes.fromhex(r['seed'])
                ev['out'] = list(seed)
                news.append({'inter': inter_for_new, 'comp': comp, 'seed': seed.hex(), 'net': net,
                             'got': {'ok': True, 'tok': r['encrypted_wif'], 'conf': r['confirmation_code'],
                                     'pub': r['public_key'], 'addr': r['address']}})
                d += ' -> ' + r['encrypted_wif']
            elif op == 'key':
                k = Key(network=net)
                ev['out'] = list(k.private_byte)
                d += ' -> key ' + k.private_byte.hex()[:8] + '...'
            elif op == 'hdkey':
                k = HDKey(network=net)
                ev['out'] = list(k.private_byte + k.chain)
                d += ' -> key ' + k.private_byte.hex()[:8] + '...'
            else:
                raise ValueError(op)
        except Exception as e:      # a refused request draws nothing: reported, not judged by the ledger
            d += ' RAISED %s' % type(e).__name__
            desc.append(d)
            continue
        events.append(ev)
        desc.append(d)
    sys.stdout.write(json.dumps({'events': events, 'desc': desc, 'news': news}))


if __name__ == '__main__':
    main()
