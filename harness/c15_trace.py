"""C15 helper: ONE process = one history of key-generation requests (freshness is a statement about repeated calls
within one process, so every history runs in a freshly started interpreter).

usage: python -m harness.c15_trace '<json job>'      prints one JSON object {"events": [...], "desc": [...]}
job = {"calls": [[op, arg-or-null], ...], "passphrase": str, "network": str}
ops:  intermediate / intermediate-lot (bip38_intermediate_password, owner_salt argument or its default)
      new (bip38_create_new_encrypted_wif, seed argument or its default)      key (Key())      hdkey (HDKey())
The library's os.urandom / random sources are left untouched; only results are observed.
"""
import json
import os
import sys

sys.path.insert(0, os.path.dirname(os.path.dirname(os.path.abspath(__file__))))


def main():
    job = json.loads(sys.argv[1])
    from harness import common
    common.fresh_bitcoinlib_env()
    from bitcoinlib.keys import Key, HDKey, bip38_intermediate_password, bip38_create_new_encrypted_wif
    pw = job['passphrase']
    net = job['network']
    events, desc, news = [], [], []
    inter_for_new = None
    for op, arg in job['calls']:
        ev = {'op': op, 'explicit': arg is not None, 'arg': list(bytes.fromhex(arg)) if arg else [], 'out': [], 'code': []}
        d = '%s(%s)' % (op, 'entropy=' + arg if arg else 'default entropy')
        try:
            if op in ('intermediate', 'intermediate-lot'):
                kw = {'lot': 123456, 'sequence': 7} if op == 'intermediate-lot' else {}
                if arg:
                    kw['owner_salt'] = bytes.fromhex(arg)
                code = bip38_intermediate_password(pw, **kw)
                ev['code'] = [ord(c) for c in code]
                if inter_for_new is None:
                    inter_for_new = code
                d += ' -> ' + code
            elif op == 'new':
                if inter_for_new is None:
                    inter_for_new = bip38_intermediate_password(pw, owner_salt=bytes(range(8)))
                kw = {'seed': bytes.fromhex(arg)} if arg else {}
                comp = bool(job.get('compressed', True))
                r = bip38_create_new_encrypted_wif(inter_for_new, compressed=comp, network=net, **kw)
                seed = r['seed'] if isinstance(r['seed'], (bytes, bytearray)) else bytes.fromhex(r['seed'])
                ev['out'] = list(seed)
                news.append({'inter': inter_for_new, 'comp': comp, 'seed': seed.hex(), 'net': net,
                             'got': {'ok': True, 'tok': r['encrypted_wif'], 'conf': r['confirmation_code'],
                                     'pub': r['public_key'], 'addr': r['address']}})
                d += ' -> ' + r['encrypted_wif']
            elif op == 'key':
                k = Key(network=net)
                ev['out'] = list(k.private_byte)
                d += ' -> key ' + k.private_byte.hex()[:8] + '...'
            elif op == 'hdkey':
                k = HDKey(network=net)
                ev['out'] = list(k.private_byte + k.chain)
                d += ' -> key ' + k.private_byte.hex()[:8] + '...'
            else:
                raise ValueError(op)
        except Exception as e:      # a refused request draws nothing: reported, not judged by the ledger
            d += ' RAISED %s' % type(e).__name__
            desc.append(d)
            continue
        events.append(ev)
        desc.append(d)
    sys.stdout.write(json.dumps({'events': events, 'desc': desc, 'news': news}))


if __name__ == '__main__':
    main()
