"""Wallet histories fed by the real service layer (Wallet <-> Service <-> scripted provider), for C08.

The chain is scripted in the worker: funding transactions paying wallet addresses, transactions of somebody else spending
wallet outputs (the same seed restored elsewhere), the wallet's own transactions once "mined".  The wallet learns about it
only through Wallet.transactions_update() -> Service.gettransactions() -> the fake provider (harness/vfake.py), with the
service cache in between.  What Service.gettransactions returned to the wallet during a call is recorded (wrapper around
the method in this process, no repository hook) and becomes the `rep` of a `txs_update` event; TLC folds
WalletLedger!TxsUpdate over it and the usual observations (balance = sum of unspent outputs = sum of key balances, live and
reopened) are judged after every event.  Events have the format of harness/walletdrv.py."""
import hashlib
import json
import logging
import os
import random
import tempfile

from harness import common
from harness.walletdrv import txnum, observe, keys_snapshot

NET = 'testnet'


def _providers_json():
    provs = {'p1': {"provider": "vfake", "network": NET, "client_class": "FakeClient", "provider_coin_id": "", "url": "fake://p1",
                    "api_key": "", "priority": 10, "denominator": 100000000, "network_overrides": None, "timeout": 0}}
    with open(os.path.join(os.environ['BCL_DATA_DIR'], 'providers.json'), 'w') as f:
        json.dump(provs, f)


def service_history(job):
    """Worker: one wallet on the scripted chain, one seeded history."""
    logging.disable(logging.CRITICAL)
    from datetime import datetime, timezone
    import bitcoinlib.services
    from harness import vfake
    bitcoinlib.services.vfake = vfake
    _providers_json()
    from bitcoinlib.wallets import Wallet, WalletError
    from bitcoinlib.keys import HDKey, Key
    from bitcoinlib.transactions import Transaction, TransactionError, Input, Output
    from bitcoinlib.services.services import Service, ServiceError
    seed, kind, nops = job
    import random as _random
    import numpy as _numpy
    _random.seed(seed)
    _numpy.random.seed(seed % 2 ** 32)
    # (see walletdrv: the service layer's provider shuffling gets a generator of its own)
    import bitcoinlib.services.services as _services
    _services.random = random.Random(seed)
    scheme, wt = kind
    rng = random.Random(seed)
    d = tempfile.mkdtemp(prefix='ws_', dir=os.environ['BCL_DATA_DIR'])
    db_uri = 'sqlite:///' + os.path.join(d, 'wallet.sqlite')
    cache_uri = 'sqlite:///' + os.path.join(d, 'cache.sqlite')
    name = 'ws%d' % seed
    try:
        if scheme == 'single':
            w = Wallet.create(name, keys=HDKey(network=NET).private_hex, network=NET, witness_type=wt, scheme='single', db_uri=db_uri,
                              db_cache_uri=cache_uri)
        else:
            w = Wallet.create(name, network=NET, witness_type=wt, db_uri=db_uri, db_cache_uri=cache_uri)
    except Exception as e:
        return {'seed': seed, 'kind': kind, 'events': [], 'desc': [], 'setup_error': repr(e), 'reload': []}
    single = scheme == 'single'
    # addresses the wallet has not created yet (a second wallet from the same master key in another database derives them):
    # payments to them are found only by scan()
    ahead = []
    GAP = 4
    if not single:
        try:
            sh = Wallet.create(name + '_shadow', keys=w.wif(is_private=True), network=NET, witness_type=wt,
                               db_uri='sqlite:///' + os.path.join(d, 'shadow.sqlite'))
            ahead = [k.address for k in sh.get_keys(number_of_keys=14)]
            sh.session.close()
        except Exception as e:
            return {'seed': seed, 'kind': kind, 'events': [], 'desc': [], 'setup_error': 'shadow wallet: %r' % e, 'reload': []}
    paid_ahead = [-1]      # highest index of `ahead` that was paid
    table = {}
    events, desc = [], []
    height = [700000]
    chain = []          # confirmed transactions, oldest first: Transaction objects with block_height
    mempool = []        # transactions the wallet has broadcast, not yet in a block
    values = {}         # (txid, n) -> value, address of every output on the chain / in the mempool
    told = []           # transactions Service.gettransactions returned to the wallet during the current call
    ext = [Key(800001 + i, network=NET) for i in range(4)]
    fake = [0]

    def ext_address(i=0):
        return ext[i % len(ext)].address(script_type='p2wpkh' if wt == 'segwit' else 'p2pkh', encoding='bech32' if wt == 'segwit' else 'base58')

    def stamp(t, h):
        t.block_height = h
        t.status = 'confirmed'
        t.date = datetime.fromtimestamp(1600000000 + h * 600, timezone.utc)
        t.update_totals()
        t.size = len(t.raw())
        t.calc_weight_units()

    def as_answer(t):
        t.confirmations = height[0] - t.block_height + 1
        return t

    def fund(pay):
        """A transaction of somebody else paying wallet addresses: pay = [(address, value), ...]"""
        fake[0] += 1
        k = ext[fake[0] % len(ext)]
        t = Transaction(network=NET, witness_type='segwit' if wt != 'legacy' else 'legacy')
        t.add_input(prev_txid=hashlib.sha256(b'ext-%d-%d' % (seed, fake[0])).digest(), output_n=fake[0] % 3, keys=k,
                    value=sum(v for _, v in pay) + 1000, witness_type='segwit' if wt != 'legacy' else 'legacy')
        for a, v in pay:
            t.add_output(v, a)
        t.sign_and_update()
        return t

    def spend_elsewhere(coins):
        """The same keys used elsewhere: a transaction spending wallet outputs (txid, n) to an outside address."""
        t = Transaction(network=NET, witness_type='segwit' if wt != 'legacy' else 'legacy')
        tot = 0
        for txid, n in coins:
            v, a = values[(txid, n)]
            tot += v
            t.add_input(prev_txid=txid, output_n=n, address=a, value=v, witness_type=wt, sequence=0xffffffff)
        t.add_output(max(tot - 1500, 600), ext_address(1))
        t.txid = t.signature_hash()[::-1].hex() if False else hashlib.sha256(t.raw()).hexdigest()
        return t

    def confirm(t):
        height[0] += 1
        stamp(t, height[0])
        chain.append(t)
        for o in t.outputs:
            values[(t.txid, o.output_n)] = (int(o.value), o.address)

    # ---- the provider
    V = vfake.VALUES
    vfake.SCRIPT.clear()

    def p_gettransactions(address, after_txid='', limit=20):
        l = [t for t in chain if any(o.address == address for o in t.outputs) or any(i.address == address for i in t.inputs)]
        ids = [t.txid for t in l]
        if after_txid and after_txid in ids:
            l = l[ids.index(after_txid) + 1:]
        return [as_answer(t) for t in l[:limit]]

    def p_getutxos(address, after_txid='', limit=20):
        spent = {(i.prev_txid.hex(), i.output_n_int) for t in chain for i in t.inputs}
        res = []
        for t in chain:
            for o in t.outputs:
                if o.address == address and (t.txid, o.output_n) not in spent:
                    res.append({'address': address, 'txid': t.txid, 'confirmations': height[0] - t.block_height + 1, 'output_n': o.output_n,
                                'input_n': 0, 'block_height': t.block_height, 'fee': t.fee, 'size': t.size, 'value': int(o.value),
                                'script': '', 'date': t.date})
        ids = [u['txid'] for u in res]
        if after_txid and after_txid in ids:
            res = res[len(ids) - ids[::-1].index(after_txid):]
        return res[:limit]

    def p_send(rawtx):
        t = Transaction.parse_hex(rawtx, network=NET, strict=False)
        for i in t.inputs:
            v, a = values.get((i.prev_txid.hex(), i.output_n_int), (0, ''))
            i.value = v
            if not i.address:
                i.address = a
        mempool.append(t)
        for o in t.outputs:
            values[(t.txid, o.output_n)] = (int(o.value), o.address)
        return {'txid': t.txid, 'response_dict': {}}

    def p_gettransaction(txid):
        for t in chain:
            if t.txid == txid:
                return as_answer(t)
        for t in mempool:
            if t.txid == txid:
                t.confirmations = 0
                return t
        return False
    V[('p1', 'gettransactions')] = p_gettransactions
    V[('p1', 'getutxos')] = p_getutxos
    V[('p1', 'sendrawtransaction')] = p_send
    V[('p1', 'gettransaction')] = p_gettransaction
    V[('p1', 'getrawtransaction')] = lambda txid: p_gettransaction(txid).raw_hex()
    V[('p1', 'blockcount')] = lambda: height[0]
    V[('p1', 'estimatefee')] = lambda blocks: 20000
    V[('p1', 'getbalance')] = lambda addresslist: sum(u['value'] for a in addresslist for u in p_getutxos(a))
    V[('p1', 'isspent')] = lambda txid, n: 1 if any((i.prev_txid.hex(), i.output_n_int) == (txid, n) for t in chain for i in t.inputs) else 0
    V[('p1', 'mempool')] = lambda txid='': [t.txid for t in mempool]
    V[('p1', 'getinfo')] = lambda: {'blockcount': height[0], 'chain': 'test', 'difficulty': 1, 'hashrate': 1, 'mempool_size': len(mempool)}

    # what the service layer hands to the wallet (provider answers and cache answers alike)
    orig_gettransactions = Service.gettransactions

    def logged_gettransactions(self, address, after_txid='', limit=20):
        r = orig_gettransactions(self, address, after_txid, limit)
        if r:
            told.extend(r)
        return r
    Service.gettransactions = logged_gettransactions

    def time_passes():
        # more than the 60 s for which the service layer remembers the block count go by between two wallet operations
        import sqlite3
        f = cache_uri[len('sqlite:///'):]
        if os.path.exists(f):
            con = sqlite3.connect(f)
            try:
                con.execute("DELETE FROM cache_variables WHERE varname = 'blockcount'")
                con.commit()
            except sqlite3.Error:
                pass
            con.close()

    def own_keys():
        return [k for k in w.keys(depth=w.key_depth) if k.address]

    def record(ev, text):
        nonlocal w
        ev['keys'] = keys_snapshot(w, single)
        try:
            ev['live'], ev['fresh'] = observe(w, table, name, db_uri)
        except Exception as e:
            ev['live'] = ev['fresh'] = {'balance': -1, 'utxos': [], 'keybal': [], 'wkbal': [], 'acct': 0, 'accts': []}
            text += ' [observation raised %r]' % e
        events.append(ev)
        desc.append(text)

    def project(t, addr2key):
        ins = [[txnum(table, i.prev_txid.hex()), i.output_n_int] for i in t.inputs]
        outs = [[o.output_n, int(o.value), addr2key[o.address]] for o in t.outputs if o.address in addr2key]
        return [txnum(table, t.txid), int(t.confirmations or 0), ins, outs]

    # some histories follow a scenario: the wallet spends the change of its own transaction before it has been told that the
    # transaction was mined, then updates (the provider knows nothing of the unconfirmed spend)
    plan = []
    if rng.random() < 0.35:
        plan = ['key', 'pay', 'update', 'send', 'mine', 'send0', 'update', 'send0', 'update']
    forced = [None]
    try:
        for step in range(nops):
            r = rng.random()
            forced[0] = plan[step] if step < len(plan) else None
            r = {'key': 0.0, 'pay': 0.2, 'mine': 0.2, 'update': 0.5, 'send': 0.8, 'send0': 0.8}.get(forced[0], r)
            keys = own_keys()
            if step == 0 or r < 0.08:
                k = w.get_key() if single else rng.choice([w.new_key, w.get_key])()
                record({'op': 'key'}, 'key %d' % k.key_id)
            elif r < 0.36 and keys:
                # the chain moves: payments to the wallet, spends made elsewhere, the wallet's broadcast transactions get mined
                what = []
                if forced[0] == 'mine':
                    while mempool:
                        confirm(mempool.pop(0))
                        what.append('own transaction mined')
                elif rng.random() < 0.8 or forced[0] == 'pay':
                    pay = [(rng.choice(keys).address, rng.choice([20000, 150000, 1000000, 3000000])) for _ in range(rng.choice([1, 1, 2]))]
                    if ahead and rng.random() < 0.35:
                        # within the gap limit of the highest address paid so far
                        i = rng.randrange(max(0, paid_ahead[0] - 1), min(len(ahead), paid_ahead[0] + GAP))
                        pay = [(ahead[i], rng.choice([30000, 250000]))]
                        paid_ahead[0] = max(paid_ahead[0], i)
                        what.append('to receiving address number %d' % i)
                    if len({a for a, _ in pay}) == len(pay):
                        confirm(fund(pay))
                        what.append('payment %s' % [(a[:8], v) for a, v in pay])
                unspent = [(t.txid, o.output_n) for t in chain for o in t.outputs if o.address in {k.address for k in keys}
                           and (t.txid, o.output_n) not in {(i.prev_txid.hex(), i.output_n_int) for x in chain + mempool for i in x.inputs}]
                if unspent and rng.random() < 0.3 and not forced[0]:
                    coins = rng.sample(unspent, min(len(unspent), rng.choice([1, 1, 2])))
                    confirm(spend_elsewhere(coins))
                    what.append('spent elsewhere: %s' % ['tx%d:%d' % (txnum(table, a), b) for a, b in coins])
                while mempool and rng.random() < 0.7:
                    confirm(mempool.pop(0))
                    what.append('own transaction mined')
                desc.append('(chain: %s; height %d)' % ('; '.join(what) or 'new block', height[0]))
                events.append(dict(events[-1], op='observe')) if events else None
            elif r < 0.62:
                prov = 'ok' if rng.random() < 0.8 or forced[0] else 'fail'
                vfake.SCRIPT['p1'] = 'ok' if prov == 'ok' else 'raise'
                del told[:]
                err = None
                time_passes()
                try:
                    w.transactions_update()
                except (WalletError, ServiceError) as e:
                    err = repr(e)[:100]
                vfake.SCRIPT['p1'] = 'ok'
                addr2key = {k.address: k.id for k in own_keys()}
                seen = {}
                for t in told:
                    seen[t.txid] = t
                rep = [project(t, addr2key) for t in seen.values()]
                confs = [[txnum(table, t.txid), height[0] - t.block_height + 1] for t in chain]
                record({'op': 'txs_update', 'rep': rep, 'prov': prov, 'confs': confs},
                       'transactions_update() provider %s%s: told %s' % (prov, (' -> ' + err) if err else '',
                                                                         [[x[0], x[1], ['tx%d:%d' % tuple(i) for i in x[2]], x[3]] for x in rep]))
            elif r < 0.70 and ahead and not forced[0]:
                # scan(): keys are created until GAP consecutive ones have no transactions
                vfake.SCRIPT['p1'] = 'ok'
                del told[:]
                time_passes()
                err = None
                try:
                    w.scan(scan_gap_limit=GAP)
                except (WalletError, ServiceError) as e:
                    err = repr(e)[:100]
                addr2key = {k.address: k.id for k in w.keys() if k.address}
                seen = {}
                for t in told:
                    seen[t.txid] = t
                rep = [project(t, addr2key) for t in seen.values()]
                confs = [[txnum(table, t.txid), height[0] - t.block_height + 1] for t in chain]
                ev = {'op': 'txs_update', 'rep': rep, 'prov': 'ok', 'confs': confs}
                record(ev, 'scan(scan_gap_limit=%d)%s: told %s' % (GAP, (' -> ' + err) if err else '',
                                                                   [[x[0], x[1], ['tx%d:%d' % tuple(i) for i in x[2]], x[3]] for x in rep]))
                # everything paid to an address of this wallet within the gap limit has been found (chain truth, default account)
                mine = set(ahead) | {k.address for k in w.keys() if k.address}
                spent = {(i.prev_txid.hex(), i.output_n_int) for t in chain + mempool for i in t.inputs}
                truth = sum(int(o.value) for t in chain + mempool for o in t.outputs if o.address in mine and (t.txid, o.output_n) not in spent)
                ev['scan_truth'] = truth
            elif r < 0.93 and keys:
                spendable = w.utxos()
                total = sum(u['value'] for u in spendable)
                amount = rng.choice([600, 20000, max(1000, total // 2), max(1000, total - 5000)])
                to = ext_address(rng.randrange(4)) if rng.random() < 0.8 else rng.choice(keys).address
                fee = rng.choice([None, 2000, 5000])
                minconf = rng.choice([0, 1, 1, 3])
                if forced[0] in ('send', 'send0'):
                    amount, minconf = rng.choice([20000, max(1000, total // 2)]), 0 if forced[0] == 'send0' else 1
                    to = ext_address(rng.randrange(4))
                q = {'fee': fee if isinstance(fee, int) else -1, 'minconf': minconf, 'inkeys': [], 'sweep': False, 'explicit': [], 'above': -1,
                     'acct': 0, 'feemin': 0, 'feemax': 0, 'recips': [[0, int(amount)]]}
                ev = {'op': 'tx', 'q': q, 'created': False, 'stored': False, 'tnum': 0, 'kind': 'send_to', 'x': {'ins': [], 'outs': [], 'fee': 0, 'vsize': 0}}
                text = 'send_to(%s, %d, fee=%r, min_confirms=%d, broadcast=True)' % (to[:8], amount, fee, minconf)
                time_passes()
                try:
                    t = w.send_to(to, amount, fee=fee, min_confirms=minconf, broadcast=True)
                    addr2key = {k.address: k.id for k in w.keys() if k.address}
                    ins = [[txnum(table, i.prev_txid.hex()), i.output_n_int, int(i.value)] for i in t.inputs]
                    outs = []
                    paid = False
                    for o in t.outputs:
                        rid = 1 if (not paid and o.address == to and o.value == amount) else 0
                        paid = paid or rid == 1
                        outs.append([int(o.value), addr2key.get(o.address, 0), rid])
                    ev['created'] = True
                    ev['x'] = {'ins': ins, 'outs': outs, 'fee': int(t.fee), 'vsize': 0}
                    if t.pushed:
                        ev['stored'] = True
                        ev['tnum'] = txnum(table, t.txid)
                    text += ' -> inputs %s outputs %s fee %s%s' % (ins, outs, t.fee, ' PUSHED' if t.pushed else ' not pushed: %s' % t.error)
                except (WalletError, TransactionError, ServiceError) as e:
                    text += ' -> refused: %r' % e
                record(ev, text)
            else:
                try:
                    w.session.close()
                except Exception:
                    pass
                w = Wallet(name, db_uri=db_uri, db_cache_uri=cache_uri)
                record({'op': 'reopen'}, 'close + reopen')
    except Exception as e:
        import traceback
        desc.append('DRIVER/LIBRARY EXCEPTION: %r %s' % (e, traceback.format_exc()[-400:]))
    finally:
        Service.gettransactions = orig_gettransactions
    events = [e for e in events if e is not None]
    return {'seed': seed, 'kind': kind, 'events': events, 'desc': [x for x in desc], 'reload': [], 'setup_error': None}


KINDS = [('hd', 'segwit'), ('hd', 'legacy'), ('single', 'segwit'), ('hd', 'p2sh-segwit')]


def collect(nhist, nops=(8, 16)):
    base = common.seed() % 1000000 + 500000
    jobs = [(base + i, KINDS[i % len(KINDS)], nops[0] + i % (nops[1] - nops[0])) for i in range(nhist)]
    traces = common.pmap(service_history, jobs, chunksize=2)
    verdicts = common.tlc_eval('WalletLedgerEval', [{'events': t['events']} for t in traces], timeout=3000)
    return jobs, traces, verdicts
