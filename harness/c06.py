"""C06 - transaction / block serialization against spec/TxFormat.tla.

(M) MC_TxFormat: all small well-formed transactions; parse(serialize(t)) = t for both forms, stripped form ignores
    witnesses, extended form iff witness, truncation rejected, block layout, target of the genesis bits.
(G) structural shapes (counts across CompactSize boundaries, empty / one-byte scripts and witness items, coinbase,
    non-standard scripts, extreme version/locktime/sequence/value): TLC serializes the fields; bitcoinlib must parse the
    bytes to the same fields, re-serialize them identically and report txid = sha256d(stripped form).  Blocks likewise
    through both of the library's block transaction readers.
(V) transactions built and signed through the API: TLC is the independent parser of their raw().
"""
import io
import logging

from harness import common, ref
from harness.common import Check, blist, tier
from harness.c19 import der_sig

PID = 'C06'
DEV = 'single-zero-byte-item'


def le(n, w):
    return n.to_bytes(w, 'little')


def jtx(tx):
    return {'version': blist(tx['version']), 'segwit': tx['segwit'], 'locktime': blist(tx['locktime']),
            'ins': [{'txid': blist(i['txid']), 'vout': blist(i['vout']), 'script': blist(i['script']), 'seq': blist(i['seq']),
                     'wit': [blist(w) for w in i['wit']]} for i in tx['ins']],
            'outs': [{'value': blist(o['value']), 'script': blist(o['script'])} for o in tx['outs']]}


def push(d):
    n = len(d)
    if n <= 75:
        return bytes([n]) + d
    if n <= 255:
        return b'\x4c' + bytes([n]) + d
    return b'\x4d' + le(n, 2) + d


def gen_shapes(ck, thorough):
    rng = ck.rng
    keys = [(k, ref.pubkey(k)) for k in (0x5151, 0x6161, 0x7171)]
    sigs = [der_sig(k, ref.sha256(b'c06 %d' % n)) for n, (k, _) in enumerate(keys)]
    h20 = ref.hash160(keys[0][1])
    h32 = ref.sha256(keys[1][1])
    redeem = bytes([0x52]) + b''.join(push(p) for _, p in keys) + bytes([0x53, 0xae])

    def rnd(n):
        return bytes(rng.randrange(256) for _ in range(n))
    # witness / redeem scripts that spend with several signatures but are not a plain "m <keys> n CHECKMULTISIG":
    # a timelocked multisig (<144> CSV DROP ...), one under IF, one behind a data push, a 3-of-3 and a 1-of-3
    csv_ms = b'\x02\x90\x00\xb2\x75' + redeem
    if_ms = b'\x63' + redeem + b'\x67' + push(keys[0][1]) + b'\xac\x68'
    data_ms = push(b'\x01\x02\x03\x04') + b'\x75' + redeem
    ms33 = bytes([0x53]) + b''.join(push(p) for _, p in keys) + bytes([0x53, 0xae])
    ms13 = bytes([0x51]) + b''.join(push(p) for _, p in keys) + bytes([0x53, 0xae])
    in_scripts = {
        'empty': b'', 'zero': b'\x00', 'op1': b'\x51', 'p2pkh': push(sigs[0]) + push(keys[0][1]), 'p2pk': push(sigs[1]),
        'p2sh-multisig': b'\x00' + push(sigs[0]) + push(sigs[1]) + push(redeem), 'p2sh-p2wpkh': push(b'\x00\x14' + h20),
        'p2sh-p2wsh': push(b'\x00\x20' + ref.sha256(redeem)),
        'data75': push(rnd(74)), 'len252': push(rnd(250)), 'len253': push(rnd(251)), 'nonstd': bytes([0x6a]) + push(rnd(9)),
        'ops': bytes([0x51, 0x52, 0x93, 0x53, 0x87]),
        'p2pkh-single': push(sigs[0][:-1] + b'\x03') + push(keys[0][1]), 'p2pk-acp': push(sigs[1][:-1] + b'\x81'),
        # signature and key pushed with OP_PUSHDATA1 / OP_PUSHDATA2 (non-minimal pushes, common in old transactions): kept verbatim
        'p2pkh-pushdata1': b'\x4c' + bytes([len(sigs[0])]) + sigs[0] + b'\x4c' + bytes([len(keys[0][1])]) + keys[0][1],
        'p2pkh-pushdata1-key': push(sigs[0]) + b'\x4c' + bytes([len(keys[0][1])]) + keys[0][1],
        'p2pkh-pushdata2': b'\x4d' + len(sigs[0]).to_bytes(2, 'little') + sigs[0] + push(keys[0][1]),
        'p2pk-pushdata1': b'\x4c' + bytes([len(sigs[1])]) + sigs[1],
        'p2sh-multisig-pushdata1': b'\x00' + b'\x4c' + bytes([len(sigs[0])]) + sigs[0] + push(sigs[1]) + push(redeem),
        'p2sh-csv-multisig': b'\x00' + push(sigs[0]) + push(sigs[1]) + push(csv_ms),
        'p2sh-if-multisig': b'\x00' + push(sigs[0]) + push(sigs[1]) + b'\x51' + push(if_ms),
        'p2sh-3of3': b'\x00' + push(sigs[0]) + push(sigs[1]) + push(sigs[2]) + push(ms33),
        'p2sh-1of3': b'\x00' + push(sigs[1]) + push(ms13),
    }
    wits = {
        'none': [], 'one-empty': [b''], 'one-zero': [b'\x00'], 'one-01': [b'\x01'], 'p2wpkh': [sigs[0], keys[0][1]],
        'p2wsh-multisig': [b'', sigs[0], sigs[1], redeem], 'two-small': [b'\x51', b'\x02\x03'], 'item253': [rnd(253), b'\x51'],
        'empty-and-key': [b'', keys[1][1]],
        # signatures with other hash types (SINGLE, NONE|ANYONECANPAY, ALL|ANYONECANPAY) are carried as they are
        'p2wpkh-single': [sigs[0][:-1] + b'\x03', keys[0][1]], 'p2wpkh-none-acp': [sigs[0][:-1] + b'\x82', keys[0][1]],
        'p2wpkh-all-acp': [sigs[0][:-1] + b'\x81', keys[0][1]],
        'p2wsh-multisig-mixed': [b'', sigs[0][:-1] + b'\x02', sigs[1][:-1] + b'\x83', redeem],
        'p2wsh-csv-multisig': [b'', sigs[0], sigs[1], csv_ms], 'p2wsh-if-multisig': [b'', sigs[0], sigs[1], b'\x01', if_ms],
        'p2wsh-data-multisig': [b'', sigs[0], sigs[1], data_ms], 'p2wsh-3of3': [b'', sigs[0], sigs[1], sigs[2], ms33],
        'p2wsh-1of3': [b'', sigs[2], ms13], 'p2wsh-sig-and-script': [sigs[0], push(keys[0][1]) + b'\xac'],
    }
    out_scripts = {
        'p2pkh': b'\x76\xa9\x14' + h20 + b'\x88\xac', 'p2sh': b'\xa9\x14' + h20 + b'\x87', 'p2wpkh': b'\x00\x14' + h20,
        'p2wsh': b'\x00\x20' + h32, 'p2tr': b'\x51\x20' + h32, 'nulldata': b'\x6a' + push(rnd(20)), 'empty': b'',
        'zero': b'\x00', 'op1': b'\x51', 'nonstd': rnd(11), 'p2pk': push(keys[2][1]) + b'\xac', 'len252': b'\x6a' + push(rnd(249)),
        'len253': b'\x6a' + push(rnd(250)), 'multisig': redeem,
    }
    versions = [le(1, 4), le(2, 4), le(0x80000002, 4), le(0, 4), le(0xffffffff, 4)]
    locktimes = [le(0, 4), le(499999999, 4), le(500000000, 4), le(0xffffffff, 4), le(1, 4)]
    seqs = [le(0xffffffff, 4), le(0xfffffffe, 4), le(0xfffffffd, 4), le(0, 4), le((1 << 22) | 5, 4)]
    values = [0, 1, 546, 2 ** 32 - 1, 2 ** 32, 2 ** 32 + 1, 21 * 10 ** 14, 12345678]

    def mk(in_specs, out_specs, vi=0, li=0):
        ins = []
        for j, (sk, wk, coinbase) in enumerate(in_specs):
            script = in_scripts[sk]
            if sk == 'p2sh-p2wsh' and wits[wk]:
                script = push(b'\x00\x20' + ref.sha256(wits[wk][-1]))     # the program of the witness script actually revealed
            ins.append({'txid': b'\x00' * 32 if coinbase else rnd(32), 'vout': le(0xffffffff if coinbase else rng.choice([0, 1, 7, 65536]), 4),
                        'script': script, 'seq': rng.choice(seqs), 'wit': list(wits[wk])})
        outs = [{'value': le(rng.choice(values), 8), 'script': out_scripts[ok]} for ok in out_specs]
        tx = {'version': versions[vi % len(versions)], 'locktime': locktimes[li % len(locktimes)], 'ins': ins, 'outs': outs}
        tx['segwit'] = any(i['wit'] for i in ins)
        return tx
    def compatible(sk, wk):
        if wk == 'none':
            return sk not in ('p2sh-p2wpkh', 'p2sh-p2wsh')
        if sk == 'empty':
            return True
        if sk == 'p2sh-p2wpkh':
            return wk in ('p2wpkh', 'empty-and-key', 'p2wpkh-single', 'p2wpkh-none-acp', 'p2wpkh-all-acp')
        if sk == 'p2sh-p2wsh':
            return wk.startswith('p2wsh-')
        return False
    shapes = []
    # every input script class x witness class (single input), every output class
    n = 0
    for sk in in_scripts:
        for wk in wits:
            # a witness on an input whose scriptSig is neither empty nor the push of a witness program is rejected by
            # consensus ("unexpected witness"); such transactions are not generated (coinbase inputs excepted, below)
            if not compatible(sk, wk):
                continue
            n += 1
            shapes.append((mk([(sk, wk, False)], [rng.choice(list(out_scripts))], n, n // 3), ('in', sk, wk)))
    for ok in out_scripts:
        n += 1
        shapes.append((mk([('p2pkh', 'none', False)], [ok], n, n), ('out', ok)))
        shapes.append((mk([('empty', 'p2wpkh', False)], [ok, 'p2wpkh'], n, n + 1), ('out-segwit', ok)))
    # coinbase
    wits['reserved'] = [b'\x00' * 32]
    for wk in ('none', 'reserved'):
        for sk in ('data75', 'ops', 'nonstd'):
            shapes.append((mk([(sk, wk, True)], ['p2pkh', 'nulldata']), ('coinbase', sk, wk)))
    # mixes of 2..3 inputs: witness of input k must stay with input k
    wk_list = list(wits)
    for _ in range(600 if thorough else 120):
        k = rng.randrange(2, 4)
        spec = []
        for _ in range(k):
            sk = rng.choice(['empty', 'empty', 'p2sh-p2wpkh', 'p2sh-p2wsh', 'p2pkh', 'zero', 'op1', 'p2sh-multisig', 'p2pkh-pushdata1',
                             'p2pkh-pushdata1-key'])
            spec.append((sk, rng.choice([w for w in wk_list if compatible(sk, w)]), False))
        outs = [rng.choice(list(out_scripts)) for _ in range(rng.randrange(1, 4))]
        shapes.append((mk(spec, outs, rng.randrange(5), rng.randrange(5)), ('mix', k, tuple(w for _, w, _ in spec))))
    # lengths at the CompactSize boundary 0xffff: output script, input script (coinbase), witness item
    for ln in (65534, 65535, 65536):
        if ln != 65535 and not thorough:
            continue
        big = b'\x6a\x4d' + (ln - 4).to_bytes(2, 'little') + rnd(ln - 4) if ln - 4 <= 65535 else b'\x6a' + rnd(ln - 1)
        out_scripts['big'] = big[:ln]
        wits['bigitem'] = [rnd(ln), b'\x51']
        shapes.append((mk([('p2pkh', 'none', False)], ['big', 'p2wpkh'], 1, 1), ('out-len', ln)))
        shapes.append((mk([('empty', 'bigitem', False)], ['p2wpkh'], 2, 2), ('witness-item-len', ln)))
        del out_scripts['big'], wits['bigitem']
    # counts across the CompactSize boundary
    for nin, nout in ((252, 1), (253, 1), (1, 252), (1, 253), (253, 253)) + (((254, 2), (2, 300), (300, 1)) if thorough else ()):
        for seg in (False, True):
            spec = [('empty' if seg else 'op1', rng.choice(['none', 'one-01', 'two-small']) if seg else 'none', False) for _ in range(nin)]
            if seg:
                spec[nin // 2] = ('empty', 'p2wpkh', False)
            outs = [rng.choice(['p2wpkh', 'op1', 'empty']) for _ in range(nout)]
            shapes.append((mk(spec, outs), ('counts', nin, nout, seg)))
    return shapes


def lib_fields(t):
    # the version is reported twice (version bytes and version_int): both must be what is serialized
    ver = bytes(t.version)[::-1]
    if le(t.version_int % 2 ** 32, 4) != ver:
        ver = b'VERSION-ATTRIBUTES-DISAGREE'
    return {'version': ver, 'segwit': t.witness_type == 'segwit', 'locktime': le(t.locktime, 4),
            'ins': [{'txid': bytes(i.prev_txid)[::-1], 'vout': bytes(i.output_n)[::-1], 'script': bytes(i.unlocking_script),
                     'seq': le(i.sequence, 4),
                     # Input.witnesses of a legacy input is internal bookkeeping (signature, key), not a witness
                     'wit': [bytes(w) for w in i.witnesses] if i.witness_type != 'legacy' else []} for i in t.inputs],
            'outs': [{'value': le(int(o.value), 8), 'script': bytes(o.lock_script)} for o in t.outputs]}


def fields_equal(lf, tx):
    """Field comparison; the library's representation of an empty witness item (b'\\0') is ambiguous and accepted for
    both the empty item and the item 00 here (the raw() comparison decides that case)."""
    diffs = []
    for k in ('version', 'locktime', 'segwit'):
        if lf[k] != tx[k]:
            diffs.append(k)
    if len(lf['ins']) != len(tx['ins']) or len(lf['outs']) != len(tx['outs']):
        return ['counts']
    for n, (a, b) in enumerate(zip(lf['ins'], tx['ins'])):
        for k in ('txid', 'vout', 'script', 'seq'):
            if a[k] != b[k]:
                diffs.append('in%d.%s' % (n, k))
        wa = [b'' if w == b'\x00' else w for w in a['wit']]
        wb = [b'' if w == b'\x00' else w for w in b['wit']]
        if wa != wb:
            diffs.append('in%d.wit' % n)
    for n, (a, b) in enumerate(zip(lf['outs'], tx['outs'])):
        for k in ('value', 'script'):
            if a[k] != b[k]:
                diffs.append('out%d.%s' % (n, k))
    return diffs


def has_single_zero(tx):
    return any(o['script'] == b'\x00' for o in tx['outs']) or any(w == b'\x00' for i in tx['ins'] for w in i['wit'])


def run(replay=None):
    common.fresh_bitcoinlib_env()
    ref.selftest()
    logging.disable(logging.CRITICAL)
    from bitcoinlib.transactions import Transaction
    from bitcoinlib.blocks import Block
    from bitcoinlib.keys import Key, HDKey
    ck = Check(PID)
    thorough = tier() == 'thorough'
    ck.rule = ('case = transaction shape (input script class x witness class x output class x counts x extremes) serialized by '
               'TLC from its fields and parsed by every parse route of bitcoinlib; class = shape tuple; plus API-built signed '
               'transactions judged by TLC, plus blocks of the generated transactions through both block readers')
    ck.assumptions = ['sha256d from hashlib (harness/ref.py)', 'buffers < 2^24 bytes; 8-byte CompactSize counts not generated',
                      'strict-mode refusal of a script "not understood" is retried with strict=False (documented mode)']
    # (-coverage makes TLC run out of memory on the recursive higher-order operators of this module)
    ck.model(common.model_check('MC_TxFormat', 'MC_TxFormat.cfg', coverage=False))
    shapes = gen_shapes(ck, thorough)
    if replay:
        c = replay['case']
        if 'tx' in c:
            def unj(t):
                return {'version': bytes(t['version']), 'segwit': t['segwit'], 'locktime': bytes(t['locktime']),
                        'ins': [{k: (bytes(v) if k != 'wit' else [bytes(w) for w in v]) for k, v in i.items()} for i in t['ins']],
                        'outs': [{k: bytes(v) for k, v in o.items()} for o in t['outs']]}
            shapes = [(unj(c['tx']), ('replay',))]
    sers = common.tlc_eval('TxFormatEval', [{'k': 'ser', 'tx': jtx(tx)} for tx, _ in shapes], timeout=3000)
    nstrict = 0
    expected_txid = {}
    for si, ((tx, klass), s) in enumerate(zip(shapes, sers)):
        if s['v'] != 'ok':
            raise common.MachineryError('generated shape is not well formed: %r' % (klass,))
        full, stripped = bytes(s['full']), bytes(s['stripped'])
        devfull, devstripped = bytes(s['devfull']), bytes(s['devstripped'])
        txid = ref.sha256d(stripped)[::-1].hex()
        expected_txid[si] = txid
        devtxid = ref.sha256d(devstripped)[::-1].hex()
        zero = has_single_zero(tx)
        for route in ('parse', 'parse_hex', 'parse_bytes', 'parse_bytesio'):
            ck.case(klass + (route,))
            case = {'tx': jtx(tx), 'route': route}

            def call(strict):
                if route == 'parse':
                    return Transaction.parse(full, strict=strict)
                if route == 'parse_hex':
                    return Transaction.parse_hex(full.hex(), strict=strict)
                if route == 'parse_bytes':
                    return Transaction.parse_bytes(full, strict=strict)
                return Transaction.parse_bytesio(io.BytesIO(full), strict=strict)
            try:
                try:
                    t = call(True)
                except Exception:
                    nstrict += 1
                    t = call(False)
            except Exception as e:
                ck.violation(None, 'clause parse-raised; %s %s of %s raised %r' % (klass, route, full.hex()[:160], e), case)
                continue
            try:
                raw = t.raw()
            except Exception as e:
                ck.violation(None, 'clause raw-raised; %s %s: raw() raised %r' % (klass, route, e), case)
                continue
            if raw != full:
                key = DEV if (zero and raw == devfull) else None
                ck.violation(key, 'clause reserialize; %s via %s: parse(raw).raw() differs: input %s..., output %s...' % (
                    klass, route, full.hex()[:200], raw.hex()[:200]), case)
            if t.txid != txid:
                key = DEV if (zero and t.txid == devtxid) else None
                ck.violation(key, 'clause txid; %s via %s: txid %s, expected sha256d(stripped) %s' % (klass, route, t.txid, txid), case)
            d = fields_equal(lib_fields(t), tx)
            if d:
                ck.violation(None, 'clause fields; %s via %s: parsed fields differ in %s' % (klass, route, d), case)
    ck.notes['strict_refusals_retried'] = nstrict
    ck.traces += len(shapes)

    # ---------------- (V) API-built transactions judged by TLC
    rng = ck.rng
    built = []
    nets = ['bitcoin', 'testnet', 'litecoin', 'dogecoin', 'regtest']
    for n in range(400 if thorough else 90):
        net = nets[n % len(nets)]
        wt = ['legacy', 'segwit', 'p2sh-segwit'][n % 3]
        if net == 'dogecoin':
            wt = 'legacy'
        t = Transaction(network=net, witness_type='legacy' if wt == 'legacy' else 'segwit', version=rng.choice([1, 2]),
                        locktime=rng.choice([0, 0, 700000, 1700000000]))
        nin = rng.randrange(1, 4)
        keys = []
        for j in range(nin):
            kind = rng.choice(['single', 'single', 'multisig'])
            iwt = wt if rng.random() < 0.8 or wt == 'legacy' else rng.choice(['legacy', 'segwit', 'p2sh-segwit'])
            if net == 'dogecoin':
                iwt = 'legacy'
            val = rng.choice([1000, 2 ** 32 + 5, 10 ** 8, 21 * 10 ** 14])
            seq = rng.choice([0xffffffff, 0xfffffffd, 0xfffffffe, 5])
            if kind == 'single':
                k = Key(rng.randrange(1, ref.N), network=net, compressed=(iwt != 'legacy' or rng.random() < 0.7))
                t.add_input(prev_txid=bytes(rng.randrange(256) for _ in range(32)), output_n=rng.choice([0, 1, 300]), keys=k,
                            value=val, sequence=seq, witness_type=iwt)
                keys.append([k])
            else:
                ks = [Key(rng.randrange(1, ref.N), network=net) for _ in range(3)]
                t.add_input(prev_txid=bytes(rng.randrange(256) for _ in range(32)), output_n=rng.choice([0, 2]), keys=ks,
                            script_type='p2sh_multisig', sigs_required=2, value=val, sequence=seq, witness_type=iwt)
                keys.append(rng.sample(ks, rng.choice([0, 1, 2, 2])))
        for j in range(rng.randrange(1, 4)):
            k = Key(rng.randrange(1, ref.N), network=net)
            enc = rng.choice(['base58', 'bech32']) if net != 'dogecoin' else 'base58'
            st = rng.choice(['p2pkh', 'p2sh']) if enc == 'base58' else rng.choice(['p2wpkh', 'p2wsh'])
            t.add_output(rng.choice([0, 546, 10 ** 6, 2 ** 32 + 1]), k.address(encoding=enc, script_type=st))
        signed = rng.random() < 0.8
        try:
            if signed:
                for j, ks in enumerate(keys):
                    if ks:
                        t.sign(ks, index_n=j)
            # the calls documented to re-sign and update the transaction: afterwards the id the object reports is the id of
            # what it serializes to
            mut = rng.choice(['', '', 'sign_and_update', 'set_locktime_blocks', 'set_locktime_time', 'set_locktime_relative_blocks',
                              'set_locktime_relative_time']) if signed else ''
            if mut == 'sign_and_update':
                t.sign_and_update()
            elif mut == 'set_locktime_blocks':
                t.set_locktime_blocks(rng.choice([1, 650000]))
            elif mut == 'set_locktime_time':
                t.set_locktime_time(rng.choice([500000001, 1800000000]))
            elif mut == 'set_locktime_relative_blocks':
                t.set_locktime_relative_blocks(rng.choice([1, 144]), input_index_n=rng.randrange(nin))
            elif mut == 'set_locktime_relative_time':
                t.set_locktime_relative_time(rng.choice([512, 512 * 300]), input_index_n=rng.randrange(nin))
            raw = t.raw()
        except Exception as e:
            ck.violation(None, 'clause build-raised; API build/sign of %s %s transaction raised %r' % (net, wt, e))
            continue
        built.append((t, raw, (net, wt, nin, signed, mut)))
    recs = [{'k': 'judge', 'tx': jtx(lib_fields(t)), 'raw': blist(raw), 'signed': bool(k[3] and t.verified is not False and
             all(i.signatures or i.witnesses for i in t.inputs))} for t, raw, k in built]
    verdicts = common.tlc_eval('TxFormatEval', recs, timeout=3000)
    # sizes of API-built (signed) and re-parsed transactions: size, weight, vsize as BIP141 defines them
    szv = common.tlc_eval('TxFormatEval', [{'k': 'sizes', 'raw': blist(raw)} for _, raw, _ in built], timeout=3000)
    for (t, raw, klass), sv in zip(built, szv):
        if sv['v'] != 'ok':
            continue
        size, stripped, weight, vsize = sv['full']
        for label, obj in (('built', t), ('parsed', Transaction.parse(raw, strict=False, network=klass[0]))):
            try:
                obj.size = len(obj.raw())
                wu = obj.calc_weight_units()
                got = (obj.size, wu, obj.vsize)
            except Exception as e:
                got = ('raised %r' % e,)
            ck.case(('sizes', label) + klass)
            if got != (size, weight, vsize):
                # sizes are not part of the statement of C06 (C07 computes the virtual size it needs from the raw bytes with
                # the same spec operators): observation, not an alarm
                mixed = 'segwit transaction with a legacy input' if any(i.witness_type == 'legacy' for i in obj.inputs) else \
                    'segwit serialization with empty witnesses'
                ck.beyond('Transaction.calc_weight_units differs from BIP141 (TxFormat!Weight): ' + mixed,
                          '%s %s transaction %s: (size, weight, vsize) reported %s, BIP141 gives %s (stripped size %d)'
                          % (label, klass, raw.hex()[:80], got, (size, weight, vsize), stripped))
    for (t, raw, klass), v in zip(built, verdicts):
        ck.case(('api',) + klass)
        ck.traces += 1
        if v['v'] != 'ok':
            ck.violation(v['dev'] or None, 'clause api-%s; API-built %s transaction: raw %s..., specification serializes its fields to %s...' % (
                v['v'], klass, raw.hex()[:160], bytes(v['full']).hex()[:160]), {'api': list(klass)})
        stripped = bytes(v['stripped'])
        want = ref.sha256d(stripped)[::-1].hex()
        t2 = Transaction.parse(raw, strict=False, network=klass[0])
        if t2.txid != want:
            ck.violation(None, 'clause api-txid; API-built %s transaction re-parsed: txid %s, expected %s' % (klass, t2.txid, want))
        if klass[4] and t.txid != want:
            ck.violation(None, 'clause api-txid-after-update; API-built %s transaction after %s(): the object reports txid %s, its '
                         'serialization has %s' % (klass[:4], klass[4], t.txid, want), {'api': list(klass)})

    # ---------------- blocks of generated transactions
    blocks = []
    plain = [(tx, k) for si, (tx, k) in enumerate(shapes) if not has_single_zero(tx) and len(tx['ins']) < 50 and len(tx['outs']) < 50]
    coin = [x for x in plain if x[1][0] == 'coinbase']
    bitsv = [bytes.fromhex('ffff001d'), bytes.fromhex('ffff7f20'), bytes.fromhex('cb040417'), bytes.fromhex('00000003'),
             bytes.fromhex('ff000002'), bytes.fromhex('34120001'), bytes.fromhex('ffff0021')]
    for n in range(60 if thorough else 14):
        # (a block never holds the same transaction twice: the other transactions are drawn without replacement)
        txs = [rng.choice(coin)[0]] + [x[0] for x in rng.sample([y for y in plain if y[1][0] != 'coinbase'], rng.choice([0, 1, 3, 7]))]
        h = {'version': le(rng.choice([1, 2, 0x20000000, 0x3fffe000]), 4), 'prev': bytes(rng.randrange(256) for _ in range(32)),
             'merkle': bytes(rng.randrange(256) for _ in range(32)), 'time': le(rng.randrange(2 ** 32), 4),
             'bits': bitsv[n % len(bitsv)], 'nonce': le(rng.randrange(2 ** 32), 4)}
        blocks.append((h, txs))
    bres = common.tlc_eval('TxFormatEval', [{'k': 'block', 'h': {k: blist(v) for k, v in h.items()}, 'txs': [jtx(t) for t in txs]}
                                            for h, txs in blocks], timeout=3000)
    tser = common.tlc_eval('TxFormatEval', [{'k': 'ser', 'tx': jtx(t)} for _, txs in blocks for t in txs], timeout=3000)
    ti = 0
    for (h, txs), b in zip(blocks, bres):
        raw = bytes(b['full'])
        target = int.from_bytes(bytes(b['stripped']), 'big')
        txids = []
        for _ in txs:
            txids.append(ref.sha256d(bytes(tser[ti]['stripped']))[::-1].hex())
            ti += 1
        ck.case(('block', len(txs), h['bits'].hex()))
        ck.traces += 1
        case = {'block': raw.hex()[:400]}
        try:
            blk = Block.parse_bytes(raw, parse_transactions=True)
            probs = []
            if blk.block_hash != ref.sha256d(raw[:80])[::-1]:
                probs.append('block_hash')
            if bytes(blk.version)[::-1] != h['version'] or bytes(blk.prev_block)[::-1] != h['prev'] or \
                    bytes(blk.merkle_root)[::-1] != h['merkle'] or le(blk.time, 4) != h['time'] or \
                    bytes(blk.bits)[::-1] != h['bits'] or bytes(blk.nonce)[::-1] != h['nonce']:
                probs.append('header fields')
            if blk.tx_count != len(txs) or [t.txid for t in blk.transactions] != txids:
                probs.append('transaction ids (object reader)')
            if blk.target != target or not isinstance(blk.target, int):
                probs.append('target %r expected %d (bits %s)' % (blk.target, target, h['bits'].hex()))
            if blk.serialize() != raw:
                probs.append('serialize()')
            b2 = Block.parse_bytes(raw)
            dtx = b2.parse_transactions_dict()
            if [d['txid'].hex() for d in dtx] != txids:
                probs.append('transaction ids (dict reader)')
            if b''.join(d['rawtx'] for d in dtx) != raw[80 + (1 if len(txs) < 253 else 3):]:
                probs.append('dict reader rawtx')
            one = []
            while True:
                t1 = b2.parse_transaction()
                if not t1:
                    break
                one.append(t1.txid)
            if one != txids:
                probs.append('transaction ids (one-by-one reader)')
            if b2.serialize() != raw:
                probs.append('serialize() after one-by-one parsing')
            for p in probs:
                key = 'target-exponent-below-3' if p.startswith('target') and h['bits'][3] < 3 else None
                ck.violation(key, 'clause block-%s; block with %d transactions: %s wrong' % (p.split(' ')[0], len(txs), p), case)
        except Exception as e:
            ck.violation(None, 'clause block-raised; block with %d transactions (bits %s): %r' % (len(txs), h['bits'].hex(), e), case)
    # ---------------- block reader call sequences (spec/BlockReaders.tla): every sequence of <= 4 calls
    ck.model(common.model_check('MC_BlockReaders', 'MC_BlockReaders.cfg', expect_actions=['Next']))
    import itertools
    big = [(h, txs, b) for (h, txs), b in zip(blocks, bres) if len(txs) >= 4]
    calls_alphabet = [('one', 0), ('many', 1), ('many', 2), ('many', 0), ('dict', 0), ('serialize', 0)]
    rrecs, rdesc = [], []
    if big:
        h, txs, b = big[0]
        raw = bytes(b['full'])
        n = len(txs)
        tser2 = common.tlc_eval('TxFormatEval', [{'k': 'ser', 'tx': jtx(t)} for t in txs], timeout=3000)
        idx = {ref.sha256d(bytes(x['stripped']))[::-1].hex(): i + 1 for i, x in enumerate(tser2)}
        if len(idx) != n:
            raise common.MachineryError('block reader section: the generated block holds the same transaction twice')
        seqs = [q for L in (1, 2, 3, 4) for q in itertools.product(range(len(calls_alphabet)), repeat=L)]
        if not thorough:
            seqs = [q for q in seqs if len(q) <= 3] + rng.sample([q for q in seqs if len(q) == 4], 150)
        for start in (0, 1, 2):
            for q in seqs:
                if start == 0:
                    blk = Block.parse_bytes(raw)
                else:
                    blk = Block.parse_bytes(raw, parse_transactions=True, limit=start)
                calls = []
                for ci in q:
                    op, limit = calls_alphabet[ci]
                    ok, out = True, []
                    try:
                        if op == 'one':
                            t1 = blk.parse_transaction()
                            out = [idx.get(t1.txid, 99)] if t1 else []
                        elif op == 'many':
                            before = len(blk.transactions)
                            blk.parse_transactions(limit)
                            out = [idx.get(t.txid, 99) for t in blk.transactions[before:]]
                        elif op == 'dict':
                            out = [idx.get(d['txid'].hex(), 99) for d in blk.parse_transactions_dict()]
                        else:
                            sraw = blk.serialize()
                            out = list(range(1, n + 1)) if sraw == raw else [99]
                    except Exception:
                        ok, out = False, []
                    if [idx.get(t.txid, 99) for t in blk.transactions] != list(range(1, len(blk.transactions) + 1)):
                        out = out + [98]          # the block's own list is not the consumed prefix in block order
                    calls.append({'a': {'op': op, 'limit': limit}, 'ok': ok, 'out': out})
                rrecs.append({'n': n, 'start': min(start, n), 'calls': calls})
                rdesc.append((start, [calls_alphabet[ci] for ci in q]))
        rv = common.tlc_eval('BlockReadersEval', rrecs)
        for (start, q), rec, v in zip(rdesc, rrecs, rv):
            ck.case(('readers', start, tuple(x[0] for x in q)))
            ck.traces += 1
            if v['v'] != 'ok':
                c = rec['calls'][v['at'] - 1]
                ck.violation(None, 'clause block-readers-%s; block of %d transactions parsed with limit=%d, calls %s: call %d reported %s '
                             '(ok=%s), specification expects %s' % (v['v'], n, start, q, v['at'], c['out'], c['ok'], v['exp']),
                             {'readers': [start, q]})
    ck.notes['reader_sequences'] = len(rrecs)
    ck.notes['shapes'] = len(shapes)
    ck.notes['api_built'] = len(built)
    ck.notes['blocks'] = len(blocks)
    for tx, k in shapes[:2] + shapes[-1:]:
        ck.sample({'shape': list(map(str, k)), 'inputs': len(tx['ins']), 'outputs': len(tx['outs'])})
    return ck.finish()
