"""C07 - wallet-created transactions conserve value and pay exactly what was requested (spec/WalletLedger.tla).

The histories are shared with C08 (harness/walletdrv.py); this check reports the clauses of the transaction rules
(TxWhy / Insufficient): conservation, exact recipients, other outputs to own addresses, distinct unspent confirmed inputs,
fee sign and rate limits, refusal when funds are insufficient.
"""
from harness import common, walletdrv, feebump
from harness.common import Check, tier

PID = 'C07'


def run(replay=None):
    ck = Check(PID)
    thorough = tier() == 'thorough'
    ck.rule = ('trace = seeded history of one wallet (8 wallet kinds: HD / single-key / 2-of-2 multisig x legacy / segwit / p2sh-segwit); '
               'case = one send_to / send / send with an explicit input list (also listing spent outputs or one outpoint twice) / sweep / bumpfee call judged by TLC against the ledger state reached; class = (wallet kind, '
               'call kind, created or refused, fee mode, number of inputs, number of change outputs)')
    ck.assumptions = ['network bitcoinlib_test (offline provider); amounts below 2^27 so that sums stay in TLC integer range',
                      'an output to any address of the same wallet counts as change', 'fee-rate limits checked on the final size with 3% tolerance',
                      'bumpfee is exercised on not yet broadcast transactions only',
                      'min_confirms does not apply to an explicit input list (documented); every other rule does']
    ck.model(common.model_check('MC_WalletLedger', 'MC_WalletLedger_thorough.cfg' if thorough else 'MC_WalletLedger.cfg', expect_actions=['Next']))
    if replay and 'feebump' in replay['case']:
        feebump.run_section(ck, thorough, replay)
        return ck.finish()
    if not replay:
        feebump.run_section(ck, thorough)
    if replay:
        jobs = [tuple(replay['case']['job'][:1]) + (tuple(replay['case']['job'][1]),) + tuple(replay['case']['job'][2:])]
        traces = common.pmap(walletdrv.wallet_history, jobs)
        verdicts = common.tlc_eval('WalletLedgerEval', [{'events': t['events']} for t in traces])
    else:
        jobs, traces, verdicts = walletdrv.collect(2400 if thorough else 240)
    ntx = 0
    for job, t, v in zip(jobs, traces, verdicts):
        ck.traces += 1
        if t['setup_error']:
            raise common.MachineryError('wallet setup failed: %s' % t['setup_error'])
        for nt in t.get('notes', []):
            if nt.startswith('transaction_import'):
                ck.beyond('transaction_import crashes instead of refusing', '%s wallet seed=%s: %s' % (tuple(t['kind']), t['seed'], nt))
                continue
            ck.beyond('a fee bump of a transaction reloaded from the wallet database is not signed (the wallet refuses to send it)',
                      '%s wallet seed=%s: %s' % (tuple(t['kind']), t['seed'], nt))
        for e in t['events']:
            if e['op'] == 'tx':
                ntx += 1
                ck.case((tuple(t['kind']), e['kind'], e['created'], e['q']['fee'] >= 0, len(e['x']['ins']), sum(1 for o in e['x']['outs'] if o[2] == 0)))
        for iss in v['issues']:
            if iss['kind'] == 'rejected':
                devs = [d for d in (iss.get('dev') or '').split('+') if d]
                # every deviation needed for the explanation must be a listed finding; otherwise an unattributed violation
                key = None if not devs or any(d not in ck.known for d in devs) else devs[0]
                for d in devs[1:] if key else []:
                    ck.known_hits.setdefault(d, {'n': 0, 'example': ''})['n'] += 1
                ck.violation(key, 'clause %s; %s wallet seed=%d, event %d: %s | history: %s' % (
                    iss['why'], t['kind'], t['seed'], iss['at'], t['desc'][iss['at'] - 1][:500], ' ; '.join(x[:70] for x in t['desc'][:iss['at'] - 1])[:900]),
                    {'job': [job[0], list(job[1]), job[2]]})
    ck.count(0)
    ck.notes['transaction_calls'] = ntx
    ck.notes['created'] = sum(1 for t in traces for e in t['events'] if e['op'] == 'tx' and e['created'])
    for t in traces[:2]:
        ck.sample({'wallet': t['kind'], 'history': t['desc'][:6]})
    return ck.finish()
