"""Primitive oracle of C04: the standard interpretation (harness/ref.py) of the primitives named in
spec/KeyMaterial.tla.  Also run as a helper by TLC (spec/KeyMaterialEval.tla, operator Solve):
    c04_prim.py <requests.json> <answers.json>
requests: per record a list of {f, m}; answers: per record the list of {f, m, v} with v = f(m).  Nothing structural
happens here - which bytes are asked for is decided by the specification."""
import json
import os
import sys

sys.path.insert(0, os.path.dirname(os.path.dirname(os.path.abspath(__file__))))
from harness import ref  # noqa: E402


def prim(f, m):
    m = bytes(m)
    if f == 'ec_mul_G':              # k*G as x || y, 00 for the point at infinity
        pt = ref.ec_mul(int.from_bytes(m, 'big'))
        return b'\0' if pt is ref.INF else pt[0].to_bytes(32, 'big') + pt[1].to_bytes(32, 'big')
    if f == 'lift_x':                # the even y over x, 00 if x is not the abscissa of a point
        pt = ref.lift_x(int.from_bytes(m, 'big'), 0)
        return b'\0' if pt is None else pt[1].to_bytes(32, 'big')
    if f == 'hash160':
        return ref.hash160(m)
    if f == 'sha256':
        return ref.sha256(m)
    if f == 'sha256d':
        return ref.sha256d(m)
    if f == 'xonly_tweak_add':       # x(lift_x(x) + t*G), 00 if undefined
        if len(m) != 64:
            return b'\0'
        pt = ref.lift_x(int.from_bytes(m[:32], 'big'), 0)
        t = int.from_bytes(m[32:], 'big')
        if pt is None or t >= ref.N:
            return b'\0'
        q = ref.ec_add(pt, ref.ec_mul(t))
        return b'\0' if q is ref.INF else q[0].to_bytes(32, 'big')
    raise ValueError('unknown primitive %r' % (f,))


def main(fin, fout):
    with open(fin) as f:
        req = json.load(f)
    cache = {}
    ans = []
    n = 0
    for lst in req:
        a = []
        for q in lst:
            key = (q['f'], bytes(q['m']))
            if key not in cache:
                cache[key] = list(prim(*key))
            a.append({'f': q['f'], 'm': q['m'], 'v': cache[key]})
            n += 1
        ans.append(a)
    with open(fout, 'w') as f:
        json.dump(ans, f, separators=(',', ':'))
    stats = os.environ.get('C04_PRIM_STATS')
    if stats:
        with open(stats, 'a') as f:
            f.write('%d\n' % n)


if __name__ == '__main__':
    main(sys.argv[1], sys.argv[2])
