"""C16 - public views and default exports never contain private key material (spec/Leak.tla).

(M) MC_Leak: all call histories up to depth 3/4 on a private key and a private extended key; with no deviation: NoLeak,
    PublicViewsClean, PrivateViewsListed, PublicAbsorbing; with all named deviations in force: what they can leak and
    that the leaking states are reachable.
(G) LeakGen: TLC prints every call history of that depth (and seeded longer ones in simulation mode); each is replayed
    on real Key / HDKey objects (several networks, import formats, witness types, derivation depths), following the
    subject through public(), copies, pickles, children, signatures and transactions built three ways.
(V) after every call the output and the subject's object graph, pickle and deep copy are scanned for every encoding of
    every private key in play (harness/c16_scan.py); TLC (LeakEval) judges each history against the specification and
    attributes disagreements to the smallest set of named deviations that predicts exactly what was observed.
    The same for seeded wallet histories over 22 creation routes (master key / xprv / passphrase / generated, private account
    key at the public-master depth, key paths without hardened levels, single key as WIF / hex / Key / HDKey, mixes of
    private and public co-signer keys): a seeded prefix, every public view on the handle as left by the history, every
    public view again on a freshly opened handle, watch-only wallets built from the public exports) and for wallet histories run with
    DB_FIELD_ENCRYPTION_KEY / DB_FIELD_ENCRYPTION_PASSWORD in subprocesses (raw sqlite files scanned after each step).
"""
import random
import time
from concurrent.futures import ThreadPoolExecutor

from harness import common, c16_scan, c16_drv
from harness.common import Check, tier, MachineryError

PID = 'C16'
ENC_KEY = '5a' * 16 + 'c3' * 16
ENC_PASSWORD = 'c16 database field password'
LISTED = [('key', ['encrypt', 'public', 'encrypt']), ('key', ['wif', 'encrypt', 'public']), ('hdkey', ['encrypt', 'public', 'as_dict_priv']),
          ('hdkey', ['info', 'encrypt', 'public'])] + \
         [('hdkey', pre + ['public_path', 'info', 'as_dict_priv']) for pre in ([], ['wif', 'wif_private']) for _ in range(6)] + \
         [('hdkey', ['wif', 'wif_public', 'wif_private', 'public_master', 'reflect']) for _ in range(72)] + \
         [('key', ['wif', 'public', 'reflect']) for _ in range(3)]    # every argument combination on a private receiver


def generate_histories(thorough, seed):
    rc, out = common.run_tlc('LeakGen', 'LeakGen_thorough.cfg' if thorough else 'LeakGen.cfg', workers=1, timeout=1200)
    hs = common.tlc_printed(out, 'HIST')
    args = common.tlc_printed(out, 'ARGS')
    if rc != 0 or not hs or not args:
        raise MachineryError('generation of call histories failed:\n' + out[-3000:])
    if thorough:
        # every history of the quick depth, and a seeded sample of the deeper ones (time budget)
        rc, out = common.run_tlc('LeakGen', 'LeakGen.cfg', workers=1, timeout=1200)
        short = common.tlc_printed(out, 'HIST')
        if rc != 0 or not short:
            raise MachineryError('generation of call histories failed:\n' + out[-3000:])
        hs = short + random.Random(seed).sample(hs, min(len(hs), 45000))
    rc, out = common.run_tlc('LeakGen', 'LeakGen_sim.cfg', workers=1, timeout=1200,
                             extra=['-simulate', 'num=%d' % (2500 if thorough else 250), '-depth', '8', '-seed', str(seed % 2 ** 31)])
    sim = common.tlc_printed(out, 'HIST')
    if not sim:
        raise MachineryError('simulation of long call histories failed:\n' + out[-3000:])
    uniq = {}
    for h in sim:
        uniq[(h['start'], tuple(h['hist']))] = h
    return hs, list(uniq.values())[:(2500 if thorough else 250)], args[0]


def describe_key(res):
    parts = []
    for st, wh in zip(res['rec']['steps'], res['where']):
        args = ','.join('%s=%s' % (k, v) for k, v in sorted(st['a'].items()) if v != 'none' and not (k == 'form' and v == 'named'))
        s = st['c'] + ('(%s)' % args if args else '') + ('' if st['ok'] else '[refused]')
        if wh['out']:
            s += ' out=%s' % sorted(wh['out'])
        if wh['held']:
            s += ' holds=%s' % sorted('%s@%s' % (a, b) for a, b in wh['held'].items())
        parts.append(s)
    return '%s: %s' % (res['desc'], ' ; '.join(parts))


def run(replay=None):
    common.fresh_bitcoinlib_env()
    c16_scan.selftest()
    ck = Check(PID)
    thorough = tier() == 'thorough'
    seed = common.seed()
    rng = ck.rng
    ck.rule = ('case = one call of a history (its output, and the object graph / pickle / deep copy of the subject afterwards, scanned for '
               'every encoding of every private key in play), or one item shown by a wallet call, or the raw database files after one '
               'wallet operation; class = (subject kind, call, performed/refused, what was found)')
    ck.assumptions = ['private key material = the 32 raw bytes, hex digits, the number (also as pickled little-endian integer), Base58 strings '
                      'decoding to WIF / extended private key / anything containing the 32 bytes; other transformations (base64, '
                      'encryption, the ECDSA nonce) are not searched for',
                      'secrets in play are told by the private objects themselves (shadow derivation with the library, DbKey.private read '
                      'through the ORM)', 'scalars > 2^200 (short encodings would cause accidental matches)',
                      'ORM relationships are not followed from an object back into the database; only loaded column values are scanned',
                      'wallets run offline on network bitcoinlib_test']
    ck.model(common.model_check('MC_Leak', 'MC_Leak_thorough.cfg' if thorough else 'MC_Leak.cfg', expect_actions=['Call', 'PublicReached']))
    ck.model(common.model_check('MC_Leak', 'MC_Leak_dev_thorough.cfg' if thorough else 'MC_Leak_dev.cfg',
                                expect_actions=['Call', 'LeakHeld', 'LeakOut', 'PublicReached']))

    timing = {'model_s': round(time.time() - ck.t0, 1)}
    key_jobs, wallet_jobs, db_jobs = [], [], []
    argspace = {}
    if replay:
        c = replay['case']
        if c['kind'] == 'key':
            key_jobs = [(c['start'], c['hist'], c['seed'])]
            argspace = c.get('argspace', {})
        elif c['kind'] == 'wallet':
            wallet_jobs = [(c['seed'], c['wkind'], c['hist'])]
        else:
            db_jobs = [(c['seed'], c['mode'])]
    else:
        hs, sim, argspace = generate_histories(thorough, seed)
        ck.notes['argument_combinations'] = {c: len(v) for c, v in argspace.items()}
        ck.notes['generated_histories'] = len(hs)
        ck.notes['simulated_histories'] = len(sim)
        for n, h in enumerate(hs + sim + [{'start': a, 'hist': b} for a, b in LISTED]):
            key_jobs.append((h['start'], h['hist'], seed * 1000003 + n))       # one seeded instantiation per history
        # every creation route (quick: once each), seeded witness type and calls
        nw = 6 * len(c16_drv.WALLET_KINDS) if thorough else len(c16_drv.WALLET_KINDS)
        for i in range(nw):
            wk = list(c16_drv.WALLET_KINDS[i % len(c16_drv.WALLET_KINDS)])
            wallet_jobs.append((seed % 100000 * 1000 + i, wk, c16_drv.gen_wallet_history(rng, rng.randrange(3, 7), wk[0])))
        nd = 12 if thorough else 3
        for i in range(nd):
            for mode in ('key', 'password'):
                db_jobs.append((seed % 100000 * 100 + i, mode))
        db_jobs.append((seed % 100000 * 100, 'none'))

    # ---- drive (the three drivers run side by side; each pmap has its own fresh worker processes) -------------------
    t1 = time.time()
    timing['generate_s'] = round(t1 - ck.t0 - timing['model_s'], 1)

    def timed(name, f):
        def g():
            t = time.time()
            r = f()
            timing[name] = round(time.time() - t, 1)
            return r
        return g

    def drive_keys():
        if not key_jobs:
            return []
        nchunk = max(1, min(len(key_jobs), common.NCPU * 6))
        chunks = [key_jobs[i::nchunk] for i in range(nchunk)]
        res = common.pmap(c16_drv.key_worker, [(argspace, ch) for ch in chunks], procs=min(common.NCPU, 12))
        flat = [None] * len(key_jobs)
        for ci, rs in enumerate(res):
            for j, r in enumerate(rs):
                flat[ci + j * nchunk] = r
        return flat

    def drive_wallets():
        return common.pmap(c16_drv.wallet_history, wallet_jobs, procs=12) if wallet_jobs else []

    def drive_db():
        out = {}

        def one(mode_env):
            mode, env = mode_env
            js = [j for j in db_jobs if j[1] == mode]
            if js:
                for j, r in zip(js, common.pmap(c16_drv.db_history, js, procs=4, extra_env=env)):
                    out[j] = r
        with ThreadPoolExecutor(max_workers=3) as ex2:
            list(ex2.map(one, [('key', {'DB_FIELD_ENCRYPTION_KEY': ENC_KEY}), ('password', {'DB_FIELD_ENCRYPTION_PASSWORD': ENC_PASSWORD}),
                               ('none', {})]))
        return [out[j] for j in db_jobs]

    with ThreadPoolExecutor(max_workers=3) as ex:
        fk, fw, fd = ex.submit(timed('keys_s', drive_keys)), ex.submit(timed('wallets_s', drive_wallets)), ex.submit(timed('db_s', drive_db))
        kres, wres, dres = fk.result(), fw.result(), fd.result()

    for j, r in zip(db_jobs, dres):
        if r.get('error'):
            raise MachineryError('database driver: %s' % r['error'])
    # a wallet that cannot be set up is skipped; the run is inconclusive (machinery failure) unless violations are found
    setup_errors = ['%s: %s' % ('/'.join(r['wkind']), r['setup_error']) for r in wres if r.get('setup_error')]
    keep = [i for i, r in enumerate(wres) if not r.get('setup_error')]
    wallet_jobs = [wallet_jobs[i] for i in keep]
    wres = [wres[i] for i in keep]

    # ---- judge ------------------------------------------------------------------------------------------------------
    recs = [r['rec'] for r in kres] + [r['rec'] for r in wres] + [r['rec'] for r in dres]
    t2 = time.time()
    verdicts = common.tlc_eval('LeakEval', recs, timeout=3000)
    timing['judge_s'] = round(time.time() - t2, 1)
    ck.notes['timing'] = timing
    vk, vw, vd = verdicts[:len(kres)], verdicts[len(kres):len(kres) + len(wres)], verdicts[len(kres) + len(wres):]

    performed = {}

    def report(v, text, case):
        if v['v'] == 'ok':
            return
        devs = v['dev']
        if not devs:
            ck.violation(None, 'clause %s at step %d (specification expects %s); %s' % (v['v'], v['at'], v['exp'] or 'nothing', text), case)
        for d in devs:
            ck.violation(d, 'clause %s at step %d; %s' % (d, v['at'], text), case)

    for job, r, v in zip(key_jobs, kres, vk):
        ck.traces += 1
        for st, wh in zip(r['rec']['steps'], r['where']):
            ck.case((wh['kind'], wh['private'], st['c'], st['ok'], tuple(st['os']), tuple(st['hs'])))
            key = (r['rec']['start'], st['c'])
            performed[key] = performed.get(key, 0) + (1 if st['ok'] else 0)
        used = {st['c'] for st in r['rec']['steps']}
        report(v, describe_key(r), {'kind': 'key', 'start': job[0], 'hist': list(job[1]), 'seed': job[2],
                                    'argspace': {c: a for c, a in argspace.items() if c in used}})
    for job, r, v in zip(wallet_jobs, wres, vw):
        ck.traces += 1
        for st, wh in zip(r['rec']['steps'], r['where']):
            for it in st['items'] or [None]:
                ck.case((tuple(r['wkind']), st['c'], st['ok'], wh['watch'], (it['priv'], it['signed'], tuple(it['own'])) if it else None))
            key = ('wallet', st['c'])
            performed[key] = performed.get(key, 0) + (1 if st['ok'] else 0)
        text = '%s wallet: ' % '/'.join(r['wkind']) + ' ; '.join(
            '%s%s%s' % (st['c'], '' if st['ok'] else '[refused: %s]' % wh['err'], (' found=%s' % [x for x in wh['items'] if x]) if any(wh['items']) else '')
            for st, wh in zip(r['rec']['steps'], r['where']))
        report(v, text, {'kind': 'wallet', 'seed': job[0], 'wkind': job[1], 'hist': job[2]})
    control_found = set()
    for job, r, v in zip(db_jobs, dres, vd):
        ck.traces += 1
        for st in r['rec']['steps']:
            ck.case(('db', job[1], st['c'].split(' ')[0], tuple(st['found'])))
            if job[1] == 'none':
                control_found |= set(st['found'])
        text = 'database with field encryption mode %s: ' % job[1] + ' ; '.join(
            '%s%s' % (st['c'], (' found=%s' % wh) if wh else '') for st, wh in zip(r['rec']['steps'], r['where']))
        report(v, text, {'kind': 'db', 'seed': job[0], 'mode': job[1]})

    # ---- vacuity control --------------------------------------------------------------------------------------------
    if setup_errors and not ck.violations:
        raise MachineryError('wallet driver could not create %d wallets: %s' % (len(setup_errors), setup_errors[:3]))
    ck.notes['wallets_skipped_setup_failed'] = setup_errors[:5]
    ck.notes['wallet_routes_refused_at_creation'] = sorted({'%s: %s' % ('/'.join(r['wkind']), r['refused']) for r in wres if r.get('refused')})[:8]
    ck.notes['wallet_routes'] = sorted({r['wkind'][0] for r in wres if r['rec']['steps']})
    if not replay and not ck.violations:
        if not {'raw', 'xprv'} <= control_found:
            raise MachineryError('control run without field encryption: the scanner did not find the stored keys (%s)' % sorted(control_found))
        never = sorted(k for k, n in performed.items() if n == 0 and k[1] not in ('mainkey_key',))
        ck.notes['calls_never_performed_successfully'] = [list(k) for k in never]
        # a public view that was never taken makes the run vacuous; a seeded filler call (new_account, send, ...) that did
        # not happen to succeed in this run does not
        fatal = [k for k in never if k[0] != 'wallet' or k[1] not in c16_drv.W_FILLERS]
        if fatal or len(never) > 3:
            raise MachineryError('calls never performed successfully (vacuous): %s' % never)
        for r in dres:
            if r['nsecrets'] < 10:
                raise MachineryError('database history with only %d secrets in play' % r['nsecrets'])
    ck.notes['key_histories'] = len(kres)
    ck.notes['wallet_histories'] = len(wres)
    ck.notes['db_histories'] = len(dres)
    ck.notes['calls_performed'] = {'%s.%s' % k: n for k, n in sorted(performed.items())}
    for r in kres[:2]:
        ck.sample({'history': describe_key(r)})
    for r in wres[:1]:
        ck.sample({'wallet': r['wkind'], 'calls': [s['c'] for s in r['rec']['steps']]})
    for r in dres[:1]:
        ck.sample({'db_mode': r['rec']['mode'], 'steps': [[s['c'], s['found']] for s in r['rec']['steps']]})
    return ck.finish()
