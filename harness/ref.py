"""Reference interpretation of the uninterpreted primitives used by the specifications (DESIGN 1.4).

Shares nothing with bitcoinlib's dependencies (fastecdsa, pycryptodome, scrypt): hashlib (OpenSSL) for the hashes and
KDFs, pure-Python secp256k1 and AES-256 written for this framework.  Only *primitives* live here; every structural
rule (which fields, which order, which branch) lives in the TLA+ specifications.  `selftest()` checks each primitive
against published vectors and is run by every check that uses this module (failure = machinery failure, exit 2).
"""
import hashlib
import hmac as _hmac
import unicodedata

# ------------------------------------------------------------------ hashes / KDFs


def sha256(b):
    return hashlib.sha256(b).digest()


def sha256d(b):
    return hashlib.sha256(hashlib.sha256(b).digest()).digest()


def ripemd160(b):
    return hashlib.new('ripemd160', b).digest()


def hash160(b):
    return ripemd160(sha256(b))


def hmac512(key, data):
    return _hmac.new(key, data, hashlib.sha512).digest()


def pbkdf2_sha512(pw, salt, iters=2048, dklen=64):
    return hashlib.pbkdf2_hmac('sha512', pw, salt, iters, dklen)


def scrypt(pw, salt, n, r, p, dklen):
    return hashlib.scrypt(pw, salt=salt, n=n, r=r, p=p, dklen=dklen, maxmem=2 ** 27)


def nfkd(s):
    return unicodedata.normalize('NFKD', s)


def nfc(s):
    return unicodedata.normalize('NFC', s)


# ------------------------------------------------------------------ secp256k1 (affine, pure Python)
P = 2 ** 256 - 2 ** 32 - 977
N = 0xFFFFFFFFFFFFFFFFFFFFFFFFFFFFFFFEBAAEDCE6AF48A03BBFD25E8CD0364141
GX = 0x79BE667EF9DCBBAC55A06295CE870B07029BFCDB2DCE28D959F2815B16F81798
GY = 0x483ADA7726A3C4655DA4FBFC0E1108A8FD17B448A68554199C47D08FFB10D4B8
G = (GX, GY)
INF = None


def on_curve(pt):
    if pt is INF:
        return True
    x, y = pt
    return 0 <= x < P and 0 <= y < P and (y * y - x * x * x - 7) % P == 0


def ec_add(a, b):
    if a is INF:
        return b
    if b is INF:
        return a
    (x1, y1), (x2, y2) = a, b
    if x1 == x2:
        if (y1 + y2) % P == 0:
            return INF
        lam = 3 * x1 * x1 * pow(2 * y1, -1, P) % P
    else:
        lam = (y2 - y1) * pow(x2 - x1, -1, P) % P
    x3 = (lam * lam - x1 - x2) % P
    return x3, (lam * (x1 - x3) - y1) % P


def ec_mul(k, pt=G):
    k %= N
    r = INF
    while k:
        if k & 1:
            r = ec_add(r, pt)
        pt = ec_add(pt, pt)
        k >>= 1
    return r


def ec_neg(pt):
    return INF if pt is INF else (pt[0], (-pt[1]) % P)


def lift_x(x, odd):
    """Point with x-coordinate x and y parity `odd`, or None when x is not on the curve."""
    if not 0 <= x < P:
        return None
    y2 = (pow(x, 3, P) + 7) % P
    y = pow(y2, (P + 1) // 4, P)
    if y * y % P != y2:
        return None
    if (y & 1) != bool(odd):
        y = P - y
    return x, y


def ser_point(pt, compressed=True):
    x, y = pt
    if compressed:
        return bytes([2 + (y & 1)]) + x.to_bytes(32, 'big')
    return b'\x04' + x.to_bytes(32, 'big') + y.to_bytes(32, 'big')


def parse_point(b):
    """Decode a SEC1 public key; None unless it denotes a point on the curve."""
    if len(b) == 33 and b[0] in (2, 3):
        return lift_x(int.from_bytes(b[1:], 'big'), b[0] == 3)
    if len(b) == 65 and b[0] == 4:
        pt = (int.from_bytes(b[1:33], 'big'), int.from_bytes(b[33:], 'big'))
        return pt if on_curve(pt) else None
    return None


def pubkey(k, compressed=True):
    return ser_point(ec_mul(k), compressed)


def ecdsa_verify(pub_pt, z, r, s):
    """Standard ECDSA verification (z: int digest)."""
    if pub_pt is INF or pub_pt is None or not on_curve(pub_pt):
        return False
    if not (1 <= r < N and 1 <= s < N):
        return False
    w = pow(s, -1, N)
    pt = ec_add(ec_mul(z * w % N), ec_mul(r * w % N, pub_pt))
    return pt is not INF and pt[0] % N == r


def rfc6979_k(x, z_bytes):
    """Deterministic nonce per RFC 6979 (SHA-256, secp256k1), x: private key int, z_bytes: 32-byte digest."""
    def bits2octets(b):
        v = int.from_bytes(b, 'big') % N
        return v.to_bytes(32, 'big')
    V = b'\x01' * 32
    K = b'\x00' * 32
    xb = x.to_bytes(32, 'big')
    hb = bits2octets(z_bytes)
    K = _hmac.new(K, V + b'\x00' + xb + hb, hashlib.sha256).digest()
    V = _hmac.new(K, V, hashlib.sha256).digest()
    K = _hmac.new(K, V + b'\x01' + xb + hb, hashlib.sha256).digest()
    V = _hmac.new(K, V, hashlib.sha256).digest()
    while True:
        V = _hmac.new(K, V, hashlib.sha256).digest()
        k = int.from_bytes(V, 'big')
        if 1 <= k < N:
            return k
        K = _hmac.new(K, V + b'\x00', hashlib.sha256).digest()
        V = _hmac.new(K, V, hashlib.sha256).digest()


# ------------------------------------------------------------------ AES-256 (ECB, single blocks) - FIPS 197
_SBOX = None
_INV = None


def _init_aes():
    global _SBOX, _INV
    if _SBOX:
        return
    p = q = 1
    sbox = [0] * 256
    while True:
        p = p ^ ((p << 1) & 0xff) ^ (0x1b if p & 0x80 else 0)
        q ^= q << 1
        q ^= q << 2
        q ^= q << 4
        q &= 0xff
        if q & 0x80:
            q ^= 0x09
        x = q ^ (q << 1 | q >> 7) & 0xff ^ (q << 2 | q >> 6) & 0xff ^ (q << 3 | q >> 5) & 0xff ^ (q << 4 | q >> 4) & 0xff
        sbox[p] = (x ^ 0x63) & 0xff
        if p == 1:
            break
    sbox[0] = 0x63
    _SBOX = sbox
    _INV = [0] * 256
    for i, v in enumerate(sbox):
        _INV[v] = i


def _xt(a):
    return ((a << 1) ^ 0x1b) & 0xff if a & 0x80 else a << 1


def _mul(a, b):
    r = 0
    while b:
        if b & 1:
            r ^= a
        a = _xt(a)
        b >>= 1
    return r


def _expand(key):
    _init_aes()
    w = [list(key[i:i + 4]) for i in range(0, 32, 4)]
    rc = 1
    for i in range(8, 60):
        t = list(w[i - 1])
        if i % 8 == 0:
            t = t[1:] + t[:1]
            t = [_SBOX[b] for b in t]
            t[0] ^= rc
            rc = _xt(rc)
        elif i % 8 == 4:
            t = [_SBOX[b] for b in t]
        w.append([a ^ b for a, b in zip(w[i - 8], t)])
    return [sum(w[4 * r:4 * r + 4], []) for r in range(15)]


def aes256_encrypt_block(key, block):
    rk = _expand(key)
    s = [b ^ k for b, k in zip(block, rk[0])]
    for rnd in range(1, 15):
        s = [_SBOX[b] for b in s]
        s = [s[(i + 4 * (i % 4)) % 16] for i in range(16)]     # shift rows (column-major state)
        if rnd != 14:
            t = []
            for c in range(4):
                a = s[4 * c:4 * c + 4]
                t += [_mul(a[0], 2) ^ _mul(a[1], 3) ^ a[2] ^ a[3], a[0] ^ _mul(a[1], 2) ^ _mul(a[2], 3) ^ a[3],
                      a[0] ^ a[1] ^ _mul(a[2], 2) ^ _mul(a[3], 3), _mul(a[0], 3) ^ a[1] ^ a[2] ^ _mul(a[3], 2)]
            s = t
        s = [b ^ k for b, k in zip(s, rk[rnd])]
    return bytes(s)


def aes256_decrypt_block(key, block):
    rk = _expand(key)
    s = [b ^ k for b, k in zip(block, rk[14])]
    for rnd in range(13, -1, -1):
        s = [s[(i - 4 * (i % 4)) % 16] for i in range(16)]     # inverse shift rows
        s = [_INV[b] for b in s]
        s = [b ^ k for b, k in zip(s, rk[rnd])]
        if rnd != 0:
            t = []
            for c in range(4):
                a = s[4 * c:4 * c + 4]
                t += [_mul(a[0], 14) ^ _mul(a[1], 11) ^ _mul(a[2], 13) ^ _mul(a[3], 9),
                      _mul(a[0], 9) ^ _mul(a[1], 14) ^ _mul(a[2], 11) ^ _mul(a[3], 13),
                      _mul(a[0], 13) ^ _mul(a[1], 9) ^ _mul(a[2], 14) ^ _mul(a[3], 11),
                      _mul(a[0], 11) ^ _mul(a[1], 13) ^ _mul(a[2], 9) ^ _mul(a[3], 14)]
            s = t
    return bytes(s)


def aes256_ecb_encrypt(key, data):
    return b''.join(aes256_encrypt_block(key, data[i:i + 16]) for i in range(0, len(data), 16))


def aes256_ecb_decrypt(key, data):
    return b''.join(aes256_decrypt_block(key, data[i:i + 16]) for i in range(0, len(data), 16))


# ------------------------------------------------------------------ self test against published vectors

def selftest():
    from harness.common import MachineryError

    def chk(name, cond):
        if not cond:
            raise MachineryError('reference primitive self-test failed: ' + name)
    chk('sha256', sha256(b'abc').hex() == 'ba7816bf8f01cfea414140de5dae2223b00361a396177a9cb410ff61f20015ad')
    chk('ripemd160', ripemd160(b'abc').hex() == '8eb208f7e05d987a9b044a8e98c6b087f15a0bfc')
    chk('hmac512', hmac512(b'Jefe', b'what do ya want for nothing?').hex().startswith('164b7a7bfcf819e2e395fbe73b56e0a3'))
    chk('pbkdf2', pbkdf2_sha512(b'password', b'salt', 1, 64).hex().startswith('867f70cf1ade02cff3752599a3a53dc4'))
    chk('scrypt', scrypt(b'password', b'NaCl', 1024, 8, 16, 64).hex().startswith('fdbabe1c9d3472007856e7190d01e9fe'))
    chk('G on curve', on_curve(G) and ec_mul(N) is INF and ec_mul(N - 1) == ec_neg(G))
    chk('2G', ec_mul(2)[0] == 0xC6047F9441ED7D6D3045406E95C07CD85C778E4B8CEF3CA7ABAC09B95C709EE5)
    chk('pub(1)', pubkey(1).hex() == '0279be667ef9dcbbac55a06295ce870b07029bfcdb2dce28d959f2815b16f81798')
    chk('lift_x', lift_x(GX, GY & 1) == G and lift_x(5, 0) is None)
    # BIP32 test vector 1: master key from seed 000102...0f
    I = hmac512(b'Bitcoin seed', bytes(range(16)))
    chk('bip32 master', I[:32].hex() == 'e8f32e723decf4051aefac8e2c93c9c5b214313817cdb01a1494b917c8436b35')
    # RFC 6979 / well-known secp256k1 vector: key 1, message "Satoshi Nakamoto"
    z = sha256(b'Satoshi Nakamoto')
    k = rfc6979_k(1, z)
    chk('rfc6979', k == 0x8F8A276C19F4149656B280621E358CCE24F5F52542772691EE69063B74F15D15)
    r = ec_mul(k)[0] % N
    s = pow(k, -1, N) * (int.from_bytes(z, 'big') + r * 1) % N
    chk('ecdsa', ecdsa_verify(G, int.from_bytes(z, 'big'), r, s) and not ecdsa_verify(G, int.from_bytes(z, 'big') + 1, r, s))
    # FIPS-197 C.3 AES-256
    key = bytes(range(32))
    pt = bytes.fromhex('00112233445566778899aabbccddeeff')
    ct = aes256_encrypt_block(key, pt)
    chk('aes256 enc', ct.hex() == '8ea2b7ca516745bfeafc49904b496089')
    chk('aes256 dec', aes256_decrypt_block(key, ct) == pt)
    return True
