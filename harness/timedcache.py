"""TimedCache.tla bound to Service.blockcount / Service.estimatefee (specification growth beyond the listed properties).

The world moves (blocks are found, the provider's fee estimates change) and a VIRTUAL clock runs: the names `time` and
`datetime` inside bitcoinlib.services.services are replaced in the worker process (no repository hook), so that a history can
sit exactly on the 60 s / 600 s boundaries.  TLC (TimedCacheEval) judges every answer: either what the provider answers now,
or what a provider answered to the same question less than the time to live ago.  C20 does not say for how long an answer
stays good, so disagreements are reported with Check.beyond (no alarm)."""
import os
import random
import tempfile
from datetime import datetime, timedelta

from harness import common

TICKS = [0, 0, 1, 2, 3, 4, 30, 58, 59, 60, 61, 120, 300, 598, 599, 600, 601, 1200]
HEIGHT = 700000


def timed_history(job):
    seed, nops = job
    rng = random.Random(seed)
    from harness import c20
    import bitcoinlib.services.services as S
    from bitcoinlib.services.services import Service, ServiceError
    network = 'bitcoin'
    vfake = c20._setup_fakes(network)
    vfake.SCRIPT.clear()
    clock = [0]
    base = datetime(2026, 1, 1, 12, 0, 0)

    class _Time:
        @staticmethod
        def time():
            return 1767268800.0 + clock[0]

        @staticmethod
        def sleep(x):
            pass

    class _DT(datetime):
        @classmethod
        def now(cls, tz=None):
            return base + timedelta(seconds=clock[0])

        @classmethod
        def utcnow(cls):
            return base + timedelta(seconds=clock[0])
    S.time = _Time
    S.datetime = _DT
    S.random = random.Random(seed)
    world = {'height': HEIGHT, 'fee': 0}

    def fee_now(blocks):
        return 20000 + 1000 * min(blocks, 30) + world['fee']
    V = vfake.VALUES
    for p in c20.PROVS:
        V[(p, 'blockcount')] = lambda: world['height']
        V[(p, 'estimatefee')] = lambda blocks: fee_now(blocks)
    dbf = os.path.join(tempfile.mkdtemp(prefix='tc_', dir=os.environ['BCL_DATA_DIR']), 'cache.sqlite')

    def new_service():
        srv = Service(network=network, providers=['vfake'], cache_uri='sqlite:///' + dbf)
        for p in c20.PROVS[1:]:
            srv.providers[p]['url'] = ''
        return srv
    events, desc = [], []
    pending = [0]

    def query(x, call, pval, text, prov):
        for p in c20.PROVS:          # (a new Service object has all providers until the history narrows it to one)
            vfake.SCRIPT[p] = 'ok' if prov == 'ok' else 'raise'
        del vfake.LOG[:]
        ev = {'x': x, 'dt': pending[0], 'prov': prov, 'pval': int(pval), 'ok': True, 'ret': 0, 'asked': False}
        pending[0] = 0
        try:
            r = call()
            if r is False or r is None:
                ev['ok'] = False
            else:
                ev['ret'] = int(r)
        except ServiceError:
            ev['ok'] = False
        except Exception as e:
            ev['ok'] = True
            ev['ret'] = -1
            text += ' EXC %s: %s' % (type(e).__name__, str(e)[:80])
        ev['asked'] = any(l[0] == 'call' for l in vfake.LOG)
        events.append(ev)
        desc.append('t=%d %s provider=%s -> %s%s' % (clock[0], text, prov, ev['ret'] if ev['ok'] else 'failure', ' (provider asked)' if ev['asked'] else ''))
    holder = [None]
    # the constructor asks for the block count
    vfake.SCRIPT['p1'] = 'ok'

    def make():
        holder[0] = new_service()
        return holder[0]._blockcount
    query('blockcount', make, world['height'], 'Service()', 'ok')
    for step in range(nops):
        srv = holder[0]
        r = rng.random()
        prov = rng.choice(['ok', 'ok', 'ok', 'fail'])
        if r < 0.30:
            d = rng.choice(TICKS)
            clock[0] += d
            pending[0] += d
            desc.append('   (%d s pass)' % d)
        elif r < 0.42:
            k = rng.choice([1, 1, 2, -1])
            world['height'] += k
            desc.append('   (chain: %+d block(s); the provider now reports %d)' % (k, world['height']))
        elif r < 0.50:
            world['fee'] += rng.choice([1, 500, -300])
            desc.append('   (the provider\'s fee estimates change)')
        elif r < 0.72:
            query('blockcount', srv.blockcount, world['height'], 'blockcount()', prov)
        elif r < 0.94:
            if rng.random() < 0.3:
                pr = rng.choice(['low', 'medium', 'high'])
                blocks = {'low': 25, 'high': 2}.get(pr, 5)       # what the library asks the provider for
                x = {'low': 'fee_low', 'medium': 'fee_medium', 'high': 'fee_high'}[pr]
                query(x, lambda: srv.estimatefee(priority=pr), fee_now(blocks), 'estimatefee(priority=%r)' % pr, prov)
            else:
                blocks = rng.choice([1, 2, 3, 5, 6, 25])
                x = 'fee_high' if blocks <= 1 else ('fee_medium' if blocks <= 5 else 'fee_low')
                query(x, lambda: srv.estimatefee(blocks), fee_now(blocks), 'estimatefee(%d)' % blocks, prov)
        else:
            vfake.SCRIPT['p1'] = 'ok' if prov == 'ok' else 'raise'
            try:
                query('blockcount', make, world['height'], 'a new Service object on the same cache', prov)
            except Exception:
                pass
    return {'seed': seed, 'events': events, 'desc': desc}


def run_section(ck, thorough):
    ck.model(common.model_check('MC_TimedCache', 'MC_TimedCache.cfg', expect_actions=['WorldChanges', 'Query'], workers=8))
    n = 600 if thorough else 96
    jobs = [(common.seed() % 100000 * 10 + i, 14 + i % 10) for i in range(n)]
    traces = common.pmap(timed_history, jobs, chunksize=4)
    verdicts = common.tlc_eval('TimedCacheEval', [{'events': t['events']} for t in traces], cfg='TimedCacheEval.cfg')
    nq = bad = 0
    for t, v in zip(traces, verdicts):
        nq += len(t['events'])
        for iss in v['issues']:
            bad += 1
            e = t['events'][iss['at'] - 1]
            ck.beyond('timed answers (TimedCache.tla): %s [%s]' % (iss['why'], e['x']),
                      'history seed=%s, query %d: %s' % (t['seed'], iss['at'], ' ; '.join(t['desc'])[:700]))
    ck.notes['timed_cache'] = {'histories': len(traces), 'queries_judged': nq, 'not_explained': bad,
                               'served_from_cache': sum(1 for t in traces for e in t['events'] if e['ok'] and not e['asked']),
                               'failures': sum(1 for t in traces for e in t['events'] if not e['ok'])}
    if nq and not ck.notes['timed_cache']['served_from_cache']:
        raise common.MachineryError('timed histories: no answer was ever served from the cache (the virtual clock is not in effect?)')
