"""C20 - service layer fail-over and cache against spec/ServiceFailover.tla (PlusCal) and spec/ServiceCache.tla.

(M) MC_ServiceFailover: every response assignment x order x limits, invariants Authentic/FirstResponder/Skips/...
(G) ServiceFailoverGen: every terminal behaviour is replayed through bitcoinlib's Service with scripted fake providers
    (no repository hook: providers.json in the fresh data directory + module bitcoinlib.services.vfake) for each
    public query method; observed results / errors / resultcount / call sequence / return value are compared.
(V) cache histories (cold, warm, partially filled) recorded from the real Service + Cache and validated by TLC.
"""
import copy
import json
import os
import sys
import time

from harness import common
from harness.common import Check, tier

PID = 'C20'
PROVS = ['p1', 'p2', 'p3', 'p4']
NETWORKS = ['litecoin', 'bitcoin']
METHODS = ['getbalance', 'getutxos', 'gettransaction', 'gettransactions', 'getrawtransaction', 'sendrawtransaction',
           'estimatefee', 'blockcount', 'getblock', 'getrawblock', 'mempool', 'isspent', 'getinfo']
NOCACHE_INI = "[common]\nservice_caching_enabled = False\nblock_count_cache_time = 100000000\n"


def _setup_fakes(network):
    """providers.json with four fake providers for `network`, module registered under bitcoinlib.services."""
    import bitcoinlib.services
    from harness import vfake
    bitcoinlib.services.vfake = vfake
    d = os.environ['BCL_DATA_DIR']
    provs = {}
    for i, p in enumerate(PROVS):
        provs[p] = {"provider": "vfake", "network": network, "client_class": "FakeClient", "provider_coin_id": "",
                    "url": "fake://" + p, "api_key": "", "priority": 10 - i, "denominator": 100000000,
                    "network_overrides": None, "timeout": 0}
    with open(os.path.join(d, 'providers.json'), 'w') as f:
        json.dump(provs, f)
    return vfake


def _values(vfake, network, txs):
    """Distinct, typed answers per provider and method."""
    for i, p in enumerate(PROVS):
        V = vfake.VALUES
        V[(p, 'getbalance')] = 100000 + i
        V[(p, 'getutxos')] = (lambda i=i: (lambda address, after_txid='', limit=20: [
            {'address': address, 'txid': '%064x' % (0xabc0 + i), 'confirmations': 10, 'output_n': i, 'index': 0,
             'value': 5000 + i, 'script': '', 'block_height': 100, 'fee': 0, 'size': 0, 'input_n': 0, 'date': None}]))()
        V[(p, 'gettransaction')] = txs[i]
        V[(p, 'gettransactions')] = (lambda i=i: (lambda address, after_txid='', limit=20: [txs[i]]))()
        V[(p, 'getrawtransaction')] = txs[i].raw_hex()
        V[(p, 'sendrawtransaction')] = {'txid': '%064x' % (0xdef0 + i), 'response_dict': {'by': p}}
        V[(p, 'estimatefee')] = 20000 + i
        V[(p, 'blockcount')] = 800000 + i
        V[(p, 'getblock')] = {'block_hash': bytes([i + 1]) * 32, 'version': 1, 'prev_block': b'\0' * 32, 'merkle_root': bytes([9]) * 32,
                              'time': 1600000000 + i, 'bits': 0x1d00ffff, 'nonce': i, 'txs': [], 'height': 1000 + i, 'depth': 1,
                              'tx_count': 0}
        V[(p, 'getrawblock')] = '00' * 80 + '%02x' % i
        V[(p, 'mempool')] = ['%064x' % (0x1110 + i)]
        V[(p, 'isspent')] = True
        V[(p, 'getinfo')] = {'blockcount': 800000 + i, 'chain': p, 'difficulty': 1, 'hashrate': 1, 'mempool_size': i}


def _mk_txs(network):
    from bitcoinlib.transactions import Transaction
    from bitcoinlib.keys import Key
    txs = []
    for i in range(len(PROVS)):
        k = Key(1000 + i, network=network)
        t = Transaction(network=network, locktime=500 + i)
        t.add_input(prev_txid=bytes([i + 1]) * 32, output_n=i, keys=k, value=100000)
        t.add_output(90000 + i, k.address())
        t.sign_and_update()
        t.block_height = 100
        t.confirmations = 10
        txs.append(t)
    return txs


def replay_terms(job):
    """Worker: replay terminal behaviours of ServiceFailover through a real Service object, for every method."""
    network, terms = job
    from bitcoinlib.services.services import Service, ServiceError
    vfake = _setup_fakes(network)
    txs = _mk_txs(network)
    _values(vfake, network, txs)
    vfake.SCRIPT.clear()
    srv = Service(network=network, providers=['vfake'], max_providers=1)
    fee_default = srv.network.fee_default
    out = []
    qtx = txs[0].txid
    addr = txs[0].outputs[0].address
    bump = [0]

    def call(m):
        if m == 'getbalance':
            return srv.getbalance([addr])
        if m == 'getutxos':
            return srv.getutxos(addr)
        if m == 'gettransaction':
            return srv.gettransaction(qtx)
        if m == 'gettransactions':
            return srv.gettransactions(addr)
        if m == 'getrawtransaction':
            return srv.getrawtransaction(qtx)
        if m == 'sendrawtransaction':
            return srv.sendrawtransaction(txs[0].raw_hex())
        if m == 'estimatefee':
            return srv.estimatefee(5)
        if m == 'blockcount':
            srv._blockcount_update = 0          # let the cached count expire
            try:
                return srv.blockcount()
            finally:
                srv._blockcount_update = time.time()
        if m == 'getblock':
            return srv.getblock(1000, parse_transactions=False)
        if m == 'getrawblock':
            return srv.getrawblock(1000)
        if m == 'mempool':
            return srv.mempool('')
        if m == 'isspent':
            return srv.isspent(qtx, 0)
        if m == 'getinfo':
            return srv.getinfo()

    def same(m, got, p):
        exp = vfake.VALUES[(p, m)]
        if m == 'getutxos':
            e = exp(addr)
            return isinstance(got, list) and len(got) == 1 and got[0]['txid'] == e[0]['txid'] and got[0]['value'] == e[0]['value'] \
                and got[0]['output_n'] == e[0]['output_n']
        if m == 'gettransactions':
            e = exp(addr)
            return isinstance(got, list) and len(got) == 1 and got[0] is e[0]
        if m == 'gettransaction':
            return got is exp
        if m == 'getblock':
            return hasattr(got, 'block_hash') and got.block_hash == exp['block_hash'] and got.height == exp['height'] \
                and got.nonce == exp['nonce'].to_bytes(4, 'big')
        if m == 'isspent':
            return got is True
        return got == exp

    for term in terms:
        for m in METHODS:
            vfake.SCRIPT.clear()
            for p in PROVS:
                cfg = srv.providers[p]
                if p not in term['resp']:
                    # provider not in this model instance: make it silent and last
                    cfg['url'] = ''
                    cfg['priority'] = -5
                    continue
                kind = term['resp'][p]
                vfake.SCRIPT[p] = kind
                cfg['url'] = '' if kind == 'nourl' else 'fake://' + p
                cfg['api_key'] = 'api-key-needed' if kind == 'needskey' else ''
                cfg['client_class'] = 'FakeClientNoMethods' if kind == 'nomethod' else 'FakeClient'
                cfg['priority'] = 100 - term['order'].index(p)
            srv.max_providers = term['mp']
            srv.max_errors = term['me']
            if m == 'blockcount':
                bump[0] += 10
                for i, p in enumerate(PROVS):
                    vfake.VALUES[(p, 'blockcount')] = 800000 + bump[0] + i
            before_count = srv._blockcount
            del vfake.LOG[:]
            kind, got = 'value', None
            try:
                got = call(m)
            except ServiceError:
                kind = 'error'
            except Exception as e:
                kind = 'exception:%s:%s' % (type(e).__name__, str(e)[:80])
            log = [x for x in vfake.LOG if x[2] in (m, '')]
            inst = [x[1] for x in log if x[0] == 'inst']
            called = [x[1] for x in log if x[0] == 'call']
            obs = {'kind': kind, 'inst': inst, 'called': called, 'results': list(srv.results.keys()),
                   'errors': sorted(srv.errors.keys()), 'rc': srv.resultcount}
            problems = []
            for f in ('inst', 'called', 'results', 'rc'):
                if obs[f] != term[f]:
                    problems.append('%s: observed %s, specification %s' % (f, obs[f], term[f]))
            if obs['errors'] != sorted(term['errors']):
                problems.append('errors: observed %s, specification %s' % (obs['errors'], sorted(term['errors'])))
            for p in srv.results:
                # results hold exactly what the provider answered
                v = vfake.VALUES[(p, m)]
                if not callable(v) and srv.results[p] is not v and srv.results[p] != v:
                    problems.append('results[%s] is not the provider\'s answer' % p)
            view = term['views'][m]
            dev = None
            if view['view'] == 'value':
                if kind != 'value' or not same(m, got, term['retval']):
                    problems.append('return: expected the answer of %s, observed %s %r' % (term['retval'], kind, _short(got)))
            elif view['view'] == 'error':
                if kind != 'error':
                    if view['dev'] and _is_dev(m, got, fee_default):
                        dev = view['dev']
                    problems.append('return: expected ServiceError, observed %s %r' % (kind, _short(got)))
            elif view['view'] == 'fail':
                if not (kind == 'error' or (kind == 'value' and got is False)):
                    if view['dev'] and _is_dev(m, got, fee_default):
                        dev = view['dev']
                    problems.append('return: expected failure (ServiceError or False), observed %s %r' % (kind, _short(got)))
            elif view['view'] == 'cached-or-fail':
                if not (kind == 'error' or (kind == 'value' and (got is False or got == before_count))):
                    problems.append('return: expected failure or the last known count %r, observed %s %r' % (before_count, kind, got))
            if problems:
                only_dev = dev is not None and len(problems) == 1
                out.append({'network': network, 'method': m, 'term': {k: term[k] for k in ('order', 'resp', 'mp', 'me', 'outcome', 'retval')},
                            'obs': obs, 'problems': problems, 'dev': dev if only_dev else None})
    return {'n': len(terms) * len(METHODS), 'bad': out}


# ---------------------------------------------------------------------------------------------
# fail-over traces with equal priorities (V, classic trace specification ServiceFailoverTrace.tla)
# ---------------------------------------------------------------------------------------------
def tie_traces(job):
    """Worker: random response assignments with tied priorities; the order the implementation picks is not logged."""
    import random
    seed, network, n = job
    rng = random.Random(seed)
    from bitcoinlib.services.services import Service, ServiceError
    vfake = _setup_fakes(network)
    txs = _mk_txs(network)
    _values(vfake, network, txs)
    vfake.SCRIPT.clear()
    srv = Service(network=network, providers=['vfake'], max_providers=1)
    kinds = ['ok', 'ok', 'raise', 'raiseattr', 'false', 'nomethod', 'needskey', 'nourl']
    out = []
    for _ in range(n):
        resp = {p: rng.choice(kinds) for p in PROVS}
        prio = {p: rng.choice([0, 1, 1, 2]) for p in PROVS}
        mp, me = rng.choice([1, 1, 2, 3]), rng.choice([1, 2, 3, 4])
        m = rng.choice(['getrawtransaction', 'sendrawtransaction', 'mempool', 'getinfo', 'getrawblock'])
        vfake.SCRIPT.clear()
        for p in PROVS:
            cfg = srv.providers[p]
            vfake.SCRIPT[p] = resp[p]
            cfg['url'] = '' if resp[p] == 'nourl' else 'fake://' + p
            cfg['api_key'] = 'api-key-needed' if resp[p] == 'needskey' else ''
            cfg['client_class'] = 'FakeClientNoMethods' if resp[p] == 'nomethod' else 'FakeClient'
            cfg['priority'] = prio[p]
        srv.max_providers, srv.max_errors = mp, me
        del vfake.LOG[:]
        outcome, retval = 'none', 'none'
        try:
            if m == 'getrawtransaction':
                got = srv.getrawtransaction(txs[0].txid)
            elif m == 'sendrawtransaction':
                got = srv.sendrawtransaction(txs[0].raw_hex())
            elif m == 'mempool':
                got = srv.mempool('')
            elif m == 'getinfo':
                got = srv.getinfo()
            else:
                got = srv.getrawblock(1000)
            if got is False:
                outcome = 'false'
            else:
                outcome = 'return'
                retval = next((p for p in PROVS if vfake.VALUES[(p, m)] == got), 'nobody')
        except ServiceError:
            outcome = 'raise'
        except Exception as e:          # any other exception is an observation, never a harness failure
            outcome = 'exception-%s' % type(e).__name__
        ev = [{'k': x[0], 'p': x[1]} for x in vfake.LOG if x[2] in (m, '')]
        out.append({'resp': resp, 'prio': prio, 'mp': mp, 'me': me, 'ev': ev, 'method': m,
                    'fin': {'outcome': outcome, 'retval': retval, 'results': list(srv.results.keys()),
                            'errors': sorted(srv.errors.keys()), 'rc': srv.resultcount}})
    return out


# ---------------------------------------------------------------------------------------------
# cache histories (V)
# ---------------------------------------------------------------------------------------------
NB = 5          # transactions in the block (ServiceCacheEval.cfg: NBlock = 5)
HEIGHT = 650000


def _fp(t):
    return (t.txid, t.raw_hex(), tuple(i.value for i in t.inputs), tuple((o.value, o.address) for o in t.outputs),
            t.locktime, t.version_int)


def _fp_light(t):
    return (t.txid, t.raw_hex(), tuple((o.value, o.address) for o in t.outputs), t.locktime, t.version_int)


def cache_history(job):
    """Worker: run one random history of queries against a real Service with a fresh sqlite cache and one scripted
    provider; return the recorded trace."""
    import random
    import tempfile
    from datetime import datetime, timezone
    seed, network, nops = job
    rng = random.Random(seed)
    from bitcoinlib.services.services import Service, ServiceError
    from bitcoinlib.transactions import Transaction
    from bitcoinlib.keys import Key
    vfake = _setup_fakes(network)
    vfake.SCRIPT.clear()
    wt = rng.choice(['legacy', 'segwit', 'p2sh-segwit'])

    def mk(i, height):
        k = Key(5000 + seed % 1000 + i, network=network)
        t = Transaction(network=network, locktime=rng.choice([0, 0, 500000 + i]),
                        witness_type='legacy' if wt == 'legacy' else 'segwit')
        t.add_input(prev_txid=bytes([i + 1, seed % 251]) * 16, output_n=i, keys=k, value=100000 + i, witness_type=wt,
                    sequence=rng.choice([0xffffffff, 0xfffffffd]))
        t.add_output(60000 + i, k.address())
        if rng.random() < 0.5:
            t.add_output(30000 - i, Key(7000 + i, network=network).address())
        t.sign_and_update()
        t.block_height = height
        t.confirmations = 100
        t.status = 'confirmed'
        t.date = datetime.fromtimestamp(1601000000 + i, timezone.utc)
        t.update_totals()
        t.size = len(t.raw())
        t.calc_weight_units()
        return t

    def mk_to(i, height, dest, with_value=True):
        k = Key(9000 + seed % 1000 + i, network=network)
        t = Transaction(network=network, witness_type='legacy' if wt == 'legacy' else 'segwit')
        t.add_input(prev_txid=bytes([i + 1, (seed + 3) % 251]) * 16, output_n=i % 3, keys=k, value=200000 + i, witness_type=wt)
        t.add_output(150000 + i, dest)
        t.sign_and_update()
        if not with_value:
            t.inputs[0].value = 0            # a transaction the cache refuses to store (input value unknown)
        t.block_height = height
        t.confirmations = HEIGHT + 99 - height + 1
        t.status = 'confirmed'
        t.date = datetime.fromtimestamp(1602000000 + i, timezone.utc)
        t.update_totals()
        t.size = len(t.raw())
        t.calc_weight_units()
        return t

    singles = {('t', i): mk(i, HEIGHT - 10 - i) for i in (1, 2, 3)}
    # address histories: a1 has an ordinary history, a2 ends with a transaction in the tip block that the cache cannot store
    addrs = {'a1': Key(7701 + seed % 97, network=network).address(), 'a2': Key(7801 + seed % 97, network=network).address(),
             'a3': Key(7901 + seed % 97, network=network).address()}
    # a3: three transactions in ONE block and a later one (incremental queries "after txid" inside a block)
    hist = {'a1': [mk_to(40, HEIGHT - 5, addrs['a1']), mk_to(41, HEIGHT - 2, addrs['a1'])],
            'a2': [mk_to(50, HEIGHT - 7, addrs['a2']), mk_to(51, HEIGHT + 99, addrs['a2'], with_value=rng.random() < 0.4)],
            'a3': [mk_to(60, HEIGHT - 6, addrs['a3']), mk_to(61, HEIGHT - 6, addrs['a3']), mk_to(62, HEIGHT - 6, addrs['a3']),
                   mk_to(63, HEIGHT - 1, addrs['a3'])]}
    hid = {}
    for a, l in hist.items():
        for n, t in enumerate(l):
            hid[t.txid] = ('h', 10 * int(a[1]) + n)
    # the (static) truth about unspent outputs, balances and spent flags
    utruth = {a: [{'address': addrs[a], 'txid': t.txid, 'confirmations': t.confirmations, 'output_n': 0, 'input_n': 0,
                   'block_height': t.block_height, 'fee': t.fee, 'size': t.size, 'value': t.outputs[0].value, 'script': '', 'date': t.date}
                  for t in l] for a, l in hist.items()}
    btruth = {a: sum(u['value'] for u in l) for a, l in utruth.items()}
    spent_truth = {(singles[('t', 1)].txid, 0), (singles[('t', 3)].txid, 0)}
    for k in (('t', 1), ('t', 3)):
        singles[k].outputs[0].spent = True      # what a provider answers in full is consistent with its isspent answers
    btxs = {('b', i): mk(20 + i, HEIGHT) for i in range(NB)}
    allt = dict(singles)
    allt.update(btxs)
    # the transactions of the address histories can also be asked for one by one; delivered that way their outputs carry no
    # spent information (spent=None, as clients without an address index deliver them)
    hsingle = {}
    for a, l in hist.items():
        for t in l:
            c = copy.deepcopy(t)
            for o in c.outputs:
                o.spent = None
            hsingle[hid[t.txid]] = c
    allt.update(hsingle)
    fps = {_fp(t): k for k, t in allt.items()}
    bytxid = {t.txid: k for k, t in allt.items()}
    feec = [0]
    V = vfake.VALUES
    for p in PROVS:
        V[(p, 'blockcount')] = HEIGHT + 99
        V[(p, 'gettransaction')] = lambda txid: allt[bytxid[txid]]
        V[(p, 'getrawtransaction')] = lambda txid: allt[bytxid[txid]].raw_hex()
        V[(p, 'estimatefee')] = lambda blocks: 20000 + feec[0]

        def gettransactions(address, after_txid='', limit=20):
            l = next(h for a, h in hist.items() if addrs[a] == address)
            ids = [t.txid for t in l]
            if after_txid and after_txid in ids:
                l = l[ids.index(after_txid) + 1:]
            return list(l[:limit])
        V[(p, 'gettransactions')] = gettransactions

        def getblock(blockid, parse_transactions, page, limit):
            txs = [btxs[('b', i)] for i in range(NB)][(page - 1) * limit:page * limit]
            return {'bits': 386798414, 'depth': 100, 'block_hash': bytes([7]) * 32, 'height': HEIGHT,
                    'merkle_root': bytes([8]) * 32, 'nonce': 12345, 'prev_block': bytes([6]) * 32, 'time': 1601000000,
                    'tx_count': NB, 'txs': txs if parse_transactions else [t.txid for t in txs], 'version': 0x20000000,
                    'page': page, 'pages': None, 'limit': limit}
        V[(p, 'getblock')] = getblock

        def getutxos(address, after_txid='', limit=20):
            a = next(x for x, v in addrs.items() if v == address)
            l = [u for u in utruth[a]]
            ids = [u['txid'] for u in l]
            if after_txid and after_txid in ids:
                l = l[ids.index(after_txid) + 1:]
            return [dict(u) for u in l[:limit]]
        V[(p, 'getutxos')] = getutxos
        V[(p, 'getbalance')] = lambda addresslist: sum(btruth[next(x for x, v in addrs.items() if v == ad)] for ad in addresslist)
        V[(p, 'isspent')] = lambda txid, output_n: 1 if (txid, output_n) in spent_truth else 0      # as the real clients answer
    dbf = os.path.join(tempfile.mkdtemp(prefix='cache_', dir=os.environ['BCL_DATA_DIR']), 'cache.sqlite')
    srv = Service(network=network, providers=['vfake'], cache_uri='sqlite:///' + dbf)
    fee_default = srv.network.fee_default
    for p in PROVS[1:]:
        srv.providers[p]['url'] = ''          # one provider: "ok" or "fail" is the whole fail-over outcome
    events = []
    desc = []
    if srv._blockcount:
        # the constructor has asked the provider for the block count
        events.append({'op': 'count', 'prov': 'ok', 'ok': True, 'val': HEIGHT + 99, 'ret': int(srv._blockcount)})
        desc.append('Service(): blockcount() prov=ok')
    # some histories start with: newest transaction of an address asked for alone, its unspent outputs, an older transaction
    # asked for alone (cached without spent information), the unspent outputs again
    plan = []
    if rng.random() < 0.3:
        pa = rng.choice(['a1', 'a2'])
        plan = rng.choice([[('txs', 'a3', 0), ('txs', 'a3', 1), ('txs', 'a3', 2), ('txs', 'a3', 3)],
                           [('tx', hid[hist[pa][1].txid]), ('utxos', pa), ('tx', hid[hist[pa][0].txid]), ('utxos', pa)],
                           [('tx', hid[hist[pa][1].txid]), ('utxos', pa), ('utxos', pa), ('txs', pa)],
                           [('tx', hid[hist[pa][1].txid]), ('balance', pa), ('txs', pa), ('utxos', pa)]])
    for step in range(nops):
        prov = rng.choice(['ok', 'ok', 'fail'])
        forced = plan[step] if step < len(plan) else None
        if forced:
            prov = 'ok'
        vfake.SCRIPT['p1'] = 'ok' if prov == 'ok' else 'raise'
        op = forced[0] if forced else rng.choice(['tx', 'raw', 'block', 'block', 'block', 'fee', 'txs', 'txs', 'utxos', 'utxos', 'balance', 'isspent', 'isspent', 'count'])
        ev = {'op': op, 'prov': prov, 'ok': True}
        d = [op]
        try:
            if op in ('tx', 'raw'):
                k = forced[1] if forced else rng.choice(sorted(allt))
                ev['t'] = list(k)
                d[0] = '%s(%s) prov=%s' % (op, k, prov)
                r = srv.gettransaction(allt[k].txid) if op == 'tx' else srv.getrawtransaction(allt[k].txid)
                if r is False or r is None:
                    ev['ok'] = False
                    ev['ret'] = ['none', 0]
                elif op == 'tx':
                    ev['ret'] = list(fps.get(_fp(r), ('corrupt', 0)))
                else:
                    ev['ret'] = list(next((kk for kk, t in allt.items() if t.raw_hex() == r), ('corrupt', 0)))
            elif op == 'txs':
                a = forced[1] if forced else rng.choice(['a1', 'a2', 'a2', 'a3', 'a3'])
                k = (forced[2] if forced and len(forced) > 2 else rng.choice([0, 0] + list(range(len(hist[a])))))
                ev['a'] = a
                ev['after'] = k
                ev['full'] = [list(hid[t.txid]) for t in hist[a][k:]]
                if k:
                    ev['sameblock'] = [list(hid[t.txid]) for t in hist[a] if t.block_height == hist[a][k - 1].block_height]
                d[0] = 'gettransactions(%s%s) prov=%s' % (a, (', after its transaction number %d' % k) if k else '', prov)
                r = srv.gettransactions(addrs[a], after_txid=hist[a][k - 1].txid) if k else srv.gettransactions(addrs[a])
                if r is False or r is None:
                    ev['ok'] = False
                    ev['ret'] = []
                else:
                    ev['ret'] = [list(hid.get(t.txid, ('corrupt', n))) if _fp_light(t) == _fp_light(next((x for x in hist[a] if x.txid == t.txid), t))
                                 else ['corrupt', n] for n, t in enumerate(r)]
            elif op == 'utxos':
                a = forced[1] if forced else rng.choice(['a1', 'a2', 'a3'])
                ev['a'] = a
                ev['full'] = [list(hid[u['txid']]) + [u['output_n'], u['value']] for u in utruth[a]]
                d[0] = 'getutxos(%s) prov=%s' % (a, prov)
                r = srv.getutxos(addrs[a])
                if r is False or r is None:
                    ev['ok'] = False
                    ev['ret'] = []
                else:
                    ev['ret'] = [list(hid.get(u['txid'], ('corrupt', n))) + [u['output_n'], u['value']] for n, u in enumerate(r)]
            elif op == 'balance':
                al = [forced[1]] if forced else rng.choice([['a1'], ['a2'], ['a3'], ['a1', 'a2'], ['a2', 'a1'], ['a3', 'a1']])
                ev['as'] = al
                ev['val'] = sum(btruth[a] for a in al)
                d[0] = 'getbalance(%s) prov=%s' % (al, prov)
                r = srv.getbalance([addrs[a] for a in al])
                if r is False or r is None:
                    ev['ok'] = False
                    ev['ret'] = 0
                else:
                    ev['ret'] = int(r)
            elif op == 'isspent':
                k = rng.choice([('t', 1), ('t', 2), ('t', 3)])
                n = rng.choice([0, 0, 1])
                ev.update({'t': '%s%d' % k, 'n': n, 'truth': (singles[k].txid, n) in spent_truth})
                d[0] = 'isspent(%s, %d) prov=%s' % (k, n, prov)
                r = srv.isspent(singles[k].txid, n)
                if r is None:
                    ev['ok'] = False
                    ev['ret'] = False
                else:
                    ev['ret'] = bool(r)
            elif op == 'count':
                ev['val'] = HEIGHT + 99
                d[0] = 'blockcount() prov=%s' % prov
                r = srv.blockcount()
                if r is False or r is None:
                    ev['ok'] = False
                    ev['ret'] = 0
                else:
                    ev['ret'] = int(r)
            elif op == 'block':
                limit = rng.choice([1, 2, 3, 4, 5, 6])
                page = rng.randrange(1, (NB + limit - 1) // limit + 1)
                parse = rng.random() < 0.7
                ev.update({'page': page, 'limit': limit, 'parse': parse})
                d[0] = 'getblock(page=%d, limit=%d, parse=%s) prov=%s' % (page, limit, parse, prov)
                b = srv.getblock(HEIGHT, parse_transactions=parse, page=page, limit=limit)
                if b is False or b is None:
                    ev['ok'] = False
                    ev['ret'] = []
                else:
                    ret = []
                    for n, t in enumerate(b.transactions):
                        if isinstance(t, str):
                            ret.append(list(bytxid.get(t, ('corrupt', n))))
                        else:
                            ret.append(list(fps.get(_fp(t), ('corrupt', n))))
                    ev['ret'] = ret
            else:
                g, blocks = rng.choice([('high', 1), ('medium', 5), ('low', 25)])
                feec[0] += 1
                ev.update({'g': g, 'pval': 20000 + feec[0], 'default': fee_default if fee_default else 0})
                d[0] = 'estimatefee(%s) prov=%s' % (g, prov)
                r = srv.estimatefee(blocks)
                if r is False or r is None:
                    ev['ok'] = False
                    ev['ret'] = 0
                else:
                    ev['ret'] = r
        except ServiceError:
            ev['ok'] = False
            ev.setdefault('ret', ['none', 0] if op in ('tx', 'raw') else ([] if op in ('block', 'txs', 'utxos') else (False if op == 'isspent' else 0)))
        except Exception as e:
            ev['ok'] = True
            ev['ret'] = ['exception', 0] if op in ('tx', 'raw') else ([['exception', 0]] if op in ('block', 'txs') else
                                                                      ([['exception', 0, 0, 0]] if op == 'utxos' else (ev.get('truth') is False if op == 'isspent' else -1)))
            d[0] += ' EXC %s: %s' % (type(e).__name__, str(e)[:100])
        desc.append(d[0])
        events.append(ev)
    return {'id': seed, 'network': network, 'witness_type': wt, 'events': events, 'desc': desc}


def _short(x):
    s = repr(x)
    return s[:120]


def _is_dev(m, got, fee_default):
    if m == 'estimatefee':
        return fee_default is not None and got == fee_default
    if m == 'getbalance':
        return got == 0 and got is not False
    if m == 'isspent':
        return got is False
    return False


def run(replay=None):
    ck = Check(PID)
    thorough = tier() == 'thorough'
    ck.rule = ('one case = (terminal behaviour of ServiceFailover: response assignment x provider order x max_providers x '
               'max_errors) x query method x network, replayed through bitcoinlib.services.Service with scripted providers; '
               'class = (sorted multiset of responses, outcome, method); cache histories = 6-12 random queries (gettransaction, '
               'getrawtransaction, getblock pages, gettransactions, getutxos, getbalance, isspent, blockcount, estimatefee) with the '
               'provider answering or failing, against one sqlite cache in a static world; class = (query, provider, outcome, page limit)')
    ck.assumptions = ['fake providers injected via providers.json and bitcoinlib.services.vfake stand for real provider clients',
                      'provider order is fixed by distinct priorities in the exhaustive replay; ties are covered by trace validation',
                      'a False return is accepted as failure where False cannot be a provider answer (see DESIGN C20)',
                      'cache histories: the truth does not change during a history, so every answer served from the cache must equal '
                      'what a provider answered before; fake isspent answers 1/0 like the real clients']
    ck.model(common.model_check('ServiceFailover', 'MC_ServiceFailover_thorough.cfg' if thorough else 'MC_ServiceFailover.cfg',
                                expect_actions=['Iter', 'Exit']))
    # (G) terminal behaviours
    if replay:
        terms = [replay['case']['term_full']] if 'term_full' in replay['case'] else []
    else:
        rc, out = common.run_tlc('ServiceFailoverGen', 'ServiceFailoverGen_thorough.cfg' if thorough else 'ServiceFailoverGen.cfg',
                                 workers=1, timeout=3000)
        terms = common.tlc_printed(out, 'TERM')
        if rc != 0 or not terms:
            raise common.MachineryError('generation of terminal behaviours failed:\n' + out[-3000:])
    ck.notes['terminal_behaviours'] = len(terms)
    jobs = []
    nchunk = 16
    for ni, network in enumerate(NETWORKS):
        sel = terms if (thorough or replay) else terms[ni::len(NETWORKS)]
        for c in range(nchunk):
            part = sel[c::nchunk]
            if part:
                jobs.append((network, part))
    res = common.pmap(replay_terms, jobs, config_ini=NOCACHE_INI)
    index = {json.dumps({k: t[k] for k in ('order', 'resp', 'mp', 'me')}, sort_keys=True): t for t in terms}
    for (network, part), r in zip(jobs, res):
        ck.count(r['n'])
        ck.traces += len(part)
        for t in part:
            for m in METHODS:
                ck.distinct.add((tuple(sorted(t['resp'].values())), t['outcome'], m))
        for b in r['bad']:
            full = index.get(json.dumps({k: b['term'][k] for k in ('order', 'resp', 'mp', 'me')}, sort_keys=True))
            ck.violation(b['dev'], 'clause %s-%s; %s.%s with %s: %s' % (
                b['method'], b['problems'][0].split(':')[0], b['network'], b['method'], json.dumps(b['term'], sort_keys=True),
                '; '.join(b['problems'])),
                         {'term_full': full, 'method': b['method'], 'network': b['network'], 'obs': b['obs']})
    # (G) the same terminal behaviours one level lower: real client classes over a scripted HTTP layer (spec/Transport.tla)
    from harness import c20http
    if not replay or 'http' in replay['case']:
        real = common.tlc_eval('TransportEval', [{'k': 'realizations'}])[0]
        if not (real['ok'] and real['raise'] and real['emptyish'] and real['malformed']):
            raise common.MachineryError('Transport.tla: a response kind has no realization: %r' % {k: len(v) for k, v in real.items()})
        if replay:
            rcase = replay['case']['http']
            hterms = common.tlc_printed(common.run_tlc('ServiceFailoverGen', 'ServiceFailoverGen.cfg', workers=1, timeout=3000)[1], 'TERM')
        else:
            hterms = terms
        hsel = [t for t in hterms if set(t['resp'].values()) <= {'ok', 'raise'}]
        hindex = {c20http.term_key(t): t for t in hsel}
        hjobs = []
        if replay:
            part = [hindex[k] for k in rcase['slice']]
            hjobs = [(rcase['network'], rcase['client'], part, hindex, real, rcase['seed'], rcase['mode'])]
        else:
            nch = 8
            for ci, client in enumerate(sorted(c20http.CLIENTS)):
                for mode in ('exact', 'emptyish', 'malformed'):
                    s2 = [t for t in hsel if mode == 'exact' or t['me'] == max(x['me'] for x in hsel)]
                    if not thorough:
                        s2 = s2[(ci + common.seed()) % 2::2]
                    for c in range(nch):
                        part = s2[c::nch]
                        if part:
                            hjobs.append(('bitcoin', client, part, hindex if mode == 'malformed' else {}, real,
                                          common.seed() * 1000 + 10 * c + ci, mode))
        hres = common.pmap(c20http.replay_http, hjobs, config_ini=c20http.NOCACHE_INI)
        nh = 0
        for job, r in zip(hjobs, hres):
            if r.get('setup_error'):
                raise common.MachineryError('transport replay: ' + r['setup_error'])
            ck.count(r['n'])
            nh += r['n']
            ck.traces += len(job[2])
            for t in job[2]:
                for m in c20http.METHODS:
                    ck.distinct.add(('http', job[1], job[6], tuple(sorted(t['resp'].values())), t['outcome'], m))
            for b in r['bad']:
                key = b['dev']
                x = b['taken_for_answer']
                if key is None and x and x['body'] in ('empty', 'null'):
                    key = 'delivered-empty-response-taken-as-answer'
                elif key is None and b['method'] == 'blockcount' and b['obs']['kind'].startswith('exception:') and b['mode'] == 'malformed':
                    key = 'blockcount-non-number-aborts-failover'
                ck.violation(key, 'clause http-%s-%s; %s client, %s with %s; exchanges %s: %s' % (
                    b['method'], b['problems'][0].split(':')[0], b['client'], b['method'], json.dumps(b['term'], sort_keys=True),
                    json.dumps(b['exchanges'], sort_keys=True), '; '.join(b['problems'])),
                    {'http': {'network': b['network'], 'client': b['client'], 'mode': b['mode'], 'seed': job[5], 'term': b['term'],
                              'slice': [c20http.term_key(t) for t in job[2]]}, 'method': b['method'], 'obs': b['obs']})
        ck.notes['http_transport_queries'] = nh
        ck.notes['http_exchange_realizations'] = {k: len(v) for k, v in real.items()}
        if not replay and nh == 0:
            raise common.MachineryError('transport replay performed no query')
    # (V) traces with tied priorities against the classic trace specification
    if not replay:
        import tempfile
        tjobs = [(common.seed() + 7000 + i, NETWORKS[i % 2], 250 if thorough else 40) for i in range(16)]
        ttraces = [t for part in common.pmap(tie_traces, tjobs, config_ini=NOCACHE_INI) for t in part]
        tf = os.path.join(tempfile.mkdtemp(prefix='tie_', dir=common.scratch()), 'traces.ndjson')
        with open(tf, 'w') as f:
            for t in ttraces:
                f.write(json.dumps({k: t[k] for k in ('resp', 'prio', 'mp', 'me', 'ev', 'fin')}) + '\n')
        rc, out = common.run_tlc('ServiceFailoverTrace', 'ServiceFailoverTrace.cfg', env={'TRACE_FILE': tf}, workers=1, timeout=1800)
        if rc != 0 or 'Model checking completed' not in out:
            raise common.MachineryError('trace validation run failed:\n' + out[-3000:])
        st = common.tlc_stats(out)
        st.update({'module': 'ServiceFailoverTrace', 'cfg': 'ServiceFailoverTrace.cfg'})
        ck.model(st)
        accepted = {a['tid'] for a in common.tlc_printed(out, 'ACCEPT')}
        for i, t in enumerate(ttraces):
            ck.traces += 1
            ck.case(('tie', tuple(sorted(t['resp'].values())), tuple(sorted(t['prio'].values())), t['fin']['outcome']))
            if i + 1 not in accepted:
                ck.violation(None, 'clause tie-trace-rejected; %s on a Service with responses %s, priorities %s, max_providers=%d, max_errors=%d: '
                             'logged %s, ended %s - no behaviour of ServiceFailover with an order consistent with the priorities explains it'
                             % (t['method'], t['resp'], t['prio'], t['mp'], t['me'], [(e['k'], e['p']) for e in t['ev']], t['fin']),
                             {'tie': {k: t[k] for k in ('resp', 'prio', 'mp', 'me', 'method')}})
        ck.notes['tie_traces'] = len(ttraces)
        if not accepted:
            raise common.MachineryError('no tie trace was accepted: trace validation is vacuous')
    # (V) cache histories validated by TLC against ServiceCache.tla
    ck.model(common.model_check('MC_ServiceCache', 'MC_ServiceCache_thorough.cfg' if thorough else 'MC_ServiceCache.cfg',
                                expect_actions=['Next']))
    if replay and 'history' in replay['case']:
        hjobs = [tuple(replay['case']['history'])]
    elif replay:
        hjobs = []
    else:
        nh = 3000 if thorough else 320
        hjobs = [(common.seed() % 100000 + i, NETWORKS[i % 2], 6 + i % 7) for i in range(nh)]
    traces = common.pmap(cache_history, hjobs, chunksize=4)
    verdicts = common.tlc_eval('ServiceCacheEval', [{'events': t['events']} for t in traces], cfg='ServiceCacheEval.cfg')
    for job, t, v in zip(hjobs, traces, verdicts):
        ck.traces += 1
        ck.count(len(t['events']))
        for e in t['events']:
            ck.distinct.add(('cache', e['op'], e['prov'], e['ok'], e.get('limit')))
        for d in v['devs']:
            ck.violation(d, 'clause cache-%s; history %s on %s' % (d, t['id'], t['network']))
        if v['v'] != 'ok':
            i = v['at'] - 1
            ck.violation(None, 'clause cache-event-not-allowed; history seed=%s %s/%s: event %d %s returned %s; no behaviour of '
                         'ServiceCache explains it (earlier events: %s)' % (
                             t['id'], t['network'], t['witness_type'], v['at'], t['desc'][i] if i < len(t['desc']) else '?',
                             json.dumps(t['events'][i]), '; '.join(t['desc'][:i])), {'history': list(job)})
    if not replay:
        # specification growth beyond the listed property: answers kept for a limited time, with a virtual clock (TimedCache.tla)
        from harness import timedcache
        timedcache.run_section(ck, thorough)
    if traces:
        ck.sample({'cache_history': traces[0]['desc'], 'events': traces[0]['events'][:3]})
    ck.notes['cache_histories'] = len(traces)
    for t in terms[:2] + terms[len(terms) // 2:len(terms) // 2 + 2]:
        ck.sample({k: t[k] for k in ('order', 'resp', 'mp', 'me', 'called', 'results', 'errors', 'outcome', 'retval')})
    return ck.finish()
