"""C01 - the digests bitcoinlib signs and checks against spec/SigHash.tla (legacy and BIP143 preimages).

(M) MC_SigHash: all pairs of input kinds x single-field mutations; the digest term changes exactly for committed fields.
(G) transaction shapes (1..3 inputs, every mix of kinds, signed index, output counts across the CompactSize boundary,
    extreme values / sequences / versions / locktimes, all networks): TLC builds the digest *term* of every input from the
    fields; the harness evaluates the term with the reference hash and compares with
      1. Transaction.signature_hash(i) of the transaction built through the API,
      2. every signature produced by Transaction.sign (verified with the reference ECDSA over the spec's digest),
      3. signature_hash(i) of the transaction re-parsed from raw() (with input values restored),
      4. a transaction obtained by parsing the spec's own serialization of the signed transaction.
"""
import logging

from harness import common, ref
from harness.c19 import der_sig
from harness.common import Check, blist, tier

PID = 'C01'
KINDS = ['p2pkh', 'p2pk', 'p2sh-multisig', 'p2wpkh', 'p2sh-p2wpkh', 'p2wsh-multisig', 'p2sh-p2wsh-multisig']
SEGWIT = {'p2wpkh', 'p2sh-p2wpkh', 'p2wsh-multisig', 'p2sh-p2wsh-multisig'}
NETWORKS = ['bitcoin', 'testnet', 'litecoin', 'regtest', 'testnet4', 'signet', 'litecoin_testnet', 'litecoin_legacy',
            'dogecoin', 'dogecoin_testnet', 'bitcoinlib_test']


def le(n, w):
    return n.to_bytes(w, 'little')


def eval_term(t):
    if t['t'] == 'b':
        return bytes(t['b'])
    if t['t'] == 'cat':
        return b''.join(eval_term(x) for x in t['s'])
    if t['t'] == 'h' and t['f'] == 'sha256d':
        return ref.sha256d(eval_term(t['s'][0]))
    raise common.MachineryError('unknown term %r' % (t.get('t'),))


HASH_TYPES = [2, 3, 0x81, 0x82, 0x83]
NONMINIMAL = {
    'pushdata1-20': lambda idx: b'\x6a\x4c\x14' + bytes([idx % 256]) * 20,
    'pushdata2-4': lambda idx: b'\x6a\x4d\x04\x00' + idx.to_bytes(4, 'big'),
    'push-of-small-number': lambda idx: b'\x6a\x01' + bytes([1 + idx % 16]),
    # lengths at the CompactSize boundary 0xffff (the script length is part of both preimages)
    'data65534': lambda idx: b'\x6a\x4d' + (65530).to_bytes(2, 'little') + bytes([idx % 251]) * 65530,
    'data65535': lambda idx: b'\x6a\x4d' + (65531).to_bytes(2, 'little') + bytes([idx % 251]) * 65531,
    'data65536': lambda idx: b'\x6a\x4d' + (65532).to_bytes(2, 'little') + bytes([idx % 251]) * 65532,
}


def gen_shapes(ck, thorough):
    rng = ck.rng
    shapes = []
    mns = [(1, 1), (1, 2), (2, 3), (3, 3), (2, 2)] + ([(1, 15), (15, 15), (8, 15)] if thorough else [(1, 15)])
    values = [1, 546, 10 ** 8, 2 ** 32 - 1, 2 ** 32, 2 ** 32 + 12345, 21 * 10 ** 14]
    seqs = [0xffffffff, 0xfffffffd, 0xfffffffe, 0, 1, (1 << 22) | 7]
    versions = [1, 2, 0x80000002 - 2 ** 32 if False else 2, 1]
    locktimes = [0, 1, 499999999, 500000000, 1700000000, 0xfffffffe]

    def mk(kinds, nout, net):
        ins = []
        for kind in kinds:
            m, n = rng.choice(mns) if 'multisig' in kind else (1, 1)
            compressed = True if kind in SEGWIT else rng.random() < 0.7
            ins.append({'kind': kind, 'm': m, 'privs': [rng.randrange(1, ref.N) for _ in range(n)], 'compressed': compressed,
                        'with_lock': rng.random() < 0.35, 'no_value': kind in SEGWIT and rng.random() < 0.06,
                        # the caller names the spent output's address and, beside it, the transaction's default witness type
                        # (as a wallet does for an output it has no record of): the address says what kind of output it is
                        'addr_and_default_wt': kind == 'p2pkh' and rng.random() < 0.4,
                        # the keys of a multisig input are handed over in any order with sort=True (BIP67): the script is
                        # the one over the sorted keys
                        'sort': 'multisig' in kind and rng.random() < 0.3,
                        'txid': bytes(rng.randrange(256) for _ in range(32)), 'vout': rng.choice([0, 1, 2, 255, 256, 70000]),
                        'amount': rng.choice(values), 'seq': rng.choice(seqs)})
        outs = []
        for _ in range(nout):
            outs.append({'value': rng.choice([0, 1, 546, 2 ** 32, 2 ** 32 + 7, 10 ** 6]),
                         'kind': rng.choice(['p2pkh', 'p2sh', 'p2wpkh', 'p2wsh', 'nulldata', 'op1', 'pushdata1-20', 'pushdata2-4',
                                             'push-of-small-number'])})
        return {'net': net, 'version': rng.choice(versions), 'locktime': rng.choice(locktimes), 'ins': ins, 'outs': outs}
    n = 0
    for k in KINDS:                                       # one input of every kind
        for nout in (1, 2):
            shapes.append(mk([k], nout, NETWORKS[n % len(NETWORKS)]))
            n += 1
    for a in KINDS:                                       # all ordered pairs
        for b in KINDS:
            shapes.append(mk([a, b], rng.choice([1, 2, 3]), NETWORKS[n % len(NETWORKS)]))
            n += 1
    for _ in range(600 if thorough else 150):            # triples and quadruples
        shapes.append(mk([rng.choice(KINDS) for _ in range(rng.choice([3, 3, 4]))], rng.choice([1, 2, 3]), NETWORKS[n % len(NETWORKS)]))
        n += 1
    for nout in (252, 253) + ((254,) if thorough else ()):      # output counts across the CompactSize boundary
        for k in ('p2pkh', 'p2wpkh', 'p2sh-multisig'):
            shapes.append(mk([k, rng.choice(KINDS)], nout, NETWORKS[n % len(NETWORKS)]))
            n += 1
    for big in ('data65535', 'data65534') + (('data65536',) if thorough else ()):      # script length at the 0xffff boundary
        for k in ('p2pkh', 'p2wpkh'):
            sh = mk([k], 1, NETWORKS[n % len(NETWORKS)])
            sh['outs'].append({'value': 0, 'kind': big})
            shapes.append(sh)
            n += 1
    return shapes


def run_shape(job):
    """Worker: build the shape through the API; return fields for the spec and the library's observations."""
    import random
    logging.disable(logging.CRITICAL)
    from bitcoinlib.transactions import Transaction, Input
    from bitcoinlib.keys import Key
    idx, sh = job
    net = sh['net']
    rng = random.Random(idx)
    segwit_ok = net not in ('dogecoin', 'dogecoin_testnet', 'litecoin_legacy')
    ins = sh['ins']
    if not segwit_ok:
        for i in ins:
            if i['kind'] in SEGWIT:
                i['kind'] = {'p2wpkh': 'p2pkh', 'p2sh-p2wpkh': 'p2pkh'}.get(i['kind'], 'p2sh-multisig')
    anyseg = any(i['kind'] in SEGWIT for i in ins)
    out = {'idx': idx, 'error': None}
    try:
        t = Transaction(network=net, version=sh['version'], locktime=sh['locktime'], witness_type='segwit' if anyseg else 'legacy')
        keyobjs = []
        for i in ins:
            ks = [Key(p, network=net, compressed=i['compressed']) for p in i['privs']]
            keyobjs.append(ks)
            kind = i['kind']
            wt = 'legacy' if kind not in SEGWIT else ('p2sh-segwit' if kind.startswith('p2sh-') else 'segwit')
            common_args = dict(prev_txid=i['txid'], output_n=i['vout'], value=i['amount'], sequence=i['seq'], witness_type=wt)
            if i.get('sort') and len(ks) > 1:
                common_args['sort'] = True
                keyobjs[-1] = ks = sorted(ks, key=lambda k: k.public_byte)       # the order the script has
            if i.get('no_value'):
                common_args['value'] = 0          # the amount of the spent output is not known to the library
            if i.get('with_lock'):
                # the scriptPubKey of the output being spent, as a caller building from UTXO data would pass it
                pubs_ = [k.public_byte for k in ks]
                ms = bytes([80 + i['m']]) + b''.join(bytes([len(p)]) + p for p in pubs_) + bytes([80 + len(pubs_), 174])
                pkh = ref.hash160(pubs_[0])
                spk = {'p2pkh': b'\x76\xa9\x14' + pkh + b'\x88\xac', 'p2pk': bytes([len(pubs_[0])]) + pubs_[0] + b'\xac',
                       'p2wpkh': b'\x00\x14' + pkh, 'p2sh-p2wpkh': b'\xa9\x14' + ref.hash160(b'\x00\x14' + pkh) + b'\x87',
                       'p2sh-multisig': b'\xa9\x14' + ref.hash160(ms) + b'\x87', 'p2wsh-multisig': b'\x00\x20' + ref.sha256(ms),
                       'p2sh-p2wsh-multisig': b'\xa9\x14' + ref.hash160(b'\x00\x20' + ref.sha256(ms)) + b'\x87'}[kind]
                common_args['locking_script'] = spk
            if i.get('addr_and_default_wt') and anyseg and 'locking_script' not in common_args:
                common_args['witness_type'] = 'segwit'
                common_args['address'] = ks[0].address(encoding='base58', script_type='p2pkh')
            if kind in ('p2pkh', 'p2wpkh', 'p2sh-p2wpkh'):
                t.add_input(keys=ks[0].public(), script_type='sig_pubkey', compressed=i['compressed'], **common_args)
            elif kind == 'p2pk':
                t.add_input(keys=ks[0].public(), script_type='signature', compressed=i['compressed'], **common_args)
            else:
                given = list(ks)
                if common_args.get('sort'):
                    random.Random(idx).shuffle(given)         # handed over in another order than the sorted one
                t.add_input(keys=[k.public() for k in given], script_type='p2sh_multisig', sigs_required=i['m'], **common_args)
        outscripts = []
        for o in sh['outs']:
            k = Key(rng.randrange(1, ref.N), network=net)
            kind = o['kind']
            if kind in ('p2wpkh', 'p2wsh') and not segwit_ok:
                kind = 'p2pkh'
            if kind in ('p2pkh', 'p2sh'):
                t.add_output(o['value'], k.address(encoding='base58', script_type=kind))
            elif kind in ('p2wpkh', 'p2wsh'):
                t.add_output(o['value'], k.address(encoding='bech32', script_type=kind))
            elif kind == 'nulldata':
                t.add_output(0, lock_script=b'\x6a\x04' + idx.to_bytes(4, 'big'))
                o['value'] = 0
            elif kind in NONMINIMAL:
                # scripts that do not survive a parse / re-serialize cycle unchanged: the digest commits to the bytes as they are
                t.add_output(0, lock_script=NONMINIMAL[kind](idx))
                o['value'] = 0
            else:
                t.add_output(o['value'], lock_script=b'\x51')
            outscripts.append(bytes(t.outputs[-1].lock_script))
        out['outscripts'] = [x.hex() for x in outscripts]
        out['eff_kinds'] = [i['kind'] for i in ins]
        out['eff_values'] = [o['value'] for o in sh['outs']]
        out['pubs'] = [[k.public_byte.hex() for k in ks] for ks in keyobjs]
        if any(i.get('no_value') for i in ins):
            # BIP143 commits to the amount: without it no valid digest exists.  Refusing is the right answer; whatever the
            # library produces instead is compared with the digest for the TRUE amount below
            out['no_value'] = True
            try:
                t.inputs = [Input(prev_txid=x.prev_txid, output_n=x.output_n, keys=x.keys, script_type=x.script_type,
                                  sigs_required=x.sigs_required, sequence=x.sequence, witness_type=x.witness_type, index_n=x.index_n,
                                  value=x.value, network=net) if ins[x.index_n].get('no_value') and idx % 2 else x for x in t.inputs]
                out['unsigned'] = [t.signature_hash(n, 1, witness_type=t.inputs[n].witness_type).hex() for n in range(len(ins))]
                for n, (i, ks) in enumerate(zip(ins, keyobjs)):
                    t.sign(random.Random(idx * 1000 + n).sample(ks, i['m']), index_n=n)
                out['verify'] = bool(t.verify())
                out['sigs'] = [[[str(s.r), str(s.s), ''] for s in t.inputs[n].signatures] for n in range(len(ins))]
                out['signed'] = [t.signature_hash(n, 1, witness_type=t.inputs[n].witness_type).hex() for n in range(len(ins))]
                out['raw'] = t.raw().hex()
                out['reparsed'] = out['signed']
                out['reparsed_verify'] = None
                out['refused'] = False
            except Exception as e:
                out['refused'] = True
            return out
        out['unsigned'] = [t.signature_hash(n, 1, witness_type=t.inputs[n].witness_type).hex() for n in range(len(ins))]
        # sign: each input with m of its keys (random subset, random order)
        sigs = []
        for n, (i, ks) in enumerate(zip(ins, keyobjs)):
            chosen = random.Random(idx * 1000 + n).sample(ks, i['m'])
            t.sign(chosen, index_n=n)
        out['verify'] = bool(t.verify())
        for n in range(len(ins)):
            sigs.append([[s.r, s.s, (s.public_key.public_byte.hex() if s.public_key else '')] for s in t.inputs[n].signatures])
        out['sigs'] = [[[str(r), str(s), p] for r, s, p in x] for x in sigs]
        out['signed'] = [t.signature_hash(n, 1, witness_type=t.inputs[n].witness_type).hex() for n in range(len(ins))]
        raw = t.raw()
        out['raw'] = raw.hex()
        t2 = Transaction.parse(raw, strict=False, network=net)
        for n, i in enumerate(ins):
            t2.inputs[n].value = i['amount']
        try:
            out['reparsed'] = [t2.signature_hash(n, 1, witness_type=t2.inputs[n].witness_type).hex() for n in range(len(ins))]
            out['reparsed_verify'] = bool(t2.verify())
        except Exception as e:
            out['reparsed'] = ['raised %r' % e] * len(ins)
            out['reparsed_verify'] = None
        # ---- BIP143 with the other hash types (witness inputs): the digest the library checks against, on the built and on the
        # re-parsed transaction, and verify() of the serialized transaction carrying such a signature
        out['ht'] = {}
        for ht in HASH_TYPES:
            row = []
            for n, i in enumerate(ins):
                if i['kind'] not in SEGWIT:
                    row.append(None)
                    continue
                try:
                    a = t.signature_hash(n, ht, witness_type=t.inputs[n].witness_type).hex()
                    b = t2.signature_hash(n, ht, witness_type=t2.inputs[n].witness_type).hex()
                    row.append([a, b])
                except Exception as e:
                    row.append(['raised %r' % e, ''])
            out['ht'][str(ht)] = row
        out['ht_verify'] = []
        for n, i in enumerate(ins):
            if i['kind'] not in ('p2wpkh', 'p2sh-p2wpkh') or not t.inputs[n].signatures:
                continue
            ht = HASH_TYPES[(idx + n) % len(HASH_TYPES)]
            old = t.inputs[n].signatures[0].as_der_encoded()
            try:
                z_ht = t.signature_hash(n, ht, witness_type=t.inputs[n].witness_type)
                z_all = t.signature_hash(n, 1, witness_type=t.inputs[n].witness_type)
                res = []
                for z in (z_ht, z_all):
                    new = der_sig(i['privs'][0], z)[:-1] + bytes([ht])
                    raw3 = raw.replace(bytes([len(old)]) + old, bytes([len(new)]) + new, 1)
                    t3 = Transaction.parse(raw3, strict=False, network=net)
                    for m, x in enumerate(ins):
                        t3.inputs[m].value = x['amount']
                    res.append(bool(t3.verify()) if raw3 != raw else None)
                out['ht_verify'].append([n, ht, res[0], res[1]])
            except Exception as e:
                out['ht_verify'].append([n, ht, 'raised %r' % e, None])
        # ---- second phase: the transaction is changed through the library's own mutators, then signed again
        mut = rng.choice(['locktime_blocks', 'locktime_time', 'rel_blocks', 'rel_time', 'add_output', 'out_value', 'add_input', 'none', 'merge',
                          'merge'])
        out['mutation'] = mut
        try:
            j = rng.randrange(len(ins))
            if mut == 'locktime_blocks':
                t.set_locktime_blocks(rng.randrange(1, 499999999))
            elif mut == 'locktime_time':
                t.set_locktime_time(rng.randrange(500000001, 0xfffffffe))
            elif mut == 'rel_blocks':
                t.set_locktime_relative_blocks(rng.randrange(1, 65535), input_index_n=j)
            elif mut == 'rel_time':
                t.set_locktime_relative_time(rng.randrange(512, 512 * 65535), input_index_n=j)
            elif mut == 'add_output':
                t.add_output(rng.choice([1, 777, 2 ** 32 + 3]), Key(rng.randrange(1, ref.N), network=net).address())
            elif mut == 'out_value':
                t.outputs[rng.randrange(len(t.outputs))].value += 1
            elif mut == 'add_input':
                k = Key(rng.randrange(1, ref.N), network=net)
                ins.append({'kind': 'p2pkh', 'm': 1, 'privs': [int(k.secret)], 'compressed': True, 'txid': b'\x55' * 32, 'vout': 3,
                            'amount': 5000, 'seq': 0xffffffff})
                keyobjs.append([k])
                t.add_input(prev_txid=b'\x55' * 32, output_n=3, keys=k.public(), script_type='sig_pubkey', value=5000,
                            witness_type='legacy')
                out['pubs'] = out['pubs'] + [[k.public_byte.hex()]]
                out['added_input'] = True
            elif mut == 'merge':
                # a second transaction (one legacy and one witness input, one output) is merged in: inputs and outputs of both,
                # in an order the library chooses
                random.seed(idx)
                tb = Transaction(network=net, witness_type='segwit' if segwit_ok else 'legacy')
                for q, kind_b in enumerate(['p2pkh', 'p2wpkh' if segwit_ok else 'p2pkh']):
                    k = Key(rng.randrange(1, ref.N), network=net)
                    ins.append({'kind': kind_b, 'm': 1, 'privs': [int(k.secret)], 'compressed': True, 'txid': bytes([0xa6 + q]) * 32, 'vout': q,
                                'amount': 7000 + q, 'seq': 0xffffffff})
                    keyobjs.append([k])
                    tb.add_input(prev_txid=bytes([0xa6 + q]) * 32, output_n=q, keys=k.public(), script_type='sig_pubkey', value=7000 + q,
                                 witness_type='legacy' if kind_b == 'p2pkh' else 'segwit')
                tb.add_output(3000, lock_script=b'\x52')
                if rng.random() < 0.5:
                    t.merge_transaction(tb)
                else:
                    t = t + tb
            # the inputs in the order the transaction now has them
            order = [next(j for j, i in enumerate(ins) if i['txid'] == x.prev_txid and i['vout'] == x.output_n_int) for x in t.inputs]
            ins = [ins[j] for j in order]
            keyobjs = [keyobjs[j] for j in order]
            out['mut_meta'] = [{'kind': i['kind'], 'amount': i['amount'], 'm': i['m'], 'pubs': [k.public_byte.hex() for k in ks]}
                               for i, ks in zip(ins, keyobjs)]
            for n, (i, ks) in enumerate(zip(ins, keyobjs)):
                chosen = random.Random(idx * 1000 + n).sample(ks, i['m'])
                t.inputs[n].signatures = []          # (re-signing over existing signatures is C02's subject)
                t.sign(chosen, index_n=n)
            out['mut_raw'] = t.raw().hex()
            out['mut_verify'] = bool(t.verify())
            out['mut_digests'] = [t.signature_hash(n, 1, witness_type=t.inputs[n].witness_type).hex() for n in range(len(ins))]
            out['mut_sigs'] = [[[str(s.r), str(s.s)] for s in t.inputs[n].signatures] for n in range(len(ins))]
        except Exception as e:
            out['mut_error'] = repr(e)
    except Exception as e:
        import traceback
        out['error'] = '%r %s' % (e, traceback.format_exc()[-400:])
    return out


def spec_record(sh, res):
    """Record for SigHashEval: the raw transaction plus, per input, the facts about the output being spent."""
    meta = []
    for i, pubs in zip(sh['ins'], res['pubs']):
        pubs = [bytes.fromhex(p) for p in pubs]
        meta.append({'kind': i['kind'], 'amount': blist(le(i['amount'], 8)), 'pkh': blist(ref.hash160(pubs[0])),
                     'pub': blist(pubs[0]), 'keys': [blist(p) for p in pubs], 'm': i['m']})
    return {'raw': blist(bytes.fromhex(res['raw'])), 'meta': meta, 'hts': HASH_TYPES}


def published_vectors():
    """The specification against the sigHash values published in BIP143 (P2SH-P2WSH 6-of-6 example, all six hash types):
    a disagreement here is an error of the specification, i.e. of the machinery."""
    raw = bytes.fromhex('010000000136641869ca081e70f394c6948e8af409e18b619df2ed74aa106c1ca29787b96e0100000000ffffffff0200e9a435000000001976a914'
                        '389ffce9cd9ae88dcc0631e88a821ffdbe9bfe2688acc0832f05000000001976a9147480a33f950689af511e6e84c138dbbd3c3ee41588ac00000000')
    keys = [bytes.fromhex(k) for k in (
        '0307b8ae49ac90a048e9b53357a2354b3334e9c8bee813ecb98e99a7e07e8c3ba3', '03b28f0c28bfab54554ae8c658ac5c3e0ce6e79ad336331f78c428dd43eea8449b',
        '034b8113d703413d57761b8b9781957b8c0ac1dfe69f492580ca4195f50376ba4a', '033400f6afecb833092a9a21cfdf1ed1376e58c5d1f47de74683123987e967a8f4',
        '03a6d48b1131e94ba04d9737d61acdaa1322008af9602b3b14862c07a1789aac16', '02d8b661b0b3302ee2f162b09e07a55ad5dfbe673a9f01d9f0c19617681024306b')]
    meta = [{'kind': 'p2sh-p2wsh-multisig', 'amount': blist((987654321).to_bytes(8, 'little')), 'pkh': blist(ref.hash160(keys[0])),
             'pub': blist(keys[0]), 'keys': [blist(k) for k in keys], 'm': 6}]
    hts = [1, 2, 3, 0x81, 0x82, 0x83]
    want = ['185c0be5263dce5b4bb50a047973c1b6272bfbd0103a89444597dc40b248ee7c', 'e9733bc60ea13c95c6527066bb975a2ff29a925e80aa14c213f686cbae5d2f36',
            '1e1f1c303dc025bd664acb72e583e933fae4cff9148bf78c157d1e8f78530aea', '2a67f03e63a6a422125878b40b82da593be8d4efaafe88ee528af6e5a9955c6e',
            '781ba15f3779d5542ce8ecb5c18716733a5ee42a6f51488ec96154934e2c890a', '511e8e52ed574121fc1b654970395502128263f62662e076dc6baf05c2e6a99b']
    out = common.tlc_eval('SigHashEval', [{'raw': blist(raw), 'meta': meta, 'hts': hts}])[0]
    got = [eval_term(out['ht'][0][h]).hex() for h in range(6)] + [eval_term(out['digests'][0]).hex()]
    if got != want + [want[0]]:
        raise common.MachineryError('SigHash.tla disagrees with the sigHash values published in BIP143: %s' % got)


def run(replay=None):
    common.fresh_bitcoinlib_env()
    ref.selftest()
    ck = Check(PID)
    thorough = tier() == 'thorough'
    ck.rule = ('case = (transaction shape, input index): kinds of all inputs, multisig (m,n), compressed flag, output count, '
               'network; 4 observations per input (digest before signing, signatures under reference ECDSA, digest after '
               'signing, digest after raw()/parse round trip); class = (kind of the signed input, position, number of inputs, '
               'kinds of the other inputs as a set, output-count class)')
    published_vectors()
    ck.assumptions = ['sha256d / hash160 / ECDSA verification from harness/ref.py',
                      'signing: SIGHASH_ALL only (sign() refuses others); checking: BIP143 digests of witness inputs for hash types 02, 03, 81, 82, '
                      '83 as well (legacy inputs: the property names the SIGHASH_ALL preimage only)',
                      'output scripts are taken from the built transaction (their correctness is C05)',
                      'bare multisig inputs cannot be built through the API and are not covered; key order = order supplied']
    ck.model(common.model_check('MC_SigHash', 'MC_SigHash.cfg', coverage=False))
    if replay:
        shapes = [replay['case']['shape']]
        for i in shapes[0]['ins']:
            i['txid'] = bytes.fromhex(i['txid'])
    else:
        shapes = gen_shapes(ck, thorough)
    results = common.pmap(run_shape, list(enumerate(shapes)), chunksize=8)
    for sh, r in zip(shapes, results):          # what the worker effectively built (segwit kinds are mapped on non-segwit networks)
        if not r['error']:
            for i, k in zip(sh['ins'], r['eff_kinds']):
                i['kind'] = k
            for o, v in zip(sh['outs'], r['eff_values']):
                o['value'] = v
    nrefused = sum(1 for r in results if r.get('no_value') and r.get('refused'))
    good = [(sh, r) for sh, r in zip(shapes, results) if not r['error'] and not (r.get('no_value') and r.get('refused'))]
    for sh, r in zip(shapes, results):
        if r['error']:
            ck.violation(None, 'clause build-raised; building/signing %s on %s raised %s' % ([i['kind'] for i in sh['ins']], sh['net'], r['error']),
                         {'shape': dict(sh, ins=[dict(i, txid=i['txid'].hex()) for i in sh['ins']])})
    specs = common.tlc_eval('SigHashEval', [spec_record(sh, r) for sh, r in good], timeout=3000)
    for (sh, r), sp in zip(good, specs):
        case = {'shape': dict(sh, ins=[dict(i, txid=i['txid'].hex()) for i in sh['ins']])}
        if not sp['ok'] or sp['nouts'] != len(sh['outs']):
            ck.violation(None, 'clause raw-not-parsable; raw() of %s on %s is not a well-formed transaction with the inputs/outputs built: %s'
                         % ([i['kind'] for i in sh['ins']], sh['net'], r['raw'][:200]), case)
            continue
        kinds = [i['kind'] for i in sh['ins']]
        ck.traces += 1
        if not r['verify'] and not r.get('no_value'):
            ck.violation(None, 'clause self-verify; %s on %s: signed with the right keys but Transaction.verify() is False' % (kinds, sh['net']), case)
        for n, i in enumerate(sh['ins']):
            digest = eval_term(sp['digests'][n])
            ck.case((i['kind'], n, len(kinds), tuple(sorted(set(kinds) - {i['kind']})), min(len(sh['outs']), 4)))
            where = 'input %d (%s, m=%d of %d) of %s on %s, %d outputs' % (n, i['kind'], i['m'], len(i['privs']), kinds, sh['net'], len(sh['outs']))
            for label in ('unsigned', 'signed', 'reparsed'):
                if label == 'reparsed' and i['kind'] == 'p2pk':
                    continue        # a raw transaction does not carry the public key of a P2PK output: nothing to compare
                if r[label][n] != digest.hex():
                    ck.violation(None, 'clause digest-%s; %s: signature_hash = %s, consensus digest = %s' % (label, where, r[label][n], digest.hex()), case)
            if i['kind'] in SEGWIT and 'ht' in r:
                for h, ht in enumerate(HASH_TYPES):
                    want = eval_term(sp['ht'][n][h]).hex()
                    got = r['ht'][str(ht)][n]
                    ck.case(('hash-type', i['kind'], ht, n, min(len(sh['outs']), 3)))
                    for lab, g in zip(('built', 'reparsed'), got):
                        if g != want:
                            ck.violation(None, 'clause digest-hash-type; %s, hash type 0x%02x, %s transaction: signature_hash = %s, BIP143 digest = %s'
                                         % (where, ht, lab, g, want), case)
            z = int.from_bytes(digest, 'big')
            pubs = [ref.parse_point(bytes.fromhex(p)) for p in r['pubs'][n]]
            nvalid = 0
            for rs in r['sigs'][n]:
                rr, ss = int(rs[0]), int(rs[1])
                if any(ref.ecdsa_verify(pt, z, rr, ss) for pt in pubs):
                    nvalid += 1
                else:
                    ck.violation(None, 'clause signature-invalid-on-network; %s: a signature produced by sign() does not verify over the '
                                 'consensus digest with any key of the input' % where, case)
            if nvalid < i['m']:
                ck.violation(None, 'clause too-few-signatures; %s: %d valid signatures after signing with m keys' % (where, nvalid), case)
        # (a re-parsed transaction with a P2PK input cannot verify as a whole: the raw bytes do not carry that public key)
        for n, ht, ok_ht, ok_all in (r.get('ht_verify', []) if 'p2pk' not in kinds else []):
            where = 'input %d (%s) of %s on %s, witness signature with hash type 0x%02x' % (n, sh['ins'][n]['kind'], kinds, sh['net'], ht)
            if ok_ht is not True:
                ck.violation(None, 'clause verify-hash-type; %s made over the BIP143 digest of that hash type: verify() = %s' % (where, ok_ht), case)
            if ok_all is not False and ok_all is not None:
                ck.violation(None, 'clause verify-hash-type-unsound; %s made over the SIGHASH_ALL digest: verify() = %s' % (where, ok_all), case)
        if r.get('reparsed_verify') is False and 'p2pk' not in kinds:
            ck.violation(None, 'clause reparsed-verify; %s on %s: raw() re-parsed (values restored) does not verify' % (kinds, sh['net']), case)
    # ---- second phase: after a change through the library's mutators and re-signing
    second = [(sh, r) for sh, r in good if 'mut_raw' in r]
    recs2 = []
    for sh, r in second:
        meta = []
        for mm in r['mut_meta']:
            pubs = [bytes.fromhex(p) for p in mm['pubs']]
            meta.append({'kind': mm['kind'], 'amount': blist(le(mm['amount'], 8)), 'pkh': blist(ref.hash160(pubs[0])), 'pub': blist(pubs[0]),
                         'keys': [blist(p) for p in pubs], 'm': mm['m']})
        recs2.append({'raw': blist(bytes.fromhex(r['mut_raw'])), 'meta': meta, 'hts': HASH_TYPES})
    specs2 = common.tlc_eval('SigHashEval', recs2, timeout=3000)
    nmut = {}
    for (sh, r), sp in zip(second, specs2):
        case = {'shape': dict(sh, ins=[dict(i, txid=i['txid'].hex()) for i in sh['ins']]), 'mutation': r['mutation']}
        kinds = [mm['kind'] for mm in r['mut_meta']]
        nmut[r['mutation']] = nmut.get(r['mutation'], 0) + 1
        ck.traces += 1
        if not sp['ok']:
            ck.violation(None, 'clause raw-not-parsable; after %s raw() of %s is not well formed' % (r['mutation'], kinds), case)
            continue
        if not r['mut_verify']:
            ck.violation(None, 'clause self-verify-after-change; %s on %s: after %s and signing again Transaction.verify() is False' % (
                kinds, sh['net'], r['mutation']), case)
        metas = recs2[second.index((sh, r))]['meta'] if False else None
        for n, kind in enumerate(kinds):
            digest = eval_term(sp['digests'][n])
            ck.case(('after', r['mutation'], kind, n))
            where = 'input %d (%s) of %s on %s after %s' % (n, kind, kinds, sh['net'], r['mutation'])
            if r['mut_digests'][n] != digest.hex():
                ck.violation(None, 'clause digest-after-change; %s: signature_hash = %s, consensus digest of the serialized transaction = %s'
                             % (where, r['mut_digests'][n], digest.hex()), case)
            z = int.from_bytes(digest, 'big')
            pubs = [ref.parse_point(bytes.fromhex(p)) for p in r['mut_meta'][n]['pubs']]
            need = r['mut_meta'][n]['m']
            nvalid = sum(1 for rs in r['mut_sigs'][n] if any(ref.ecdsa_verify(pt, z, int(rs[0]), int(rs[1])) for pt in pubs))
            if nvalid < need:
                ck.violation(None, 'clause signature-invalid-after-change; %s: %d of the %d signatures verify over the consensus digest, %d needed'
                             % (where, nvalid, len(r['mut_sigs'][n]), need), case)
    ck.notes['mutations_then_resign'] = nmut
    ck.notes['mutator_refused'] = sum(1 for sh, r in good if 'mut_error' in r)
    ck.notes['inputs_without_amount_refused'] = nrefused
    ck.notes['shapes'] = len(shapes)
    for sh in shapes[:2] + shapes[60:61]:
        ck.sample({'kinds': [i['kind'] for i in sh['ins']], 'network': sh['net'], 'outputs': len(sh['outs']), 'version': sh['version']})
    return ck.finish()
