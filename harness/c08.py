"""C08 - the wallet ledger stays consistent over any history and survives reopening (spec/WalletLedger.tla).

Histories shared with C07 (harness/walletdrv.py).  After every call the live Wallet object and a freshly opened one are
observed; TLC derives balance, unspent outputs and per-key balances from the specification state and compares.  Stored
transactions are reloaded at the end and compared with what was sent.
"""
from harness import common, walletdrv, walletsvc
from harness.common import Check, tier

PID = 'C08'


def run(replay=None):
    ck = Check(PID)
    thorough = tier() == 'thorough'
    ck.rule = ('trace = seeded history of one wallet (new_key/get_key, utxo_add, utxos_update with and without rescan, send_to/send/sweep '
               'broadcast or not, explicit input lists, fee bumps and replacements, transaction_import, transaction_delete, close+reopen; a '
               'second family learns everything through Wallet.transactions_update() from a scripted chain behind the real Service layer: '
               'payments, spends made elsewhere with the same keys, own transactions mined, provider failures); case = one event with the observations of the live and of a fresh '
               'Wallet object; class = (wallet kind, event kind, number of unspent outputs (capped), balance zero or not)')
    ck.assumptions = ['network bitcoinlib_test (offline provider); utxos_update is fed explicit reports (utxos=...)',
                      'amounts below 2^27', 'single network per wallet; one or two accounts (HD wallets): every funding transaction, request and own recipient '
                      'address stays inside one account, because the library files a transaction with all its outputs under one account '
                      '(payments between accounts of one wallet and imports of transactions of a non-default account are not driven)']
    ck.model(common.model_check('MC_WalletLedger', 'MC_WalletLedger_thorough.cfg' if thorough else 'MC_WalletLedger.cfg', expect_actions=['Next']))
    if replay:
        jobs = [tuple(replay['case']['job'][:1]) + (tuple(replay['case']['job'][1]),) + tuple(replay['case']['job'][2:])]
        svc = bool(replay['case'].get('service'))
        traces = common.pmap(walletsvc.service_history if svc else walletdrv.wallet_history, jobs)
        verdicts = common.tlc_eval('WalletLedgerEval', [{'events': t['events']} for t in traces])
        nsvc = len(jobs) if svc else 0
    else:
        jobs, traces, verdicts = walletdrv.collect(2400 if thorough else 240)
        # histories fed through the real service layer (transactions_update against a scripted chain)
        j2, t2, v2 = walletsvc.collect(480 if thorough else 64)
        nsvc = len(j2)
        jobs, traces, verdicts = jobs + j2, traces + t2, verdicts + v2
    for n, (job, t, v) in enumerate(zip(jobs, traces, verdicts)):
        ck.traces += 1
        case = {'job': [job[0], list(job[1]), job[2]], 'service': n >= len(jobs) - nsvc}
        if t['setup_error']:
            raise common.MachineryError('wallet setup failed: %s' % t['setup_error'])
        for e in t['events']:
            ck.case((tuple(t['kind']), e['op'], min(len(e['fresh']['utxos']), 4), e['fresh']['balance'] == 0))
        for k, e in enumerate(t['events']):
            if 'scan_truth' in e:
                ck.case((tuple(t['kind']), 'scan', e['fresh']['balance'] == e['scan_truth'], e['scan_truth'] == 0))
                if e['fresh']['balance'] != e['scan_truth']:
                    # what scan() must discover is not part of the statement of C08: observation, no alarm
                    ck.beyond('Wallet.scan() does not find everything paid to addresses within the gap limit',
                              '%s wallet seed=%d, event %d: balance %d, chain says %d | %s' % (t['kind'], t['seed'], k + 1, e['fresh']['balance'],
                                                                                            e['scan_truth'], ' ; '.join(x[:60] for x in t['desc'][:k + 1])[-700:]))
        for d in t['desc']:
            if d.startswith('DRIVER/LIBRARY EXCEPTION'):
                ck.violation(None, 'clause call-raised; %s wallet seed=%d: %s | history: %s' % (t['kind'], t['seed'], d[:400], ' ; '.join(x[:70] for x in t['desc'][:-1])[:900]), case)
        for d in v['devs']:
            ck.violation(d, 'clause %s; %s wallet seed=%d' % (d, t['kind'], t['seed']), case)
        for iss in v['issues'][:3]:
            if iss['kind'] == 'observation':
                ck.violation(None, 'clause %s; %s wallet seed=%d, after event %d (%s): ledger balance %d | history: %s' % (
                    iss['why'].replace(': ', '-').replace(' ', '-'), t['kind'], t['seed'], iss['at'], t['desc'][iss['at'] - 1][:300], iss['exp'],
                    ' ; '.join(x[:70] for x in t['desc'][:iss['at'] - 1])[:900]), case)
        for p in t['reload']:
            ck.violation(None, 'clause stored-transaction-reload; %s wallet seed=%d: %s' % (t['kind'], t['seed'], p), case)
    ck.notes['events'] = sum(len(t['events']) for t in traces)
    for t in traces[:2]:
        ck.sample({'wallet': t['kind'], 'history': t['desc'][:6]})
    return ck.finish()
