"""C17 - amount conversion is exact to the smallest unit (spec/Amount.tla).

(M) MC_Amount: bounded model of the digit-shifting semantics (format-then-parse identity, rounding envelope, unit grammar
    unambiguous, 8-byte placement).
(G) AmountEval "gen": TLC emits the canonical texts of amounts x denominators x networks; they are fed to the parsers.
(V) AmountEval: every (text -> integer), (integer -> text), round trip, placed output and wallet-created transaction
    observed from bitcoinlib is judged by TLC with digit arithmetic (no floats, no Python oracle).
"""
import json
import numbers
import os
import time
from decimal import Decimal
from fractions import Fraction

from harness import common
from harness.common import Check, tier

PID = 'C17'

# Driving tables (inputs only - which symbol / code string to hand to the library for a denominator / network name of the
# specification; the judgement re-reads the unit from the text with the specification's own tables).
DENS = [('usat', 'µsat', -14), ('msat', 'msat', -11), ('n', 'n', -9), ('sat', 'sat', -8), ('fin', 'fin', -7),
        ('u', 'µ', -6), ('m', 'm', -3), ('c', 'c', -2), ('d', 'd', -1), ('one', '', 0), ('da', 'da', 1), ('h', 'h', 2),
        ('k', 'k', 3), ('M', 'M', 6), ('G', 'G', 9), ('T', 'T', 12), ('P', 'P', 15), ('E', 'E', 18), ('Z', 'Z', 21),
        ('Y', 'Y', 24)]
NETS = [('bitcoin', 'BTC'), ('testnet', 'tBTC'), ('signet', 'sBTC'), ('regtest', 'rBTC'), ('litecoin', 'LTC'),
        ('litecoin_testnet', 'XLT'), ('dogecoin', 'DOGE'), ('dogecoin_testnet', 'tDOGE'), ('bitcoinlib_test', 'TST')]
SHARED = [('testnet4', 'tBTC'), ('litecoin_legacy', 'LTC')]     # share a currency code with another network
SUPPLY = 21 * 10 ** 14
ADDR = {'bitcoin': '1BvBMSEYstWetqTFn5Au4m4GFg7xJaNVN2'}


def digits(n):
    n = abs(int(n))
    return [int(c) for c in str(n)] if n else []


def cps(s):
    return [ord(c) for c in s]


def uncps(l):
    return ''.join(chr(c) for c in l)


def dec_text(n, k, dec=None):
    """Input generator (no oracle): n * 10^-k written with `dec` decimals (default: k, none if k <= 0); digits that do
    not fit are cut off."""
    if k <= 0:
        s, f = str(n) + '0' * (-k), ''
    else:
        s = str(n).rjust(k + 1, '0')
        s, f = s[:-k], s[-k:]
    if dec is not None:
        f = (f + '0' * dec)[:dec]
    return s + ('.' + f if f else '')


def got_int(v):
    return {'ok': True, 'neg': v < 0, 'd': digits(v)}


REFUSED = {'ok': False, 'neg': False, 'd': []}


def amount_class(n):
    return len(str(n)) if n < 10 ** 15 else '>=1e15'


TYPES = ['int', 'bool', 'float', 'str', 'Value', 'Decimal', 'DecimalScaled', 'Fraction', 'np.int64', 'np.int32',
         'np.uint64', 'np.float64', 'np.float32']
INPUT_SIDE = 3 * 10 ** 15         # value of the input of the transaction built around a typed output (for the fee)
OUTPUT_SIDE = 1                   # value of the output of the transaction built around a typed input


def make_typed(ty, w, p, q, neg, value_cls=None):
    """Input generator: the amount w + p/q (negated if neg) carried by type `ty`; None if the type cannot carry it
    exactly.  The exact value is known by construction (it is never computed from the carrier)."""
    import numpy as np
    exact = Fraction(w) + Fraction(p, q)
    if neg:
        exact = -exact
    whole = exact.denominator == 1
    dyadic = exact.denominator & (exact.denominator - 1) == 0
    terminating = (10 ** 30) % exact.denominator == 0
    try:
        if ty == 'int':
            return int(exact) if whole else None
        if ty == 'bool':
            return bool(exact) if exact in (0, 1) else None
        if ty == 'float':
            v = float(exact)
            return v if dyadic and Fraction(v) == exact else None
        if ty == 'str':
            return '%d sat' % exact if whole else None           # fractional texts are the rounding envelope (parse)
        if ty == 'Value':
            return value_cls('%d sat' % exact) if whole and 0 <= exact < 10 ** 15 else None
        if ty == 'Decimal':
            if not terminating:
                return None
            return Decimal(exact.numerator) / Decimal(exact.denominator)
        if ty == 'DecimalScaled':      # an amount computed as coins * 10^8
            if not terminating:
                return None
            v = (Decimal(exact.numerator) / Decimal(exact.denominator) / Decimal(10 ** 8)) * 10 ** 8
            return v if Fraction(v) == exact else None
        if ty == 'Fraction':
            return exact
        if ty in ('np.int64', 'np.int32', 'np.uint64'):
            if not whole or (ty == 'np.uint64' and exact < 0) or (ty == 'np.int32' and abs(exact) >= 2 ** 31):
                return None
            return {'np.int64': np.int64, 'np.int32': np.int32, 'np.uint64': np.uint64}[ty](int(exact))
        if ty in ('np.float64', 'np.float32'):
            v = (np.float64 if ty == 'np.float64' else np.float32)(float(exact))
            return v if dyadic and Fraction(float(v)) == exact else None
    except Exception:
        return None
    return None


def exact_of(x):
    """(is of an integer type, exact value as Fraction or None) of a stored amount."""
    isint = isinstance(x, numbers.Integral)
    try:
        if hasattr(x, 'item') and not isinstance(x, (int, float)):
            x = x.item()
        if isinstance(x, (bool, int, float, Decimal, Fraction)):
            return isint, Fraction(x)
    except Exception:
        pass
    return isint, None


def rat(fr):
    """Fraction -> JSON fields of a stored amount (den = 0: no exact value / denominator too large for TLC)."""
    if fr is None or fr.denominator >= 2 ** 31:
        return {'neg': False, 'num': [], 'den': 0}
    return {'neg': fr < 0, 'num': digits(fr.numerator), 'den': fr.denominator}


def hard_amounts(rng, count):
    """Amounts where binary floating point is under stress: close to the supply, long runs of 9s, all 16 digits used."""
    out = []
    for _ in range(count):
        c = rng.randrange(6)
        if c <= 2:
            n = rng.randrange(10 ** 15, SUPPLY + 1)
        elif c == 3:
            n = rng.randrange(1 << 50, SUPPLY + 1) | 1
        elif c == 4:
            j = rng.randrange(1, 9)
            n = rng.randrange(10 ** (15 - j), 21 * 10 ** (14 - j)) * 10 ** j + (10 ** j - 1 - rng.randrange(3))
        else:
            n = rng.randrange(10 ** 14, 10 ** 15)
        out.append(min(n, SUPPLY))
    return out


def run(replay=None):
    common.fresh_bitcoinlib_env()
    from bitcoinlib.values import Value, value_to_satoshi
    from bitcoinlib.transactions import Transaction, Output, Input

    ck = Check(PID)
    thorough = tier() == 'thorough'
    rng = ck.rng
    ck.rule = ('a case is one conversion judged by TLC against Amount.tla; class = (record kind, API, denominator, '
               'decimals class, number of digits of the amount (>= 10^15 as one class), exact/inexact text)')
    ck.assumptions = ['TLC evaluates Amount.tla/AmountEval.tla correctly (digit sequences, no floats)',
                      'amount texts follow the grammar number [unit]; other strings are outside C17',
                      'amounts up to the total supply 21*10^14 smallest units (larger texts are skipped, not judged)',
                      'where two networks share a currency code a text naming that code may be attributed to either']

    # ---------------- (M)
    ck.model(common.model_check('MC_Amount', 'MC_Amount_thorough.cfg' if thorough else 'MC_Amount.cfg',
                                expect_actions=['Fmt', 'Prs'], timeout=3000, workers=16 if thorough else 8))

    recs = []       # (record, class, description)
    t_phase = [time.time()]

    def phase(name):
        if os.environ.get('VERIF_DEBUG'):
            print('  phase %-10s %.1fs, %d records' % (name, time.time() - t_phase[0], len(recs)))
        t_phase[0] = time.time()
    phase('model')

    def add(rec, klass, desc, redo=None):
        """redo: JSON-able recipe from which --replay observes the implementation again."""
        recs.append((rec, klass, desc, redo))

    # ---------------- drivers (observation only) -----------------------------------------------------------------
    def parse_value(text, net_arg=''):
        """Value(text[, network]).value_sat and the network the Value ended up with."""
        try:
            v = Value(text, network=net_arg) if net_arg else Value(text)
            r = v.value_sat
            if not isinstance(r, int) or isinstance(r, bool):
                return REFUSED, ''
            return got_int(r), v.network.name
        except Exception:
            return REFUSED, ''

    def parse_v2s(text, net_arg):
        try:
            r = value_to_satoshi(text, network=net_arg) if net_arg else value_to_satoshi(text)
            if not isinstance(r, int) or isinstance(r, bool):
                return REFUSED, ''
            return got_int(r), net_arg
        except Exception:
            return REFUSED, ''

    def parse_output(text, net):
        try:
            o = Output(text, lock_script=b'\x51', network=net)
            r = o.value
            if not isinstance(r, int) or isinstance(r, bool):
                return REFUSED, ''
            return got_int(r), o.network.name
        except Exception:
            return REFUSED, ''

    def parse_input(text, net):
        try:
            i = Input(b'\x11' * 32, 0, value=text, network=net)
            r = i.value
            if not isinstance(r, int) or isinstance(r, bool):
                return REFUSED, ''
            return got_int(r), i.network.name
        except Exception:
            return REFUSED, ''

    def parse_number(text, net_arg):
        """Value(<float>, <denominator symbol>[, network]).value_sat for a text '<number> <symbol>' (decimal form)."""
        try:
            parts = text.split()
            sym = parts[1] if len(parts) > 1 else ''
            v = Value(float(parts[0]), sym if sym else 1, network=net_arg) if net_arg else Value(float(parts[0]),
                                                                                              sym if sym else 1)
            r = v.value_sat
            if not isinstance(r, int) or isinstance(r, bool):
                return REFUSED, ''
            return got_int(r), v.network.name
        except Exception:
            return REFUSED, ''

    def observe_parse(text, api, net_arg, klass):
        if api == 'Value':
            got, gnet = parse_value(text, net_arg)
        elif api == 'ValueNum':
            got, gnet = parse_number(text, net_arg)
        elif api == 'v2s':
            got, gnet = parse_v2s(text, net_arg)
        elif api == 'Output':
            got, gnet = parse_output(text, net_arg)
        else:
            got, gnet = parse_input(text, net_arg)
        add({'k': 'parse', 'api': api, 'text': cps(text), 'net': net_arg, 'validate': api not in ('Value', 'ValueNum'), 'got': got,
             'gnet': gnet},
            ('parse', api) + klass, '%s(%r%s)' % (api, text, ', network=%s' % net_arg if net_arg else ''),
            ['parse', text, api, net_arg])

    def fmt(n, net, den_sym, dec):
        try:
            v = Value.from_satoshi(n, network=net)
            s = v.str(den_sym if den_sym else 1, decimals=dec)
            if not isinstance(s, str):
                return False, ''
            return True, s
        except Exception:
            return False, ''

    def fmt_own(n, net, den_sym):
        try:
            s = Value.from_satoshi(n, den_sym if den_sym else 1, network=net).str()
            return isinstance(s, str), s if isinstance(s, str) else ''
        except Exception:
            return False, ''

    def observe_rt(n, den, net, klass, own=False):
        name, sym, _ = den
        fok, text = fmt_own(n, net, sym) if own else fmt(n, net, sym, None)
        got, gnet = parse_value(text) if fok else (REFUSED, '')
        add({'k': 'rt', 'n': digits(n), 'den': name, 'net': net, 'fok': fok, 'text': cps(text), 'got': got, 'gnet': gnet},
            ('rt', own, name) + klass,
            ('Value.from_satoshi(%d, %r, network=%s).str() = %r -> Value(text).value_sat' % (n, sym or 1, net, text)) if own
            else 'Value.from_satoshi(%d, network=%s).str(%r) = %r -> Value(text).value_sat' % (n, net, sym or 1, text),
            ['rt', n, name, net, own])

    def observe_ident(n, den, net, klass):
        name, sym, _ = den
        try:
            v = Value.from_satoshi(n, sym if sym else 1, network=net)
            r = v.value_sat
            got, gnet = (got_int(r), v.network.name) if isinstance(r, int) and not isinstance(r, bool) else (REFUSED, '')
        except Exception:
            got, gnet = REFUSED, ''
        add({'k': 'ident', 'n': digits(n), 'den': name, 'net': net, 'got': got, 'gnet': gnet}, ('ident', name) + klass,
            'Value.from_satoshi(%d, %r, network=%s).value_sat' % (n, sym or 1, net), ['ident', n, name, net])

    def observe_format(n, den, net, dec, klass, unit_api=False):
        name, sym, _ = den
        if unit_api:
            try:
                text = Value.from_satoshi(n, network=net).str_unit(decimals=dec)
                fok = isinstance(text, str)
            except Exception:
                fok, text = False, ''
        else:
            fok, text = fmt(n, net, sym, dec)
        add({'k': 'format', 'n': digits(n), 'den': name, 'dflt': dec is None, 'dec': dec or 0, 'net': net, 'fok': fok,
             'text': cps(text if fok else '')}, ('format', 'str_unit' if unit_api else 'str', name) + klass,
            'Value.from_satoshi(%d, network=%s).%s(%sdecimals=%r) = %r' % (
                n, net, 'str_unit' if unit_api else 'str', '' if unit_api else repr(sym or 1) + ', ', dec, text),
            ['format', n, name, net, dec, unit_api])

    def observe_place(v, kind, api):
        got = {'accepted': False, 'isint': False, 'neg': False, 'd': [], 'ser': []}
        try:
            if api == 'add_output':
                t = Transaction(network='bitcoin', witness_type='legacy')
                t.add_output(v, lock_script=b'\x51')
            else:
                t = Transaction(outputs=[Output(v, lock_script=b'\x51', network='bitcoin')], network='bitcoin',
                                witness_type='legacy')
            ov = t.outputs[0].value
            raw = t.raw()
            # version(4) | #inputs = 0 | #outputs = 1 | amount(8) | script
            if raw[4] != 0 or raw[5] != 1:
                raise common.MachineryError('unexpected layout of a transaction without inputs: %s' % raw.hex())
            got = {'accepted': True, 'isint': float(ov).is_integer(), 'neg': ov < 0, 'd': digits(ov),
                   'ser': list(raw[6:14])}
        except common.MachineryError:
            raise
        except Exception:
            pass
        add({'k': 'place', 'api': api, 'kind': kind, 'd': digits(v), 'got': got},
            ('place', api, kind, amount_class(abs(int(v)))), '%s(value=%r) then raw()' % (api, v), ['place', v, kind, api])

    def observe_typed(api, ty, w, p, q, neg):
        v = make_typed(ty, w, p, q, neg, Value)
        if v is None:
            return False
        exact = (Fraction(w) + Fraction(p, q)) * (-1 if neg else 1)
        got = {'accepted': False, 'isint': False, 'neg': False, 'num': [], 'den': 0, 'ser': [],
               'fee': {'whole': False, 'neg': False, 'num': []}}
        prev = b'\x11' * 32
        try:
            if api == 'Output':
                o = Output(v, lock_script=b'\x51', network='bitcoin')
                t = Transaction(outputs=[o], network='bitcoin', witness_type='legacy')
                t2 = Transaction([Input(prev, 0, value=INPUT_SIDE, network='bitcoin')],
                                 [Output(v, lock_script=b'\x51', network='bitcoin')], network='bitcoin')
                stored = o.value
            elif api == 'add_output':
                t = Transaction(network='bitcoin', witness_type='legacy')
                t.add_output(v, lock_script=b'\x51')
                t2 = Transaction([Input(prev, 0, value=INPUT_SIDE, network='bitcoin')], network='bitcoin')
                t2.add_output(v, lock_script=b'\x51')
                stored = t.outputs[0].value
            elif api == 'Input':
                i = Input(prev, 0, value=v, network='bitcoin')
                t = None
                t2 = Transaction([i], [Output(OUTPUT_SIDE, lock_script=b'\x51', network='bitcoin')], network='bitcoin')
                stored = i.value
            else:
                t = None
                t2 = Transaction(outputs=[Output(OUTPUT_SIDE, lock_script=b'\x51', network='bitcoin')], network='bitcoin')
                t2.add_input(prev, 0, value=v)
                stored = t2.inputs[0].value
            ser = []
            if t is not None:
                raw = t.raw()
                if raw[4] != 0 or raw[5] != 1:
                    raise common.MachineryError('unexpected layout of a transaction without inputs: %s' % raw.hex())
                ser = list(raw[6:14])
            t2.update_totals()
            fisint, fexact = exact_of(t2.fee)
            isint, sexact = exact_of(stored)
            got = dict(rat(sexact), accepted=True, isint=isint, ser=ser,
                       fee={'whole': bool(fisint and fexact is not None and fexact.denominator == 1),
                            'neg': bool(fexact is not None and fexact < 0),
                            'num': digits(fexact.numerator) if fexact is not None and fexact.denominator == 1 else []})
        except common.MachineryError:
            raise
        except Exception:
            pass
        add({'k': 'typed', 'api': api, 'ty': ty.replace('Scaled', ''), 'neg': neg, 'num': digits(abs(exact.numerator)),
             'den': exact.denominator, 'other': digits(OUTPUT_SIDE if api in ('Input', 'add_input') else INPUT_SIDE),
             'floatwhole': float(exact).is_integer(),       # oracle fact about the nearest double (Python float, not bitcoinlib)
             'got': got},
            ('typed', api, ty, 'whole' if exact.denominator == 1 else 'q=%d' % q, neg, amount_class(abs(int(exact)))),
            '%s(%r) [exact value %s%s]' % (api if api not in ('Input', 'add_input') else api + '(value=)', v, exact.numerator,
                                           '/%d' % exact.denominator if exact.denominator != 1 else ''),
            ['typed', api, ty, w, p, q, neg])
        return True

    def observe_vtyped(ty, w, p, q, den, net):
        """Value(<number of type ty>, <denominator>): judged like the text '<exact decimal expansion> <symbol>'."""
        name, sym, _ = den
        exact = Fraction(w) + Fraction(p, q)
        if (10 ** 40) % exact.denominator:
            return False
        v = make_typed(ty, w, p, q, False, Value)
        if v is None or ty in ('str', 'Value'):
            return False
        fl = 0
        while (exact * 10 ** fl).denominator != 1:
            fl += 1
        text = dec_text(int(exact * 10 ** fl), fl) + (' ' + sym if sym else '')
        try:
            val = Value(v, sym if sym else 1, network=net)
            r = val.value_sat
            got, gnet = (got_int(r), val.network.name) if isinstance(r, int) and not isinstance(r, bool) else (REFUSED, '')
        except Exception:
            got, gnet = REFUSED, ''
        add({'k': 'parse', 'api': 'ValueTyped', 'text': cps(text), 'net': net, 'validate': False, 'got': got, 'gnet': gnet},
            ('vtyped', ty, name, 'whole' if q == 1 or p == 0 else 'q=%d' % q, amount_class(w)),
            'Value(%r, %r, network=%s).value_sat' % (v, sym or 1, net), ['vtyped', ty, w, p, q, name, net])
        return True

    def observe_arith(op, a, b):
        try:
            x = Value.from_satoshi(a)
            if op == 'add':
                r = (x + Value.from_satoshi(b)).value_sat
            elif op == 'sub':
                r = (x - Value.from_satoshi(b)).value_sat
            else:
                r = (x * b).value_sat
            got = got_int(r) if isinstance(r, int) and not isinstance(r, bool) else REFUSED
        except Exception:
            got = REFUSED
        add({'k': 'arith', 'op': op, 'a': digits(a), 'b': digits(b), 'm': b if op == 'mul' else 0, 'got': got},
            ('arith', op, amount_class(a), amount_class(b)),
            'Value.from_satoshi(%d) %s %s' % (a, {'add': '+', 'sub': '-', 'mul': '*'}[op],
                                              b if op == 'mul' else 'Value.from_satoshi(%d)' % b), ['arith', op, a, b])

    CB_SCRIPT = bytes.fromhex('03f6591c046945e35e')

    def observe_fee(route, coinbase, ins, outs):
        """ins / outs: lists of (carrier type, whole amount).  Every way a Transaction comes to have a fee."""
        vin = [make_typed(ty, w, 0, 1, False, Value) for ty, w in ins]
        vout = [make_typed(ty, w, 0, 1, False, Value) for ty, w in outs]
        if any(v is None for v in vin + vout):
            return False
        si, so = sum(w for _, w in ins), sum(w for _, w in outs)
        got = {'refused': True, 'nofee': False, 'isint': False, 'neg': False, 'num': [], 'den': 0}

        def mk_input(j, v):
            if coinbase:
                return Input(b'\0' * 32, 0xffffffff, unlocking_script=CB_SCRIPT, value=v, network='bitcoin')
            return Input(bytes([j + 1]) * 32, j, value=v, network='bitcoin')

        def mk_outputs():
            return [Output(v, lock_script=b'\x51', network='bitcoin') for v in vout]
        try:
            reports = True
            if route in ('ctor', 'ctor_update', 'calculate_fee'):
                t = Transaction([mk_input(j, v) for j, v in enumerate(vin)], mk_outputs(), coinbase=coinbase,
                                network='bitcoin')
                if route == 'ctor_update':
                    t.update_totals()
                fee = t.fee
                if route == 'calculate_fee':
                    t.fee_per_kb = 1000 + (si % 50000)
                    fee = t.calculate_fee()
            elif route == 'totals_args':
                t = Transaction(input_total=si, output_total=so, coinbase=coinbase, network='bitcoin')
                fee = t.fee
            elif route == 'fee_arg':
                t = Transaction([mk_input(j, v) for j, v in enumerate(vin)], mk_outputs(), fee=si - so,
                                coinbase=coinbase, network='bitcoin')
                fee = t.fee
            elif route in ('add_update', 'add_only'):
                t = Transaction(coinbase=coinbase, network='bitcoin')
                for j, v in enumerate(vin):
                    if coinbase:
                        t.add_input(b'\0' * 32, 0xffffffff, unlocking_script=CB_SCRIPT, value=v)
                    else:
                        t.add_input(bytes([j + 1]) * 32, j, value=v)
                for v in vout:
                    t.add_output(v, lock_script=b'\x51')
                if route == 'add_update':
                    t.update_totals()
                else:
                    reports = False
                fee = t.fee
            else:       # parse_update: a raw transaction carries no input values; they are filled in afterwards
                t0 = Transaction([mk_input(j, w) for j, (_, w) in enumerate(ins)],
                                 [Output(w, lock_script=b'\x51', network='bitcoin') for _, w in outs],
                                 coinbase=coinbase, network='bitcoin', witness_type='legacy',
                                 fee=max(si - so, 0))
                t = Transaction.parse(t0.raw(), strict=False)
                if t.fee is not None and not (isinstance(t.fee, int) and t.fee >= 0):
                    raise common.MachineryError('parsed transaction reports fee %r' % (t.fee,))
                for inp, (_, w) in zip(t.inputs, ins):
                    inp.value = w          # (a plain attribute, no entry point: whole int amounts)
                t.update_totals()
                fee = t.fee
            if fee is None:
                got = {'refused': False, 'nofee': True, 'isint': False, 'neg': False, 'num': [], 'den': 0}
            else:
                isint, fexact = exact_of(fee)
                got = dict(rat(fexact), refused=False, nofee=False, isint=isint)
                got['num'] = digits(abs(fexact.numerator)) if fexact is not None and got['den'] else []
        except common.MachineryError:
            raise
        except Exception:
            pass
        cl = 'pays' if si > so else 'equal' if si == so else 'short'
        add({'k': 'fee', 'route': route, 'coinbase': coinbase, 'ins': [digits(w) for _, w in ins],
             'outs': [digits(w) for _, w in outs], 'tys': sorted(set(ty.replace('Scaled', '') for ty, _ in ins + outs)),
             'reports': reports, 'got': got},
            ('fee', route, coinbase, cl, si == 0, tuple(sorted(set(ty for ty, _ in ins + outs)))),
            '%s%s: inputs %r, outputs %r -> fee' % (route, ' (coinbase)' if coinbase else '', vin, vout),
            ['fee', route, coinbase, [list(x) for x in ins], [list(x) for x in outs]])
        return True

    den_by_name = {d[0]: d for d in DENS}
    if replay:
        redo = replay['case'].get('redo')
        kl = ('replay',)
        if not redo:                                  # no recipe: judge the recorded observation again
            for r in replay['case']['records']:
                add(r, kl, 'replay (recorded observation)')
        elif redo[0] == 'parse':
            observe_parse(redo[1], redo[2], redo[3], kl)
        elif redo[0] == 'rt':
            observe_rt(redo[1], den_by_name[redo[2]], redo[3], kl, own=redo[4])
        elif redo[0] == 'ident':
            observe_ident(redo[1], den_by_name[redo[2]], redo[3], kl)
        elif redo[0] == 'format':
            observe_format(redo[1], den_by_name[redo[2]], redo[3], redo[4], kl, unit_api=redo[5])
        elif redo[0] == 'place':
            observe_place(redo[1], redo[2], redo[3])
        elif redo[0] == 'typed':
            observe_typed(*redo[1:])
        elif redo[0] == 'vtyped':
            observe_vtyped(redo[1], redo[2], redo[3], redo[4], den_by_name[redo[5]], redo[6])
        elif redo[0] == 'arith':
            observe_arith(redo[1], redo[2], redo[3])
        elif redo[0] == 'fee':
            observe_fee(redo[1], redo[2], [tuple(x) for x in redo[3]], [tuple(x) for x in redo[4]])
        elif redo[0] == 'wallet':
            for rec, klass, desc, rd in common.pmap(_wallet_job, [(common.seed(), 1, [redo[1], redo[2]])], procs=1)[0]:
                add(rec, klass, desc, rd)
    else:
        # ---------------- amounts
        small = list(range(0, 2001 if thorough else 101))
        boundary = set()
        for k in range(1, 16):
            boundary.update([10 ** k - 1, 10 ** k, 10 ** k + 1])
        for k in (8, 16, 24, 31, 32, 33, 40, 48, 50):
            boundary.update([2 ** k - 1, 2 ** k + 1])
        boundary.update(SUPPLY - j for j in range(4))
        boundary = sorted(boundary)
        rand = [rng.randrange(10 ** rng.randrange(1, 16)) for _ in range(1500 if thorough else 140)]
        codes = dict(NETS)

        # ---------------- (G) spec -> code: canonical texts generated by TLC, parsed by the implementation
        gen_jobs = []
        for n in small + boundary + rand[:60]:
            for den in DENS:
                net = 'bitcoin' if rng.random() < 0.6 else rng.choice(NETS)[0]
                k = den[2] + 8
                gen_jobs.append((n, den, net, max(k, 0)))
        gen = common.tlc_eval('AmountEval', [{'k': 'gen', 'n': digits(n), 'den': den[0], 'net': net, 'dec': dec}
                                             for n, den, net, dec in gen_jobs], procs=4 if not thorough else 12)
        for (n, den, net, dec), g in zip(gen_jobs, gen):
            for t in g['exp']:
                text = uncps(t)
                kl = (den[0], 'exact', amount_class(n))
                observe_parse(text, 'Value', '', kl)
                observe_parse(text, 'v2s', net, kl)
                if rng.random() < 0.12:
                    observe_parse(text, 'Output', net, kl)
                if rng.random() < 0.08:
                    observe_parse(text, 'Input', net, kl)
        ck.notes['texts_generated_by_TLC'] = len(gen_jobs)

        phase('gen')
        # ---------------- text variations (inputs built here; TLC decides what they denote)
        nvar = 6000 if thorough else 1200
        for _ in range(nvar):
            den = rng.choice(DENS)
            name, sym, e = den
            k = e + 8
            n = rng.choice(small + boundary + rand)
            style = rng.randrange(9)
            net, code = rng.choice(NETS)
            neg = False
            net_arg = ''
            if style == 0:        # more decimals than the unit has: inexact, either neighbour
                extra = rng.randrange(1, 4)
                num = dec_text(n * 10 ** extra + rng.randrange(1, 10 ** extra), k + extra)
                unit = sym + code
                cl = 'inexact'
            elif style == 1:      # spacing and leading zeros
                num = '0' * rng.randrange(0, 3) + dec_text(n, k)
                unit = sym + code
                num = ' ' * rng.randrange(0, 2) + num + ' ' * rng.randrange(0, 3)
                cl = 'spaces'
            elif style == 2:      # lower / upper case currency code
                num = dec_text(n, k)
                unit = sym + (code.lower() if rng.random() < 0.5 else code.upper())
                cl = 'case'
            elif style == 3:      # negative amounts
                num = '-' + dec_text(n, k)
                unit = sym + code
                cl = 'negative'
            elif style == 4:      # no currency code: the network comes from the caller (or is the default)
                num = dec_text(n, k)
                unit = sym
                net_arg = rng.choice(['', net] + [s[0] for s in SHARED])
                cl = 'codeless'
            elif style == 5:      # '.5' and '5.' forms, no unit at all
                x = dec_text(n, k)
                num = x[1:] if x.startswith('0.') else (x + '.' if '.' not in x else x)
                unit = sym + code
                cl = 'bare-point'
            elif style == 6:      # a network argument that contradicts the currency code: must be refused
                num = dec_text(n, k)
                unit = sym + code
                net_arg = rng.choice([x[0] for x in NETS if x[1].upper() != code.upper()])
                cl = 'other-network'
            elif style == 7:      # fewer decimals than the unit has (trailing zeros dropped)
                num = dec_text(n, k).rstrip('0').rstrip('.') if k > 0 else dec_text(n, k)
                num = num or '0'
                unit = sym + code
                cl = 'short'
            else:                 # plain, other networks (also the two that share a code with another network)
                if rng.random() < 0.3:
                    net, code = rng.choice(SHARED)
                num = dec_text(n, k)
                unit = sym + code
                net_arg = net if rng.random() < 0.6 else ''
                cl = 'plain'
            text = (num + ' ' + unit) if unit else num
            if cl == 'codeless' and net_arg not in [x[0] for x in SHARED]:
                api = rng.choice(['Value', 'v2s', 'ValueNum', 'ValueNum', 'Output', 'Input'] if net_arg else
                                 ['Value', 'v2s', 'ValueNum', 'ValueNum'])
            else:
                api = rng.choice(['Value', 'v2s', 'v2s', 'Output', 'Input'] if net_arg and cl != 'other-network'
                                 else ['Value', 'v2s'])
            observe_parse(text, api, net_arg, (name, cl, amount_class(n)))

        phase('variations')
        # ---------------- formatting with explicit decimals; str_unit
        fsample = (boundary[::3] + rng.sample(small, 12) + rand[:20] + hard_amounts(rng, 40)) if thorough else (
            boundary[::5] + rng.sample(small, 8) + rand[:10] + hard_amounts(rng, 10))
        decs = list(range(0, 15)) if thorough else [0, 1, 2, 3, 7, 8, 9, 14]
        for n in fsample:
            for den in DENS:
                net = 'bitcoin' if rng.random() < 0.6 else rng.choice(NETS)[0]
                k = den[2] + 8
                for dec in [None] + decs:
                    dcl = 'default' if dec is None else ('<k' if dec < k else '=k' if dec == k else '>k')
                    observe_format(n, den, net, dec, (dcl, amount_class(n)))
            for dec in (None, 0, 4, 8, 10):
                observe_format(n, DENS[9], rng.choice(NETS)[0], dec, ('unit', amount_class(n)), unit_api=True)

        phase('format')
        # ---------------- round trips on the whole amount domain, all denominators
        for n in small[::1 if thorough else 3] + boundary + rand:
            for den in DENS:
                net = 'bitcoin' if rng.random() < 0.5 else rng.choice(NETS)[0]
                observe_rt(n, den, net, (amount_class(n),), own=rng.random() < 0.3)
                observe_ident(n, den, net, (amount_class(n),))

        phase('roundtrip')
        # ---------------- seeded search around float-hard amounts: round trip and exact text, every denominator
        per_den = 4000 if thorough else 280
        for den in DENS:
            name, sym, e = den
            k = e + 8
            for n in hard_amounts(rng, per_den):
                net, code = rng.choice(NETS)
                observe_rt(n, den, net, ('hard', amount_class(n)), own=rng.random() < 0.3)
                if rng.random() < 0.5:
                    observe_ident(n, den, net, ('hard', amount_class(n)))
                text = dec_text(n, k) + ' ' + sym + code
                observe_parse(text, 'Value', '', (name, 'hard', amount_class(n)))
                if rng.random() < 0.15:
                    observe_parse(text, 'v2s', net, (name, 'hard', amount_class(n)))

        phase('hard')
        # ---------------- amounts placed in transaction outputs
        place_vals = [(0, 'int'), (1, 'int'), (546, 'int'), (10 ** 8, 'int'), (2 ** 32, 'int'), (2 ** 32 - 1, 'int'),
                      (SUPPLY, 'int'), (SUPPLY - 1, 'int'), (-1, 'neg'), (-546, 'neg'), (-SUPPLY, 'neg'),
                      (1.5, 'frac'), (0.1, 'frac'), (0.999, 'frac'), (2 ** 32 + 0.5, 'frac'), (10 ** 15 + 0.5, 'frac'),
                      (-0.5, 'frac'), (2.0, 'int'), (1e8, 'int')]
        for _ in range(40 if thorough else 12):
            place_vals.append((rng.randrange(SUPPLY + 1), 'int'))
            place_vals.append((-rng.randrange(1, SUPPLY + 1), 'neg'))
            place_vals.append((rng.randrange(10 ** 9) + rng.choice([0.25, 0.5, 0.75]), 'frac'))
        for v, kind in place_vals:
            for api in ('add_output', 'Output'):
                observe_place(v, kind, api)

        phase('place')
        # ---------------- the same entry points with every carrier type of an amount: whole and fractional numbers of
        # smallest units as int, bool, float, str, Value, Decimal, Fraction and numpy scalars
        wholes = [2, 546, 1000, 12345, 10 ** 8, 2 ** 24 - 1, 2 ** 31 - 1, 123456789012, 10 ** 15 + 1, SUPPLY - 1, SUPPLY]
        fracs = [(1, 2), (1, 4), (7, 8), (1, 10), (455, 1000), (1, 3), (2, 7), (1, 10 ** 8), (99999999, 10 ** 8)]
        for _ in range(30 if thorough else 6):
            wholes.append(rng.randrange(2, 10 ** rng.randrange(1, 16)))
        ntyped = 0
        for api in ('Output', 'add_output', 'Input', 'add_input'):
            for ty in TYPES:
                for w in wholes:
                    ntyped += observe_typed(api, ty, w, 0, 1, False)
                    for p, q in (fracs if thorough else rng.sample(fracs, 4)):
                        ntyped += observe_typed(api, ty, w, p, q, False)
                if api in ('Output', 'add_output'):
                    for w in (1, 546, 10 ** 8):
                        ntyped += observe_typed(api, ty, w, 0, 1, True)
                        ntyped += observe_typed(api, ty, w, 1, 2, True)
                ntyped += observe_typed(api, ty, 0, 1, 2, False)
                if api in ('Output', 'add_output'):             # (an input of 1 cannot pay the output of the transaction built around it)
                    ntyped += observe_typed(api, ty, 1, 0, 1, False) + observe_typed(api, ty, 0, 0, 1, False)
        # Value(<typed number>, denominator) and Value arithmetic on whole amounts
        for ty in TYPES:
            for _ in range(60 if thorough else 14):
                den = rng.choice(DENS)
                w = rng.choice(wholes + [0, 1, 7])
                p, q = rng.choice([(0, 1), (0, 1), (1, 2), (1, 4), (1, 10), (455, 1000), (1, 10 ** 8)])
                ntyped += observe_vtyped(ty, w, p, q, den, rng.choice(NETS)[0])
        for _ in range(2000 if thorough else 250):
            a = rng.choice(wholes + [rng.randrange(10 ** rng.randrange(1, 16)), rng.randrange(SUPPLY // 2)])
            b = rng.choice(wholes + [rng.randrange(10 ** rng.randrange(1, 16)), rng.randrange(SUPPLY // 2)])
            observe_arith('add', a, b)
            observe_arith('sub', max(a, b), min(a, b))
            observe_arith('mul', a, rng.choice([0, 1, 2, 3, 10, 21, 1000, rng.randrange(1, 10 ** 6)]))
        ck.notes['typed_amounts'] = ntyped
        phase('typed')
        # ---------------- every way a Transaction object comes to have a fee, ordinary and coinbase
        fee_types = ['int', 'int', 'int', 'str', 'Value', 'float', 'Decimal', 'Fraction', 'np.int64']
        routes = ['ctor', 'ctor_update', 'totals_args', 'fee_arg', 'add_update', 'add_only', 'parse_update', 'calculate_fee']
        nfee = 0
        for route in routes:
            for coinbase in (False, True):
                for _ in range(120 if thorough else 22):
                    nin = 1 if coinbase else rng.randrange(1, 4)
                    nout = rng.randrange(1, 4)
                    base = rng.choice([546, 10 ** 5, 625000000, 10 ** 8, rng.randrange(1, 10 ** rng.randrange(3, 15))])
                    outs_w = [max(1, base // nout + rng.randrange(-3, 4)) for _ in range(nout)]
                    so = sum(outs_w)
                    shape = rng.randrange(7)
                    # inputs: comfortably more, one unit more, equal, one unit short, far short, unknown (0)
                    si = [so + rng.randrange(1, 10 ** 6), so + 1, so, so - 1, max(1, so // 2), so * 3, 0][shape]
                    if si < 0 or (si == 0 and shape != 6):
                        si = so + 1
                    ins_w = [si // nin] * nin
                    ins_w[0] += si - sum(ins_w)
                    if si and min(ins_w) == 0:
                        ins_w, nin = [si], 1
                    tys = [rng.choice(fee_types) for _ in range(nin + nout)]
                    nfee += observe_fee(route, coinbase, list(zip(tys[:nin], ins_w)), list(zip(tys[nin:], outs_w)))
        ck.notes['fee_scenarios'] = nfee
        phase('fee')
        # ---------------- wallet-created transactions paying a text amount
        for rec, klass, desc, redo in common.pmap(_wallet_job, [(common.seed(), 40 if thorough else 14, None)], procs=1)[0]:
            add(rec, klass, desc, redo)

    phase('wallet')
    # ---------------- judge everything with TLC
    verdicts = common.tlc_eval('AmountEval', [r[0] for r in recs], procs=min(common.NCPU, 10 if not thorough else 16))
    phase('judge')
    skipped = {}
    for (rec, klass, desc, redo), v in zip(recs, verdicts):
        if v['v'] == 'skip':
            skipped[v['dev']] = skipped.get(v['dev'], 0) + 1
            continue
        ck.case(klass)
        if v['v'] != 'ok':
            key = v['dev'] or None
            got = rec.get('got')
            if rec['k'] in ('format',):
                got = uncps(rec['text'])
            ck.violation(key, '%s: clause %s; observed %s, specification expects %s' % (
                desc, v['v'], json.dumps(got)[:160], json.dumps(v['exp'])[:300]), {'records': [rec], 'redo': redo})
    ck.traces = len(recs)
    for r, _, d, _ in recs[:2] + recs[len(recs) // 3:len(recs) // 3 + 2] + recs[-3:]:
        ck.sample({'case': d, 'record_kind': r['k']}, limit=8)
    ck.notes['skipped_not_judged'] = skipped
    ck.notes['records_by_kind'] = {k: sum(1 for r in recs if r[0]['k'] == k) for k in
                                   ('parse', 'format', 'rt', 'ident', 'place', 'typed', 'arith', 'fee', 'wallet')}
    return ck.finish()


def _wallet_job(args):
    """Worker: one bitcoinlib_test wallet (provider fabricates two coins of 10^8 per address); pay text amounts."""
    import random
    seed, count, only = args
    rng = random.Random(seed * 7 + 1)
    from bitcoinlib.wallets import Wallet
    from bitcoinlib.keys import HDKey
    w = Wallet.create('c17_w', network='bitcoinlib_test')
    w.utxos_update()
    to = HDKey(network='bitcoinlib_test').address()
    out = []
    for i in range(count):
        name, sym, e = rng.choice([d for d in DENS if d[0] not in ('da',)])
        k = e + 8
        n = rng.choice([1, 546, 1000, 99999999, 100000000, 12345678, rng.randrange(1, 150000000),
                        rng.randrange(1, 10 ** rng.randrange(1, 9))])
        fee = rng.choice([None, 500, 1000, 12345])
        text = dec_text(n, k) + ' ' + sym + 'TST'
        if only:
            text, fee = only
        rec = {'k': 'wallet', 'text': cps(text), 'net': 'bitcoinlib_test', 'created': False,
               'paid': {'isint': False, 'neg': False, 'd': []}, 'outs': [], 'fee': {'isint': False, 'neg': False, 'd': []}}
        try:
            t = w.send_to(to, text, fee=fee, broadcast=False) if fee is not None else w.send_to(to, text, broadcast=False)
            paid = [o for o in t.outputs if o.address == to]

            def num(x):
                ok = isinstance(x, int) and not isinstance(x, bool)
                return {'isint': ok, 'neg': bool(ok and x < 0), 'd': digits(x) if ok else []}
            rec['created'] = len(paid) == 1
            if paid:
                rec['paid'] = num(paid[0].value)
            rec['outs'] = [num(o.value) for o in t.outputs]
            rec['fee'] = num(t.fee)
        except Exception:
            pass
        out.append((rec, ('wallet', name, fee is None, len(str(n))), 'Wallet.send_to(addr, %r, fee=%r)' % (text, fee),
                    ['wallet', text, fee]))
    return out
