"""C16 drivers (run in pmap workers): call histories on real Key / HDKey / Signature / Transaction objects, on wallets,
and on wallets with database field encryption.  They only perform calls and report what the scanner (c16_scan) finds;
every judgement is made by TLC (spec/LeakEval.tla)."""
import contextlib
import copy
import glob
import hashlib
import inspect
import io
import logging
import os
import pickle
import random
import tempfile

from harness import c16_scan

N = 0xFFFFFFFFFFFFFFFFFFFFFFFFFFFFFFFEBAAEDCE6AF48A03BBFD25E8CD0364141
NETS = ['bitcoin', 'testnet', 'litecoin', 'dogecoin', 'dogecoin_testnet', 'regtest', 'bitcoinlib_test']
SEGWIT_NETS = ('bitcoin', 'testnet', 'litecoin', 'regtest', 'bitcoinlib_test')
RECIPIENT_SCALAR = 0x1111111111111111111111111111111111111111111111111111111111111111 % N


def new_secret(rng):
    while True:
        s = rng.getrandbits(256)
        if 2 ** 200 < s < N:
            return s


def captured(f):
    b = io.StringIO()
    with contextlib.redirect_stdout(b):
        r = f()
    return [b.getvalue(), r]


def split(found):
    """{'self.wif': path, 'other.hex': path} -> (own classes, other classes)"""
    own = sorted({k.split('.', 1)[1] for k in found if k.startswith('self.')})
    oth = sorted({k.split('.', 1)[1] for k in found if not k.startswith('self.')})
    return own, oth


NOARGS = {'prefix': 'none', 'witness_type': 'none', 'multisig': 'none', 'account': 'none', 'form': 'named'}
ARGSPACE = {}            # call -> list of argument records, as printed by TLC from Leak!ArgSpace (set by the workers)


def shown(v):
    """A returned value together with its repr and str (and those of the elements of a returned list)."""
    if v is None or isinstance(v, (str, bytes, int, float, dict)):
        return [v]
    if isinstance(v, (list, tuple)):
        return [shown(x) for x in v]
    out = [v]
    for f in (repr, str):
        try:
            out.append(f(v))
        except Exception:
            pass
    return out


def reflect(obj):
    """Everything that can be obtained from obj without further knowledge: every attribute, and the result of every
    method that can be called without arguments (exceptions = nothing obtainable), plus what they print."""
    out = {}
    buf = io.StringIO()
    with contextlib.redirect_stdout(buf):
        for name in sorted(set(dir(obj))):
            if name.startswith('__'):
                continue
            try:
                v = getattr(obj, name)
            except Exception:
                continue
            if inspect.isclass(v) or inspect.ismodule(v):
                continue
            if callable(v):
                try:
                    pars = inspect.signature(v).parameters.values()
                except (TypeError, ValueError):
                    continue
                if any(p.default is p.empty and p.kind in (p.POSITIONAL_ONLY, p.POSITIONAL_OR_KEYWORD, p.KEYWORD_ONLY) for p in pars):
                    continue
                try:
                    v = v()
                except Exception:
                    continue
            out[name] = shown(v)
    out['<printed>'] = buf.getvalue()
    return out


# =====================================================================================================================
# keys, signatures, transactions
# =====================================================================================================================

class KeyWorld:
    """One instantiated subject and its bookkeeping: the subject object, a private shadow key that follows the same
    derivations (it tells the scalar of the subject's key), the secrets in play."""

    def __init__(self, start, seed):
        from bitcoinlib.keys import Key, HDKey
        rng = self.rng = random.Random(seed)
        self.tmp = None
        self.others = {}
        self.net = rng.choice(NETS)
        self.desc = {'start': start, 'network': self.net}
        if start == 'key':
            s = new_secret(rng)
            comp = rng.random() < 0.7
            fmt = rng.choice(['int', 'hex', 'bytes', 'wif', 'dec'])
            self.desc.update(compressed=comp, fmt=fmt)
            if fmt == 'int':
                k = Key(s, network=self.net, compressed=comp)
            elif fmt == 'dec':
                k = Key(str(s), network=self.net, compressed=comp)
            elif fmt == 'hex':
                k = Key('%064x' % s, network=self.net, compressed=comp)
            elif fmt == 'bytes':
                k = Key(s.to_bytes(32, 'big'), network=self.net, compressed=comp)
            else:
                k = Key(Key(s, network=self.net, compressed=comp).wif(), network=self.net)
            self.subj = k
            self.shadow = Key(s, network=self.net, compressed=comp)
            self.compressed = comp
            self.wt = rng.choice(['legacy', 'segwit', 'p2sh-segwit']) if (comp and self.net in SEGWIT_NETS) else 'legacy'
        else:
            wt = rng.choice(['legacy', 'segwit', 'p2sh-segwit']) if self.net in SEGWIT_NETS else 'legacy'
            ms = rng.random() < 0.25
            fmt = rng.choice(['seed', 'keychain', 'xprv', 'child', 'child'])
            self.desc.update(witness_type=wt, multisig=ms, fmt=fmt)
            seedb = bytes(rng.getrandbits(8) for _ in range(rng.choice([16, 32, 64])))
            m = HDKey.from_seed(seedb, network=self.net, witness_type=wt, multisig=ms)
            while not 2 ** 200 < m.secret < N:
                seedb = hashlib.sha256(seedb).digest()
                m = HDKey.from_seed(seedb, network=self.net, witness_type=wt, multisig=ms)
            if fmt == 'seed':
                k = HDKey.from_seed(seedb, network=self.net, witness_type=wt, multisig=ms)
            elif fmt == 'keychain':
                k = HDKey(key=m.private_byte, chain=m.chain, network=self.net, witness_type=wt, multisig=ms)
            elif fmt == 'xprv':
                k = HDKey(m.wif_private(), network=self.net)
            else:
                path = rng.choice(["m/44'/0'/5", "m/84'/1'", "m/0", "m/7/2147483647'"])
                self.desc['path'] = path
                cur = m
                self.others['anc0'] = m.secret
                for n, el in enumerate(path.split('/')[1:]):
                    cur = cur.subkey_for_path(el)
                    self.others['anc%d' % (n + 1)] = cur.secret
                k = m.subkey_for_path(path)
                self.others = {a: b for a, b in self.others.items() if b != k.secret and 2 ** 200 < b}
                m = cur
            self.subj = k
            self.shadow = copy.deepcopy(m) if fmt != 'child' else m
            self.compressed = True
            self.wt = wt
        self.kind = start
        self.nchild = 0
        self.nargs = 0
        self.seed = seed
        self.npath = seed % 6            # consecutive histories start with consecutive path shapes

    # -------------------------------------------------------------------------------------------------------------
    @property
    def self_secret(self):
        return self.shadow.secret

    def needles(self):
        d = {'self': self.self_secret}
        d.update({k: v for k, v in self.others.items() if v != self.self_secret})
        return c16_scan.Needles(d)

    def _newtx(self, mode):
        from bitcoinlib.transactions import Transaction
        from bitcoinlib.keys import Key
        k = self.subj
        wt = self.wt
        if mode == 'addr':
            wt = 'legacy'
        t = Transaction(network=self.net, witness_type='legacy' if wt == 'legacy' else 'segwit')
        prev = bytes(self.rng.getrandbits(8) for _ in range(32))
        value = self.rng.choice([100000, 2 ** 32 + 5])
        if mode == 'pub':
            t.add_input(prev_txid=prev, output_n=1, keys=k.public(), value=value, witness_type=wt, compressed=self.compressed)
        elif mode == 'priv':
            t.add_input(prev_txid=prev, output_n=1, keys=k, value=value, witness_type=wt, compressed=self.compressed)
        else:
            pk = Key(k.public_byte, network=self.net, compressed=self.compressed)
            t.add_input(prev_txid=prev, output_n=1, address=pk.address(), value=value, witness_type='legacy',
                        compressed=self.compressed)
        t.add_output(60000, Key(RECIPIENT_SCALAR, network=self.net).address())
        if mode == 'priv':
            t.sign()
        else:
            t.sign(k)
        if not t.verify():
            raise RuntimeError('transaction does not verify after signing')
        return t

    def args_for(self, c):
        """The next combination of optional arguments of call c from the specification's argument space."""
        space = ARGSPACE.get(c)
        if not space:
            return dict(NOARGS)
        self.nargs += 1
        return dict(space[(self.seed + self.nargs) % len(space)])

    def kwargs(self, a, extended=True):
        """Concrete optional arguments for the abstract record a."""
        rng = self.rng
        kw = {}
        if a['prefix'] != 'none':
            if extended:
                try:
                    pre = self.subj.network.wif_prefix(is_private=rng.random() < 0.3, witness_type=rng.choice(WTS),
                                                       multisig=rng.random() < 0.3)
                except Exception:
                    pre = bytes.fromhex(rng.choice(['0488b21e', '04b24746', '049d7cb2', '0488ade4']))
            else:
                pre = bytes([rng.choice([0x80, 0xcc, 0xef, 0x99])])
            kw['prefix'] = pre if a['prefix'] == 'bytes' else (pre.hex() if rng.random() < 0.5 else pre.hex().upper())
        if a['witness_type'] != 'none':
            kw['witness_type'] = a['witness_type']
        if a['multisig'] != 'none':
            kw['multisig'] = a['multisig'] == 'true'
        if a['account'] != 'none':
            kw['account_id'] = int(a['account'])
        return kw

    def perform(self, c, a=None):
        """Returns (output to scan, new subject or None)."""
        from bitcoinlib.keys import HDKey, sign
        from bitcoinlib.transactions import Transaction
        k = self.subj
        kind = self.kind
        rng = self.rng
        a = a or dict(NOARGS)
        if c == 'reflect':
            return reflect(k), None
        if c == 'copy':
            how = rng.random()
            return None, copy.deepcopy(k) if how < 0.4 else (pickle.loads(pickle.dumps(k)) if how < 0.8 else copy.copy(k))
        if c == 'repr':
            out = [repr(k), str(k)]
            if kind in ('key', 'hdkey'):
                out += [bytes(k), k.hex(), k.as_hex(), k.as_bytes(), k.address(), k.hash160, k.public_hex, k.public_byte,
                        k.public_uncompressed_hex, k.public_point(), k.address_obj, k.address_obj.as_dict(), repr(k.address_obj),
                        k.public_compressed_byte]
            elif kind == 'sig':
                out += [bytes(k), k.hex()]
            return out, None
        if kind in ('key', 'hdkey'):
            if c == 'wif':
                kw = self.kwargs(a, extended=False)
                return (k.wif_key(**kw) if kind == 'hdkey' else k.wif(**kw)), None
            if c == 'as_dict':
                return [k.as_dict(), k.as_json()], None
            if c == 'as_dict_priv':
                return [k.as_dict(include_private=True), k.as_json(include_private=True)], None
            if c == 'info':
                return captured(k.info), None
            if c == 'encrypt':
                return k.encrypt('correct horse'), None
            if c == 'public':
                return None, k.public()
            if c == 'sign':
                z = bytes(rng.getrandbits(8) for _ in range(32))
                sg = sign(z, k)
                self.kind = 'sig'
                return None, sg
            if c in ('mktx_pub', 'mktx_priv', 'mktx_addr'):
                t = self._newtx(c[5:])
                self.kind = 'tx'
                return None, t
        if kind == 'hdkey':
            if c in ('wif_public', 'wif_private'):
                kw = self.kwargs(a)
                if c == 'wif_public':
                    return (k.wif_public(**kw) if a['form'] == 'named' else
                            [k.wif(is_private=False, **kw), k.wif(**kw), k.wif(is_private=None, **kw)]), None
                return (k.wif_private(**kw) if a['form'] == 'named' else k.wif(is_private=True, **kw)), None
            if c in ('child_priv', 'child_pub'):
                i = rng.choice([0, 1, 7, 2 ** 31 - 1])
                hard = c == 'child_priv' and rng.random() < 0.5
                how = rng.random()
                if c == 'child_priv':
                    new = k.child_private(i, hardened=hard) if how < 0.5 else k.subkey_for_path("%d%s" % (i, "'" if hard else ''))
                else:
                    new = k.child_public(i) if how < 0.5 else k.subkey_for_path("M/%d" % i if k.is_private else "%d" % i)
                self._descend(lambda sh: sh.child_private(i, hardened=hard))
                return None, new
            if c in ('public_path', 'public_root'):
                # the public root 'M': every path shape, every hardened marker, string and list form
                mark = rng.choice(["'", 'h', 'H', 'p', 'P'])
                a, b = rng.choice([0, 44, 84, 48]), rng.choice([0, 1, 2 ** 31 - 1])
                i, j = rng.choice([0, 1, 5]), rng.choice([0, 7, 2 ** 31 - 1])
                if c == 'public_root':
                    levels = []
                else:
                    shape = self.npath % 6
                    self.npath += 1 + rng.randrange(2)
                    levels = [['%d' % i, '%d' % j], ['%d%s' % (a, mark), '%d%s' % (b, mark)], ['%d%s' % (a, mark)],
                              ['%d%s' % (a, mark), '%d%s' % (b, mark), '%d' % i], ['%d' % i, '%d%s' % (a, mark)], ['%d' % i]][shape]
                path = ['M'] + levels
                self.desc.setdefault('paths', []).append('/'.join(path))
                new = k.subkey_for_path(path if rng.random() < 0.3 else '/'.join(path))
                if levels:
                    self._descend(lambda sh: sh.subkey_for_path(['m'] + levels))
                return None, new
            if c in ('public_master', 'public_master_priv'):
                kw = self.kwargs(a)
                if a['form'] == 'named' and a['multisig'] == 'true':
                    kw.pop('multisig')
                    new = k.public_master_multisig(as_private=(c == 'public_master_priv'), **kw)
                    kw['multisig'] = True
                else:
                    new = k.public_master(as_private=(c == 'public_master_priv'), **kw)
                self._descend(lambda sh: sh.public_master(as_private=True, **kw))
                return None, new
        if kind == 'sig':
            if c == 'as_der':
                return [k.as_der_encoded(), k.as_der_encoded(as_hex=True), k.bytes(), k.hex()], None
        if kind == 'tx':
            if c == 'as_dict':
                return [k.as_dict(), k.as_json()], None
            if c == 'info':
                return captured(k.info), None
            if c == 'raw':
                return [k.raw(), k.raw_hex(), k.txid, k.signature_hash(0)], None
            if c in ('save', 'load'):
                if self.tmp is None:
                    self.tmp = tempfile.mkdtemp(prefix='c16tx_', dir=os.environ['BCL_DATA_DIR'])
                fn = os.path.join(self.tmp, 'saved_%d.tx' % rng.getrandbits(30))
                k.save(fn)
                if c == 'save':
                    with open(fn, 'rb') as f:
                        return f.read(), None
                return None, Transaction.load(filename=fn)
            if c == 'reparse':
                return None, Transaction.parse(k.raw(), network=self.net)
        raise NotImplementedError('call %s on %s' % (c, kind))

    def _descend(self, f):
        old = self.shadow.secret
        self.shadow = f(self.shadow)
        self.nchild += 1
        if 2 ** 200 < old and old != self.shadow.secret:
            self.others['par%d' % self.nchild] = old


def replay_key_history(start, hist, seed):
    w = KeyWorld(start, seed)
    steps = []
    where = []
    for c in hist:
        ok = True
        out = None
        err = ''
        kind_before, shadow_before, others_before, nchild_before = w.kind, w.shadow, dict(w.others), w.nchild
        new_subject = False
        a = w.args_for(c)
        try:
            out, new = w.perform(c, a)
            if new is not None:
                w.subj = new
                new_subject = True
        except Exception as e:              # any exception = the call was refused
            ok = False
            err = repr(e)[:100]
            w.kind, w.shadow, w.others, w.nchild = kind_before, shadow_before, others_before, nchild_before
        nd = w.needles()
        fo = nd.scan(out, 'out') if ok and out is not None else {}
        fh = {}
        nd.in_graph(w.subj, fh, 'graph')
        try:
            nd.in_bytes(pickle.dumps(w.subj), fh, 'pickle')
        except Exception:
            pass
        if new_subject or c is hist[-1]:        # (a deep copy of an unchanged object is scanned once, at the end)
            try:
                nd.in_graph(copy.deepcopy(w.subj), fh, 'deepcopy')
            except Exception:
                pass
        os_, oo = split(fo)
        hs, ho = split(fh)
        steps.append({'c': c, 'a': a, 'ok': ok, 'os': os_, 'oo': oo, 'hs': hs, 'ho': ho})
        where.append({'out': {a: b for a, b in fo.items()}, 'held': {a: b for a, b in fh.items()}, 'err': err,
                      'kind': w.kind, 'private': bool(getattr(w.subj, 'is_private', False))})
    if w.tmp:
        import shutil
        shutil.rmtree(w.tmp, True)
    return {'rec': {'kind': 'key', 'start': start, 'steps': steps}, 'where': where, 'desc': w.desc}


def key_worker(job):
    logging.disable(logging.CRITICAL)
    out = []
    argspace, job = job
    ARGSPACE.clear()
    ARGSPACE.update(argspace)
    for start, hist, seed in job:
        out.append(replay_key_history(start, hist, seed))
    return out


# =====================================================================================================================
# wallets
# =====================================================================================================================
WTS = ['legacy', 'segwit', 'p2sh-segwit']
# wallet creation routes: (route, witness type or None = seeded choice)
WALLET_KINDS = [('hd_master', 'segwit'), ('hd_acct_priv', None), ('single_wif', None), ('ms_priv_pub', None), ('hd_flat_path', None),
                ('hd_master', 'legacy'), ('hd_acct_priv_wif', None), ('single_hex', None), ('ms_pub_priv_pub', None), ('hd_unhardened_account', None),
                ('hd_master', 'p2sh-segwit'), ('hd_xprv', None), ('single_key', None), ('ms_priv_priv_pub', None), ('hd_short_hardened', None),
                ('hd_generated', None), ('single_hdkey', None), ('ms_acctpriv_pub', None), ('ms_single_keys', 'legacy'), ('hd_other_depth', None),
                ('hd_passphrase', None), ('hd_purpose', None),
                # wallets that are not private at their main key and acquire private keys later (call import_private)
                ('watch_acct_import', None), ('watch_single_import', None), ('watch_ms_import', None), ('watch_master_import', None),
                ('watch_acct_import', None), ('watch_single_import', None), ('ms_all_priv', None)]
IMPORT_ROUTES = ('watch_acct_import', 'watch_single_import', 'watch_ms_import', 'watch_master_import')
MAY_REFUSE = ('hd_other_depth',)         # creation routes the library may legitimately refuse
W_FILLERS = ['get_key', 'new_key', 'new_account', 'key_lookup', 'mainkey_key', 'wif_priv', 'as_dict_priv', 'keys_priv', 'send', 'reopen',
             'import_private']
W_VIEWS = ['repr', 'as_dict', 'info', 'wif_pub', 'public_master', 'keys_as_dict', 'wk_repr', 'wk_as_dict', 'wk_public',
           'tx_views', 'tx_save', 'addresses']
W_WATCH_BATTERY = ['as_dict_priv', 'wif_priv', 'keys_priv', 'public_master', 'wk_repr', 'mainkey_key', 'as_dict', 'send', 'tx_save']


class WalletWorld:
    def __init__(self, wkind, seed):
        from bitcoinlib.wallets import Wallet
        from bitcoinlib.keys import HDKey, Key
        from bitcoinlib.mnemonic import Mnemonic
        self.rng = rng = random.Random(seed)
        route, wt = wkind
        self.route = route
        self.wt = wt = wt or rng.choice(WTS)
        self.net = net = 'bitcoinlib_test'
        self.dir = tempfile.mkdtemp(prefix='c16w_', dir=os.environ['BCL_DATA_DIR'])
        self.db_uri = 'sqlite:///' + os.path.join(self.dir, 'wallet.sqlite')
        self.name = 'c16_%d' % seed
        self.secrets = {}          # name -> scalar
        self.bypub = {}            # public key bytes -> name
        self.watch = False
        self.tx = None
        self.nwatch = 0
        self.cosigner_priv = None
        self.master = None
        self.nimport = 4 if route in IMPORT_ROUTES else seed % 5       # (import routes start with the unrelated keys)
        self.scheme = 'single' if route.startswith('single') else ('ms' if route.startswith('ms') else 'hd')
        kw = {'witness_type': wt}          # creation arguments, reused (with the exported keys) for the watch-only wallet
        if route == 'hd_master':
            keys = HDKey(network=net, witness_type=wt)
        elif route == 'hd_xprv':
            keys = HDKey(network=net, witness_type=wt).wif_private()
        elif route == 'hd_generated':
            keys = None
        elif route == 'hd_passphrase':
            keys = Mnemonic().generate()
        elif route == 'hd_purpose':
            keys = HDKey(network=net, witness_type=wt)
            kw['purpose'] = rng.choice([0, 45, 100])
        elif route in ('hd_acct_priv', 'hd_acct_priv_wif'):
            # a private account key at the depth of the public master
            keys = HDKey(network=net, witness_type=wt).public_master(account_id=rng.choice([0, 0, 3]), witness_type=wt, as_private=True)
            if route.endswith('wif'):
                keys = keys.wif_private()
        elif route == 'hd_other_depth':
            path = rng.choice(["m/84'", "m/44'/0'", "m/84'/0'/0'/0", "m/44'/0'/0'/0/3", "m/0/1"])
            keys = HDKey(network=net, witness_type=wt).subkey_for_path(path)
        elif route == 'hd_flat_path':
            keys = HDKey(network=net, witness_type=wt)
            kw['key_path'] = rng.choice(["m/change/address_index", ["m", "change", "address_index"]])
        elif route == 'hd_unhardened_account':
            keys = HDKey(network=net, witness_type=wt)
            kw['key_path'] = "m/account/change/address_index"
        elif route == 'hd_short_hardened':
            keys = HDKey(network=net, witness_type=wt)
            kw['key_path'] = "m/purpose'/account'/change/address_index"
        elif route == 'single_wif':
            keys = Key(network=net).wif()
        elif route == 'single_hex':
            keys = Key(network=net).private_hex
        elif route == 'single_key':
            keys = Key(network=net, compressed=wt != 'legacy' or rng.random() < 0.6)
        elif route == 'single_hdkey':
            keys = HDKey(network=net, witness_type=wt)
        elif route.startswith('ms'):
            mk = lambda: HDKey(network=net, witness_type=wt, multisig=True)
            a, b, c = mk(), mk(), mk()
            pub = lambda k: k.public_master_multisig(witness_type=wt)
            self.cosigner_priv = b
            kw['sigs_required'] = 2
            if route == 'ms_priv_pub':
                keys = [a, pub(b)]
                if rng.random() < 0.5:
                    keys.reverse()
            elif route == 'ms_pub_priv_pub':
                keys = [pub(b), a, pub(c)]
            elif route == 'ms_priv_priv_pub':
                keys = [a, c, pub(b)]
                kw['cosigner_id'] = rng.choice([0, 1])
            elif route == 'ms_all_priv':
                keys = [a, b] if rng.random() < 0.5 else [a, b, c]
                kw['cosigner_id'] = rng.randrange(len(keys))
            elif route == 'ms_acctpriv_pub':
                keys = [a.public_master_multisig(witness_type=wt, as_private=True), pub(b)]
                kw['sigs_required'] = rng.choice([1, 2])
            else:                       # ms_single_keys: plain keys, no derivation
                sk = lambda: HDKey(network=net, key_type='single', witness_type=wt)
                b = sk()
                self.cosigner_priv = b
                keys = [sk(), b.public()]
        elif route in ('watch_acct_import', 'watch_master_import'):
            self.master = HDKey(network=net, witness_type=wt)
            keys = self.master.public_master(witness_type=wt)
            if rng.random() < 0.5:
                keys = keys.wif()
        elif route == 'watch_single_import':
            self.master = HDKey(network=net, witness_type=wt)
            keys = rng.choice([self.master.public(), self.master.public_hex, self.master.wif_public()])
            self.scheme = 'single'
        elif route == 'watch_ms_import':
            mk = lambda: HDKey(network=net, witness_type=wt, multisig=True)
            self.master, self.cosigner_priv = mk(), mk()
            keys = [self.master.public_master_multisig(witness_type=wt), self.cosigner_priv.public_master_multisig(witness_type=wt)]
            kw['sigs_required'] = 2
            kw['cosigner_id'] = 0
            self.scheme = 'ms'
        else:
            raise NotImplementedError(route)
        if self.scheme == 'single':
            kw['scheme'] = 'single'
        self.create_kw = kw
        self.w = Wallet.create(self.name, keys=keys, network=net, db_uri=self.db_uri, **kw)
        self.refresh()

    def refresh(self):
        """Secrets in play: every private key stored for this wallet (and its co-signer wallets)."""
        if self.watch:
            return
        from bitcoinlib.db import DbKey
        ids = [self.w.wallet_id] + [c.wallet_id for c in self.w.cosigner]
        for row in self.w.session.query(DbKey).filter(DbKey.wallet_id.in_(ids)).all():
            if row.private:
                s = int.from_bytes(row.private, 'big')
                if s > 2 ** 200:
                    self.secrets['k%d' % row.id] = s
                    self.bypub[bytes(row.public)] = 'k%d' % row.id

    def item(self, value, own=(), priv=True, signed=False, what=''):
        self.refresh()                      # keys created by the call itself are in play as well
        nd = c16_scan.Needles(self.secrets)
        found = nd.scan(value, what)
        own = set(own)
        o = sorted({k.split('.', 1)[1] for k in found if k.split('.', 1)[0] in own})
        x = sorted({k.split('.', 1)[1] for k in found if k.split('.', 1)[0] not in own})
        return {'priv': bool(priv), 'signed': bool(signed), 'own': o, 'other': x, '_where': {k: str(v)[:80] for k, v in found.items()}}

    def reflect_keys(self, p):
        """reflection of the HDKey object(s) a (public) wallet key hands out"""
        try:
            k = p.key()
        except Exception:
            return None
        return [reflect(x) for x in (k if isinstance(k, list) else [k]) if x is not None]

    def accounts(self):
        try:
            return [a for a in self.w.accounts()][:3]
        except Exception:
            return []

    def make_watch(self, exp, d2):
        from bitcoinlib.wallets import Wallet
        self.nwatch += 1
        uri2 = 'sqlite:///' + os.path.join(d2, 'wallet.sqlite')
        name2 = '%s_watch%d' % (self.name.split('_watch')[0], self.nwatch)
        kw = dict(self.create_kw)
        if self.scheme == 'ms':
            kw.setdefault('cosigner_id', 0)
        w2 = Wallet.create(name2, keys=exp, network=self.net, db_uri=uri2, **kw)
        w2.get_key()
        return w2, name2, uri2

    def files(self, directory):
        b = b''
        for f in sorted(glob.glob(os.path.join(directory, 'wallet.sqlite*'))):
            with open(f, 'rb') as fh:
                b += fh.read()
        return b

    def perform(self, c):
        from bitcoinlib.wallets import Wallet
        from bitcoinlib.keys import Key
        w = self.w
        rng = self.rng
        if c == 'get_key':
            w.get_key()
            return []
        if c == 'new_key':
            (w.get_key if self.scheme == 'single' else rng.choice([w.new_key, w.new_key_change]))()
            return []
        if c == 'new_account':
            w.new_account()
            return []
        if c == 'import_private':
            # the wallet acquires private keys after its creation: unrelated keys, private keys of its own public keys,
            # the private master key of a watch-only wallet
            from bitcoinlib.keys import HDKey
            self.nimport += 1
            v = self.nimport % 5
            m = self.master
            if self.scheme == 'ms':
                w.import_key(rng.choice([m, m.wif_private()]) if m is not None else HDKey(network=self.net, multisig=True))
            elif v == 0 or (m is None and v in (2, 3, 4)):
                w.import_key(HDKey(network=self.net, witness_type=self.wt).wif_key())                    # unrelated plain WIF
            elif v == 1:
                ik = HDKey(network=self.net, witness_type=self.wt).subkey_for_path(rng.choice(["m/7'/3", "m/0", "m/84'/0'/0'/0/1"]))
                w.import_key(rng.choice([ik, ik.wif_private()]))                                         # unrelated derived xprv
            elif self.scheme == 'single':
                w.import_key(rng.choice([m, m.wif_key(), m.private_hex]))                                # the key of the wallet itself
            elif v == 2:
                row = [r for r in w.keys(depth=w.key_depth) if r.path and r.path[0] in 'mM'][0]
                rel = row.path.split('/')[1:] if row.path[0] == 'M' else None
                acc = m.public_master(witness_type=self.wt, as_private=True)
                ik = acc.subkey_for_path(rel) if rel else m.subkey_for_path(row.path)
                w.import_key(rng.choice([ik, ik.wif_private()]))                                         # private key of an address key
            elif v == 3:
                acc = m.public_master(witness_type=self.wt, as_private=True)
                w.import_key(rng.choice([acc, acc.wif_private()]))                                       # private account key
            else:
                (w.import_master_key if rng.random() < 0.5 else w.import_key)(rng.choice([m, m.wif_private()]))   # private master
            return []
        if c == 'key_lookup':
            for row in w.keys()[:14]:
                w.key(row.id)
            return []
        if c == 'mainkey_key':
            return [self.item(w.main_key.key() if w.main_key else None)]
        if c == 'wif_priv':
            return [self.item(w.wif(is_private=True))]
        if c == 'as_dict_priv':
            return [self.item([w.as_dict(include_private=True), w.as_json(include_private=True)])]
        if c == 'keys_priv':
            return [self.item(w.keys(as_dict=True, include_private=True))]
        if c == 'send':
            w.utxos_update()
            to = Key(RECIPIENT_SCALAR, network=self.net).address()
            bc = rng.random() < 0.6
            how = rng.random()
            if how < 0.6:
                t = w.send_to(to, rng.choice([20000, 500000]), broadcast=bc)
            elif how < 0.8:
                t = w.sweep(to, broadcast=bc)
            else:
                t = w.send([(to, 30000), (w.get_key().address, 40000)], broadcast=bc)
            if self.scheme == 'ms' and not self.watch and rng.random() < 0.5:
                t.sign(self.cosigner_priv)
            self.tx = t
            return []
        if c == 'reopen':
            try:
                w.session.close()
            except Exception:
                pass
            self.w = Wallet(self.name, db_uri=self.db_uri)
            return []
        # ---- public views
        if c == 'repr':
            return [self.item([repr(w), str(w), w.name, w.owner] + ((shown(w) + shown(w.main_key)) if self.watch else []))]
        if c == 'as_dict':
            return [self.item([w.as_dict(), w.as_json()])]
        if c == 'info':
            det = rng.choice([0, 2, 3, 5, 5])
            return [self.item(captured(lambda: w.info(detail=det)))]
        if c == 'wif_pub':
            out = [w.wif(), w.wif(is_private=False)]
            for a in self.accounts():
                try:
                    out.append(w.wif(is_private=False, account_id=a))
                except Exception:
                    pass
            return [self.item(out)]
        if c == 'public_master':
            # for the default account, every account and every witness type (whatever the wallet supports)
            targets = [{}] + [{'account_id': a} for a in self.accounts()] + [{'witness_type': x} for x in WTS]
            items = []
            for kw in targets:
                try:
                    pm = w.public_master(**kw)
                except Exception:
                    continue
                for p in (pm if isinstance(pm, list) else [pm]):
                    k = p.key()
                    items.append(self.item([shown(p), p.as_dict(), p.wif, p.key_private, p.keys_private, shown(k),
                                            [x.as_dict() for x in (k if isinstance(k, list) else [k]) if x is not None],
                                            reflect(p), self.reflect_keys(p)], what='public_master(%s)' % kw))
            if not items:
                raise LookupError('no public master available')
            return items
        if c == 'keys_as_dict':
            out = [w.keys(as_dict=True)]
            for name in ('keys_addresses', 'keys_networks', 'keys_accounts', 'keys_address_payment', 'keys_address_change'):
                try:
                    out.append(getattr(w, name)(as_dict=True))
                except Exception:
                    pass
            return [self.item(out)]
        if c in ('wk_repr', 'wk_as_dict', 'wk_public'):
            items = []
            rows = [(w, r) for r in w.keys()]
            if w.main_key is not None and getattr(w.main_key, '_dbkey', None) is not None:
                rows.insert(0, (w, w.main_key._dbkey))
            for cs in w.cosigner:
                if cs.main_key is not None and getattr(cs.main_key, '_dbkey', None) is not None:
                    rows.append((cs, cs.main_key._dbkey))
            seen = set()
            for wx, row in rows:
                if row.id in seen or len(seen) >= 10:
                    continue
                seen.add(row.id)
                own = ['k%d' % row.id]
                priv = bool(row.is_private and row.private)
                if c == 'wk_repr':
                    items.append(self.item(repr(row), own, priv, what='DbKey %d' % row.id))
                    wk = wx.key(row.id)             # (an earlier public() may have turned the cached object public)
                    items.append(self.item(repr(wk), own, bool(wk.is_private), what='WalletKey %d' % row.id))
                elif c == 'wk_as_dict':
                    items.append(self.item(wx.key(row.id).as_dict(), own, priv))
                else:
                    # the public view of every kind of wallet key (bip32, single, multisig address keys, co-signer main
                    # keys) and everything obtainable from it, by reflection, also from the key objects it hands out
                    p = wx.key(row.id).public()
                    items.append(self.item([shown(p), reflect(p), self.reflect_keys(p)], own, priv,
                                           what='WalletKey %d (%s).public()' % (row.id, row.key_type)))
            return items
        if c == 'addresses':
            return [self.item([w.addresslist(), w.utxos(), w.transactions(as_dict=True), w.transactions_export(), w.balance(),
                               w.accounts(), w.networks(as_dict=True), w.path_expand([0, 0]) if self.scheme == 'hd' else None])]
        if c in ('tx_views', 'tx_save'):
            t = self.tx
            if t is None:
                raise LookupError('no transaction yet')
            own = {self.bypub[bytes(k.public_byte)] for i in t.inputs for k in i.keys if bytes(k.public_byte) in self.bypub}
            priv = bool(own) and not self.watch
            signed = priv and any(i.signatures for i in t.inputs)
            if c == 'tx_views':
                return [self.item([t.as_dict(), t.as_json(), captured(t.info), repr(t), str(t), t.raw_hex(), t.export(), t.txid],
                                  own, priv, signed)]
            fn = os.path.join(self.dir, 'saved_%d.tx' % rng.getrandbits(30))
            t.save(fn)
            with open(fn, 'rb') as f:
                return [self.item(f.read(), own, priv, signed, what='save file')]
        if c == 'to_watch_only':
            # watch-only wallets created (in one new database) from what the wallet hands out as public: the exported
            # WIF(s), and (seeded) the WIF attribute of the public master key(s) or their HDKey objects; the first becomes the subject
            items = []
            made = []
            d2 = tempfile.mkdtemp(prefix='c16watch_', dir=os.environ['BCL_DATA_DIR'])
            for how in ('wif', rng.choice(['pm_wif', 'pm_key'])):
                try:
                    if how == 'wif':
                        exp = w.wif(is_private=False)
                    else:
                        pm = w.public_master()
                        exp = [(p.wif if how == 'pm_wif' else p.key()) for p in pm] if isinstance(pm, list) else \
                            (pm.wif if how == 'pm_wif' else pm.key())
                    w2, name2, uri2 = self.make_watch(exp, d2)
                except Exception:
                    if how == 'wif':
                        raise
                    continue
                made.append((w2, name2, uri2, d2))
                items.append(self.item([shown(exp), shown(w2), shown(w2.main_key), w2.as_dict(include_private=True),
                                        w2.keys(as_dict=True, include_private=True)], what='watch-only wallet object (from %s)' % how))
            items.append(self.item(self.files(d2), what='watch-only database file'))
            self.refresh()
            self.w, self.name, self.db_uri, self.dir = made[0]
            self.w.utxos_update()
            self.watch = True
            self.tx = None
            return items
        raise NotImplementedError(c)


def wallet_history(job):
    logging.disable(logging.CRITICAL)
    seed, wkind, hist = job
    try:
        ww = WalletWorld(tuple(wkind), seed)
    except Exception as e:
        return {'rec': {'kind': 'wallet', 'steps': []}, 'where': [], 'wkind': [str(x) for x in wkind],
                'setup_error': None if wkind[0] in MAY_REFUSE else repr(e), 'refused': repr(e)[:120]}
    steps, where = [], []
    import time as _t
    for c in hist:
        ok, items, err = True, [], ''
        _t0 = _t.time()
        try:
            items = ww.perform(c)
            ww.refresh()
        except Exception as e:
            ok, err = False, repr(e)[:160]
            try:
                ww.w.session.rollback()
            except Exception:
                pass
        where.append({'err': err, 'items': [it.pop('_where') for it in items], 'watch': ww.watch, 'dt': round(_t.time() - _t0, 3)})
        steps.append({'c': c, 'ok': ok, 'items': items})
    return {'rec': {'kind': 'wallet', 'steps': steps}, 'where': where, 'setup_error': None, 'wkind': [ww.route, ww.wt], 'nsecrets': len(ww.secrets)}


def gen_wallet_history(rng, n, route=None):
    """A seeded prefix of n calls (fillers and views); then every public view once in seeded order on the wallet as the
    history left it (earlier calls - also earlier views - may have changed cached objects); then every public view
    again, each on a freshly opened handle; then watch-only wallets built from every public export of a fresh handle,
    and the calls of the watch battery on the watch-only wallet."""
    hist = ['get_key']
    has_tx = False
    for i in range(1, n):
        c = rng.choice(W_FILLERS) if rng.random() < 0.6 else rng.choice(W_VIEWS)
        if c in ('tx_views', 'tx_save') and not has_tx:
            c = 'send'
        if c == 'send':
            has_tx = True
        hist.append(c)
    if route in IMPORT_ROUTES:
        hist[1:1] = ['import_private', rng.choice(['new_key', 'get_key', 'import_private'])]
        hist += ['import_private', 'new_key']
    battery = list(W_VIEWS)
    rng.shuffle(battery)
    if not has_tx:
        battery.insert(rng.randrange(0, 4), 'send')
    hist += battery
    fresh = [c for c in W_VIEWS if c not in ('tx_views', 'tx_save')]        # (the transaction object belongs to the old handle)
    rng.shuffle(fresh)
    for c in fresh:
        hist += ['reopen', c]
    hist += ['reopen', 'to_watch_only']
    tail = list(W_WATCH_BATTERY)
    rng.shuffle(tail)
    tail.remove('tx_save')
    return hist + tail + ['tx_save']


# =====================================================================================================================
# database field encryption (workers are started with DB_FIELD_ENCRYPTION_KEY / _PASSWORD in their environment)
# =====================================================================================================================

def db_history(job):
    logging.disable(logging.CRITICAL)
    seed, mode = job
    from bitcoinlib.wallets import Wallet, wallet_delete
    from bitcoinlib.keys import HDKey, Key
    from bitcoinlib.db import DbKey
    from bitcoinlib.mnemonic import Mnemonic
    from bitcoinlib import db as bdb
    import bitcoinlib.config.config as cfg
    active = 'key' if cfg.DB_FIELD_ENCRYPTION_KEY else ('password' if cfg.DB_FIELD_ENCRYPTION_PASSWORD else 'none')
    if active != mode:
        return {'error': 'worker runs with encryption mode %s, expected %s' % (active, mode)}
    rng = random.Random(seed)
    net = 'bitcoinlib_test'
    d = tempfile.mkdtemp(prefix='c16db_', dir=os.environ['BCL_DATA_DIR'])
    path = os.path.join(d, 'wallet.sqlite')
    uri = 'sqlite:///' + path
    secrets = {}
    steps, where = [], []
    wallets = []

    def collect():
        for w in wallets:
            try:
                for row in w.session.query(DbKey).all():
                    if row.private:
                        s = int.from_bytes(row.private, 'big')
                        if s > 2 ** 200:
                            secrets['k%d' % row.id] = s
            except Exception:
                pass

    def step(name):
        collect()
        b = b''
        for f in sorted(glob.glob(path + '*')):
            with open(f, 'rb') as fh:
                b += fh.read()
        found = c16_scan.Needles(secrets).scan(b) if secrets else {}
        steps.append({'c': name, 'found': sorted({k.split('.', 1)[1] for k in found})})
        where.append(sorted(found)[:8])

    def known(k, name):
        if k.secret and k.secret > 2 ** 200:
            secrets[name] = k.secret
        return k
    to = Key(RECIPIENT_SCALAR, network=net).address()
    wt = rng.choice(['legacy', 'segwit', 'p2sh-segwit'])
    ops = ['create_hd', 'keys', 'import_wif', 'import_hdkey', 'send', 'create_mnemonic', 'create_multisig', 'multisig_send', 'create_single',
           'rename', 'reopen', 'delete']
    tail = ops[1:]
    rng.shuffle(tail)
    a, b = tail.index('create_multisig'), tail.index('multisig_send')
    if b < a:
        tail[a], tail[b] = tail[b], tail[a]
    w = w3 = None
    for op in ['create_hd'] + tail:
        try:
            if op == 'create_hd':
                m = known(HDKey(network=net, witness_type=wt), 'master')
                w = Wallet.create('dbw1', keys=m if rng.random() < 0.5 else m.wif_private(), network=net, witness_type=wt, db_uri=uri)
                wallets.append(w)
            elif op == 'keys':
                w.new_key()
                w.new_key_change()
                w.new_account()
                w.get_keys(number_of_keys=3)
            elif op == 'import_wif':
                ik = known(HDKey(network=net, witness_type=wt), 'imp1')
                w.import_key(ik.wif_key())
            elif op == 'import_hdkey':
                ik = known(HDKey(network=net, witness_type=wt), 'imp2')
                w.import_key(ik.private_hex if rng.random() < 0.5 else ik)
            elif op == 'send':
                w.utxos_update()
                w.send_to(to, 50000, broadcast=rng.random() < 0.7)
                w.sweep(to, broadcast=False)
            elif op == 'create_mnemonic':
                words = Mnemonic().generate()
                known(HDKey.from_passphrase(words, network=net), 'mnemonic-master')
                wallets.append(Wallet.create('dbw2', keys=words, network=net, witness_type=rng.choice(['legacy', 'segwit']), db_uri=uri))
            elif op == 'create_multisig':
                k1 = known(HDKey(network=net, multisig=True), 'cos1')
                k2 = known(HDKey(network=net, multisig=True), 'cos2')
                k3 = HDKey(network=net, multisig=True)
                w3 = Wallet.create('dbw3', keys=[k1, k2, k3.public_master_multisig()], sigs_required=2, cosigner_id=0, network=net, db_uri=uri)
                wallets.append(w3)
                w3.get_key()
            elif op == 'multisig_send' and w3 is not None:
                w3.utxos_update()
                w3.send_to(to, 40000, broadcast=True)
            elif op == 'create_single':
                sk = known(Key(new_secret(rng), network=net), 'single')
                wallets.append(Wallet.create('dbw4', keys=sk, scheme='single', network=net, db_uri=uri))
            elif op == 'rename':
                w.name = 'dbw1_renamed'
                w.key(w.keys()[-1].id).name = 'a renamed key'
            elif op == 'reopen':
                name = w.name
                w.session.close()
                wallets.remove(w)
                w = Wallet(name, db_uri=uri)
                wallets.append(w)
            elif op == 'delete' and len(wallets) > 1:
                victim = [x for x in wallets if x is not w and x is not w3]
                if victim:
                    nm = victim[0].name
                    collect()
                    victim[0].session.close()
                    wallets.remove(victim[0])
                    wallet_delete(nm, db_uri=uri, force=True)
            name = op
        except Exception as e:
            name = op + ' (raised %s)' % type(e).__name__
            for x in wallets:
                try:
                    x.session.rollback()
                except Exception:
                    pass
        step(name)
    return {'rec': {'kind': 'db', 'mode': mode, 'steps': steps}, 'where': where, 'nsecrets': len(secrets), 'seed': seed,
            'impl': [type(bdb.EncryptedBinary.impl).__name__ if not isinstance(bdb.EncryptedBinary.impl, type) else bdb.EncryptedBinary.impl.__name__]}
