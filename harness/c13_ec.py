"""Faster evaluation of the ECDSA oracle fact for C13 (Jacobian coordinates, simultaneous multiplication).

The reference interpretation of the primitive is harness/ref.py (affine, one modular inversion per addition, 20 ms per
verification).  This module computes the same function about 15 times faster; it is not trusted on its own: `selftest`
compares it with ref.ecdsa_verify / ref.ec_mul on random and boundary inputs at the start of every run, and every 25th
call is recomputed with ref.ecdsa_verify (any difference is a machinery failure, exit 2).
"""
import random

from harness import ref

P, N, G, INF = ref.P, ref.N, ref.G, ref.INF
_calls = [0]


def _dbl(X, Y, Z):
    if Z == 0 or Y == 0:
        return 0, 1, 0
    YY = Y * Y % P
    S = 4 * X * YY % P
    M = 3 * X * X % P
    X2 = (M * M - 2 * S) % P
    return X2, (M * (S - X2) - 8 * YY * YY) % P, 2 * Y * Z % P


def _add_affine(X1, Y1, Z1, x2, y2):
    if Z1 == 0:
        return x2, y2, 1
    ZZ = Z1 * Z1 % P
    H = (x2 * ZZ - X1) % P
    R = (y2 * Z1 * ZZ - Y1) % P
    if H == 0:
        return _dbl(X1, Y1, Z1) if R == 0 else (0, 1, 0)
    HH = H * H % P
    HHH = H * HH % P
    V = X1 * HH % P
    X3 = (R * R - HHH - 2 * V) % P
    return X3, (R * (V - X3) - Y1 * HHH) % P, Z1 * H % P


def lin_comb(u1, u2, Q):
    """u1*G + u2*Q as an affine point (None = infinity); Q affine, on the curve."""
    GQ = ref.ec_add(G, Q)
    acc = (0, 1, 0)
    for i in range(max(u1.bit_length(), u2.bit_length()) - 1, -1, -1):
        acc = _dbl(*acc)
        b1, b2 = (u1 >> i) & 1, (u2 >> i) & 1
        pt = None
        if b1 and b2:
            pt = GQ
        elif b1:
            pt = G
        elif b2:
            pt = Q
        if pt is not None and pt is not INF:
            acc = _add_affine(acc[0], acc[1], acc[2], pt[0], pt[1])
    X, Y, Z = acc
    if Z == 0:
        return INF
    zi = pow(Z, -1, P)
    return X * zi * zi % P, Y * zi * zi * zi % P


def mul_G(k):
    return lin_comb(k % N, 0, G)


def ecdsa_verify(pub_pt, z, r, s, check=True):
    """Same function as ref.ecdsa_verify."""
    if pub_pt is INF or pub_pt is None or not ref.on_curve(pub_pt):
        res = False
    elif not (1 <= r < N and 1 <= s < N):
        res = False
    else:
        w = pow(s, -1, N)
        pt = lin_comb(z * w % N, r * w % N, pub_pt)
        res = pt is not INF and pt[0] % N == r
    _calls[0] += 1
    if check and _calls[0] % 25 == 1 and res != ref.ecdsa_verify(pub_pt, z, r, s):
        from harness.common import MachineryError
        raise MachineryError('c13_ec.ecdsa_verify differs from ref.ecdsa_verify on %r' % ((pub_pt, z, r, s),))
    return res


def selftest(n=5):
    from harness.common import MachineryError
    rng = random.Random(13)
    for k in [1, 2, 3, N - 1, N - 2, N, N + 1, (N - 1) // 2, 1 << 255] + [rng.randrange(1, N) for _ in range(4)]:
        if mul_G(k) != ref.ec_mul(k):
            raise MachineryError('c13_ec.mul_G differs from ref.ec_mul for k=%d' % k)
    for i in range(n):
        d = rng.choice([1, 2, N - 1, rng.randrange(1, N)])
        Q = ref.ec_mul(d)
        z = rng.choice([0, 1, N, 2 ** 256 - 1, rng.getrandbits(256)])
        k = rng.randrange(1, N)
        r = ref.ec_mul(k)[0] % N
        s = pow(k, -1, N) * (z + r * d) % N
        for (zz, rr, ss, QQ) in [(z, r, s, Q), (z, r, N - s, Q), (z + 1, r, s, Q), (z, r, s, ref.ec_neg(Q)), (z, 0, s, Q),
                                 (z, r, N, Q), (z, r + 1, s, Q), (z, r, s, ref.ec_mul(d + 1))]:
            if ecdsa_verify(QQ, zz, rr, ss, check=False) != ref.ecdsa_verify(QQ, zz, rr, ss):
                raise MachineryError('c13_ec.ecdsa_verify differs from ref.ecdsa_verify')
    # Q = -G makes G+Q infinite; u1 = u2 gives infinity
    if lin_comb(5, 5, ref.ec_neg(G)) is not INF or ecdsa_verify(ref.ec_neg(G), 5, 5, 1, check=False) != ref.ecdsa_verify(ref.ec_neg(G), 5, 5, 1):
        raise MachineryError('c13_ec: infinity handling')
    return True
