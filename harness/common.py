"""Shared machinery of the /verif checks: environment, TLC runner, verdict bookkeeping, evidence.

Every check is `code against specification`: TLC evaluates the TLA+ modules under /verif/spec and either
(M) model-checks a bounded instance, (G) generates expected results / behaviours that are replayed into
bitcoinlib, or (V) validates records and traces observed from bitcoinlib.
"""
import atexit
import hashlib
import json
import os
import random
import re
import shutil
import subprocess
import sys
import tempfile
import time
from concurrent.futures import ThreadPoolExecutor

VERIF = os.path.dirname(os.path.dirname(os.path.abspath(__file__)))
# evidence/ and replays/ of this run; set by seeded/try.sh so that runs against seeded changes do not overwrite the
# evidence of the real tree
OUT = os.environ.get('VERIF_OUT', VERIF)
REPO = os.environ.get('VERIF_REPO', '/repo')
SPEC = os.path.join(VERIF, 'spec')
TLA_CP = '/opt/veriftools/tla/tla2tools.jar:/opt/veriftools/tla/CommunityModules-deps.jar'
NCPU = min(16, os.cpu_count() or 4)


class MachineryError(Exception):
    """Failure of the verification machinery itself (exit 2) - never a property verdict."""


def tier():
    return os.environ.get('VERIF_TIER', 'quick')


def seed():
    try:
        return int(os.environ.get('VERIF_SEED', '20260926'))
    except ValueError:
        return 20260926


_scratch = None


def scratch():
    """Per-process scratch directory (removed at exit)."""
    global _scratch
    if _scratch is None:
        # worker processes put their scratch directory inside the parent's, so it disappears with it even when the pool
        # terminates the worker without running its exit handlers
        parent = os.environ.get('VERIF_SCRATCH_PARENT')
        _scratch = tempfile.mkdtemp(prefix='verif_', dir=parent if parent and os.path.isdir(parent) else None)
        atexit.register(shutil.rmtree, _scratch, True)
    return _scratch


def fresh_bitcoinlib_env():
    """Point bitcoinlib at a fresh data directory and make sure it is imported from REPO's working tree.
    Must be called before `import bitcoinlib`."""
    d = os.path.join(scratch(), 'bcl_%d' % os.getpid())
    os.makedirs(d, exist_ok=True)
    os.environ['BCL_DATA_DIR'] = d
    os.environ.setdefault('BITCOINLIB_VERIF', '1')
    if REPO not in sys.path:
        sys.path.insert(0, REPO)
    import bitcoinlib  # noqa
    if not os.path.abspath(bitcoinlib.__file__).startswith(os.path.abspath(REPO) + os.sep):
        raise MachineryError('bitcoinlib imported from %s, not from %s' % (bitcoinlib.__file__, REPO))
    return d


# ---------------------------------------------------------------------------------------------
# TLC
# ---------------------------------------------------------------------------------------------

def _tlc_cmd(module, cfg, workers, extra, jvm):
    # (TLC unpacks the modules it takes from jar files into java.io.tmpdir: kept inside the scratch directory)
    cmd = ['java', '-XX:+UseParallelGC', '-Djava.io.tmpdir=' + scratch()] + list(jvm) + ['-cp', TLA_CP, 'tlc2.TLC',
                                                        '-workers', str(workers), '-noGenerateSpecTE']
    cmd += list(extra) + ['-config', cfg, module]
    return cmd


def run_tlc(module, cfg=None, env=None, workers=NCPU, extra=(), timeout=1800, jvm=('-Xmx6g',), cwd=SPEC,
            metadir=None):
    """Run TLC on spec/<module>.tla with spec/<cfg>. Returns (returncode, stdout)."""
    cfg = cfg or (module + '.cfg')
    md = metadir or tempfile.mkdtemp(prefix='tlcmeta_', dir=scratch())
    e = dict(os.environ)
    if env:
        e.update({k: str(v) for k, v in env.items()})
    cmd = _tlc_cmd(module, cfg, workers, ['-metadir', md] + list(extra), jvm)
    try:
        p = subprocess.run(cmd, cwd=cwd, env=e, stdout=subprocess.PIPE, stderr=subprocess.STDOUT, timeout=timeout,
                           text=True, errors='replace')
    except subprocess.TimeoutExpired:
        raise MachineryError('TLC timed out after %ss: %s %s' % (timeout, module, cfg))
    finally:
        shutil.rmtree(md, True)
    return p.returncode, p.stdout


_STATS = re.compile(r'(\d+) states generated, (\d+) distinct states found, (\d+) states left on queue')
_DEPTH = re.compile(r'The depth of the complete state graph search is (\d+)')


def tlc_stats(out):
    m = None
    for m in _STATS.finditer(out):
        pass
    d = _DEPTH.search(out)
    return {'generated': int(m.group(1)) if m else 0, 'distinct': int(m.group(2)) if m else 0,
            'queue': int(m.group(3)) if m else 0, 'depth': int(d.group(1)) if d else 0}


_COV = re.compile(r'^<(\w+) line (\d+), col \d+ to line \d+, col \d+ of module (\w+)(?: \([\d ]+\))?>: (\d+):(\d+)', re.M)


def tlc_action_coverage(out):
    """Per-action (distinct, generated) counts from a `-coverage 1` run (last report wins)."""
    cov = {}
    for m in _COV.finditer(out):
        cov[m.group(1)] = (int(m.group(4)), int(m.group(5)))
    return cov


def model_check(module, cfg, env=None, workers=NCPU, timeout=1800, expect_actions=(), extra=(), coverage=True):
    """(M): exhaustive TLC run; any invariant/property violation of the *design* is a machinery failure
    (the spec itself is wrong), as is an action of `expect_actions` that was never taken (vacuity)."""
    t0 = time.time()
    rc, out = run_tlc(module, cfg, env=env, workers=workers, timeout=timeout,
                      extra=(['-coverage', '1'] if coverage else []) + list(extra))
    st = tlc_stats(out)
    if rc != 0 or 'Model checking completed. No error has been found.' not in out:
        raise MachineryError('model check %s/%s failed (rc=%s):\n%s' % (module, cfg, rc, out[-4000:]))
    cov = tlc_action_coverage(out)
    for a in expect_actions:
        if cov.get(a, (0, 0))[1] == 0:
            raise MachineryError('vacuity: action %s of %s never taken (coverage %s)' % (a, module, cov))
    st['coverage'] = {k: v[1] for k, v in cov.items()}
    st['wall_s'] = round(time.time() - t0, 2)
    st['module'] = module
    st['cfg'] = cfg
    return st


def _eval_chunk(args):
    module, recs, env, idx, timeout, cfg = args
    d = tempfile.mkdtemp(prefix='eval_', dir=scratch())
    fin = os.path.join(d, 'in.ndjson')
    fout = os.path.join(d, 'out.ndjson')
    with open(fin, 'w') as f:
        for r in recs:
            f.write(json.dumps(r, separators=(',', ':')) + '\n')
    e = {'IN_FILE': fin, 'OUT_FILE': fout}
    e.update(env or {})
    rc, out = run_tlc(module, cfg, env=e, workers=1, timeout=timeout, jvm=('-Xmx3g', '-Xss64m'))
    if rc != 0 or not os.path.exists(fout):
        raise MachineryError('TLC evaluation of %s failed (rc=%s):\n%s' % (module, rc, out[-4000:]))
    res = []
    with open(fout) as f:
        for line in f:
            line = line.strip()
            if line:
                res.append(json.loads(line))
    shutil.rmtree(d, True)
    if len(res) != len(recs):
        raise MachineryError('TLC evaluation of %s returned %d results for %d records' % (module, len(res), len(recs)))
    return res


def tlc_eval(module, recs, env=None, chunk=None, procs=NCPU, timeout=1800, cfg='Eval.cfg'):
    """Have TLC evaluate `Out(rec)` of spec/<module>.tla (an *Eval module: reads IOEnv.IN_FILE as ndjson, writes one
    JSON value per record to IOEnv.OUT_FILE) for every record; records are spread over parallel TLC processes.
    An empty record list is answered without starting TLC."""
    recs = list(recs)
    if not recs:
        return []
    if chunk is None:
        chunk = max(1, (len(recs) + procs - 1) // procs)
    jobs = [(module, recs[i:i + chunk], env, k, timeout, cfg) for k, i in enumerate(range(0, len(recs), chunk))]
    out = []
    with ThreadPoolExecutor(max_workers=procs) as ex:
        for r in ex.map(_eval_chunk, jobs):
            out.extend(r)
    return out


# ---------------------------------------------------------------------------------------------
# Known findings, verdicts, evidence
# ---------------------------------------------------------------------------------------------

def load_known(pid):
    """Known findings (status known) of property pid: known_findings.json plus known_findings.d/*.json."""
    import glob
    files = [os.path.join(VERIF, 'known_findings.json')] + sorted(glob.glob(os.path.join(VERIF, 'known_findings.d', '*.json')))
    res = {}
    for fn in files:
        if not os.path.exists(fn):
            continue
        data = json.load(open(fn))
        for f in data.get('findings', []):
            if f.get('property') == pid and f.get('status') == 'known':
                res[f['key']] = f
    return res


class Check:
    """Bookkeeping of one check run: counts, violations (attributed to known findings or not), evidence."""

    def __init__(self, pid, level='model_checking'):
        self.pid = pid
        self.level = level
        self.t0 = time.time()
        self.known = load_known(pid)
        self.known_hits = {}
        self.violations = []
        self.evaluations = 0
        self.distinct = set()
        self.samples = []
        self.models = []
        self.traces = 0
        self.assumptions = []
        self.notes = {}
        self.beyond_obs = {}
        self.rule = ''
        self.rng = random.Random(seed())
        shutil.rmtree(os.path.join(OUT, 'replays', pid), True)      # replay files of earlier runs

    # -- counting ---------------------------------------------------------------------------
    def count(self, n=1):
        self.evaluations += n

    def case(self, klass):
        """Record one evaluated case; `klass` is its (hashable) non-triviality class."""
        self.evaluations += 1
        self.distinct.add(klass)

    def sample(self, s, limit=6):
        if len(self.samples) < limit:
            self.samples.append(s)

    def model(self, st):
        self.models.append(st)

    # -- verdicts ---------------------------------------------------------------------------
    def violation(self, key, what, case=None):
        """A disagreement between code and specification. `key` is the attribution computed by the check
        (name of the spec deviation that explains the observed behaviour exactly, or None)."""
        if key is not None and key in self.known:
            h = self.known_hits.setdefault(key, {'n': 0, 'example': what})
            h['n'] += 1
            return False
        self.violations.append({'key': key, 'what': what, 'case': case})
        return True

    def beyond(self, name, what):
        """A disagreement with a part of the specification that is NOT covered by the statement of any listed property
        (specification growth, DESIGN section 7).  Reported and recorded in the evidence; never an alarm."""
        h = self.beyond_obs.setdefault(name, {'n': 0, 'example': what})
        h['n'] += 1

    def finish(self, extra_cov=None):
        wall = round(time.time() - self.t0, 2)
        for name, h in sorted(self.beyond_obs.items()):
            print('NOTE: beyond the listed properties (no alarm): %s [%d occurrences, e.g. %s]' % (name, h['n'], str(h['example'])[:300]))
        for key, h in sorted(self.known_hits.items()):
            print('KNOWN-FINDING: property=%s key=%s %s [%d occurrences, e.g. %s]' % (
                self.pid, key, self.known[key].get('what', ''), h['n'], str(h['example'])[:300]))
        rdir = os.path.join(OUT, 'replays', self.pid)
        seen = set()
        for v in self.violations:
            blob = json.dumps({'property': self.pid, 'key': v['key'], 'what': v['what'], 'case': v['case'],
                               'seed': seed(), 'tier': tier()}, sort_keys=True, default=str, indent=1)
            dg = hashlib.sha256(blob.encode()).hexdigest()[:16]
            path = os.path.join(rdir, dg + '.json')
            if dg in seen:
                continue
            seen.add(dg)
            if len(seen) <= 25:
                os.makedirs(rdir, exist_ok=True)
                with open(path, 'w') as f:
                    f.write(blob)
                print('VIOLATION property=%s replay=%s' % (self.pid, path))
                print('  ' + str(v['what'])[:600])
        if os.environ.get('VERIF_DEBUG'):
            import collections
            grp = collections.Counter()
            ex = {}
            for v in self.violations:
                m = re.search(r'clause ([\w-]+)', str(v['what']))
                g = (v['key'], m.group(1) if m else str(v['what'])[:50])
                grp[g] += 1
                ex.setdefault(g, []).append(str(v['what'])[:300])
            for g, n in grp.most_common():
                print('DEBUG group', g, n)
                for e in ex[g][:int(os.environ.get('VERIF_DEBUG'))]:
                    print('     ', e)
        if len(seen) > 25:
            print('(%d further violations of %s not written out)' % (len(seen) - 25, self.pid))
        states = sum(m.get('distinct', 0) for m in self.models)
        trans = sum(m.get('generated', 0) for m in self.models)
        cov = {
            'states': states,
            'transitions': trans,
            'traces_validated_against_impl': self.traces,
            'samples': self.samples or ['(none)'],
            'evaluations': self.evaluations,
            'distinct_nontrivial': len(self.distinct),
            'rule': self.rule,
            'models': self.models,
            'known_findings_observed': {k: h['n'] for k, h in self.known_hits.items()},
            'exhaustive': False,
        }
        cov.update(self.notes)
        if self.beyond_obs:
            cov['beyond_property_observations'] = self.beyond_obs
        if extra_cov:
            cov.update(extra_cov)
        ev = {'property_id': self.pid, 'tier': tier(), 'seed': seed(), 'level': self.level, 'coverage': cov,
              'assumptions': self.assumptions, 'wall_s': wall, 'violations': len(self.violations)}
        os.makedirs(os.path.join(OUT, 'evidence'), exist_ok=True)
        with open(os.path.join(OUT, 'evidence', self.pid + '.json'), 'w') as f:
            json.dump(ev, f, indent=1, default=str)
        print('%s %s: %d evaluations, %d distinct classes, %d spec states, %d traces/replays, %d violations, '
              '%d known-finding keys, %.1fs' % (self.pid, tier(), self.evaluations, len(self.distinct), states,
                                                self.traces, len(self.violations), len(self.known_hits), wall))
        return 1 if self.violations else 0


def hx(b):
    return bytes(b).hex()


def blist(b):
    """bytes -> JSON list of ints (TLA+ Seq(0..255))."""
    return list(bytes(b))


def unblist(l):
    return bytes(l)


# ---------------------------------------------------------------------------------------------
# parallel drivers (fresh interpreter per worker, each with its own bitcoinlib data directory)
# ---------------------------------------------------------------------------------------------

def _worker_init(config_ini, extra_env):
    import tempfile as _t
    global _scratch
    _scratch = None
    os.environ.update(extra_env or {})
    d = os.path.join(scratch(), 'bcl_%d' % os.getpid())
    os.makedirs(d, exist_ok=True)
    if config_ini:
        with open(os.path.join(d, 'config.ini'), 'w') as f:
            f.write(config_ini)
    fresh_bitcoinlib_env()


def pmap(func, jobs, procs=NCPU, config_ini=None, extra_env=None, chunksize=1):
    """Run func(job) for every job in freshly spawned worker processes (bitcoinlib imported from REPO with a private
    data directory per worker; optional config.ini content). Results in job order."""
    import multiprocessing as mp
    jobs = list(jobs)
    if not jobs:
        return []
    ctx = mp.get_context('spawn')
    procs = max(1, min(procs, len(jobs)))
    os.environ['VERIF_SCRATCH_PARENT'] = scratch()
    with ctx.Pool(procs, initializer=_worker_init, initargs=(config_ini, extra_env)) as pool:
        return pool.map(func, jobs, chunksize)


def tlc_printed(out, tag):
    """JSON payloads of lines  <<"TAG", "<json>">>  printed by PrintT."""
    res = []
    pre = '<<"%s", "' % tag
    for line in out.splitlines():
        if line.startswith(pre) and line.endswith('">>'):
            inner = line[len(pre):-3]
            res.append(json.loads(json.loads('"' + inner + '"')))
    return res
