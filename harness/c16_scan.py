"""C16 helper: scanner for private key material.

Given the secrets in play (name -> 256-bit scalar) the scanner reports, for any Python value (text, bytes, an arbitrary
object graph, a pickle, a file), which secret occurs in which encoding class:

  raw   the 32 big-endian bytes (in a bytes value, or their Python repr inside a text)
  hex   the hexadecimal digits (any case, with or without leading zeros)
  int   the number itself (a Python int, its decimal digits in a text, its little-endian bytes as written by pickle)
  wif   a Base58 string whose decoding is <version byte> <32 bytes> [01] <checksum> (any version byte)
  xprv  a Base58 string whose decoding is a 78+4 byte extended key carrying 00 <32 bytes> (any version bytes)
  b58   any other Base58 string whose decoding contains the 32 bytes

A finding is the string '<secret name>.<class>'.  Nothing of bitcoinlib is used here.
"""
import hashlib
import re

B58 = '123456789ABCDEFGHJKLMNPQRSTUVWXYZabcdefghijkmnopqrstuvwxyz'
_B58IDX = {c: i for i, c in enumerate(B58)}
_B58TOKEN = re.compile('[%s]{44,}' % B58)
CLASSES = ['raw', 'hex', 'int', 'wif', 'xprv', 'b58']


def b58decode(s):
    n = 0
    for c in s:
        n = n * 58 + _B58IDX[c]
    pad = len(s) - len(s.lstrip('1'))
    return b'\0' * pad + (n.to_bytes((n.bit_length() + 7) // 8, 'big') if n else b'')


def b58encode(b):
    n = int.from_bytes(b, 'big')
    s = ''
    while n:
        n, r = divmod(n, 58)
        s = B58[r] + s
    return '1' * (len(b) - len(b.lstrip(b'\0'))) + s


class Needles:
    """Pre-computed search patterns of the secrets in play."""

    def __init__(self, secrets):
        self.items = []
        for name, s in secrets.items():
            s = int(s)
            if s.bit_length() < 200:
                raise ValueError('secret %s too small to be searched for without false alarms' % name)
            raw = s.to_bytes(32, 'big')
            self.items.append({'name': name, 'int': s, 'raw': raw, 'rawstrip': raw.lstrip(b'\0'), 'le': raw[::-1].rstrip(b'\0'),
                               'hex': format(s, 'x'), 'dec': str(s), 'repr': repr(raw)[2:-1]})

    # -- text ---------------------------------------------------------------------------------------------------------
    def in_text(self, text, found, where='', deep=False):
        if len(text) < 40:
            return
        low = None
        tokens = None
        for it in self.items:
            if low is None:
                low = text.lower()
            if it['hex'] in low:
                found.setdefault(it['name'] + '.hex', where)
            if it['dec'] in text:
                found.setdefault(it['name'] + '.int', where)
            if it['repr'] in text:
                found.setdefault(it['name'] + '.raw', where)
        for m in _B58TOKEN.finditer(text):
            tok = m.group(0)
            # a Base58 string may be embedded in a longer run of Base58 characters (no separator): try the known lengths too
            # the string may be glued to neighbouring Base58 characters (pickle length bytes, adjacent columns of a
            # database record): try the known lengths at the edges, and everywhere inside binary data
            cands = {tok}
            whole = b58decode(tok)
            standalone = len(whole) > 4 and hashlib.sha256(hashlib.sha256(whole[:-4]).digest()).digest()[:4] == whole[-4:]
            for ln in (51, 52, 111, 112):
                extra = len(tok) - ln
                if extra > 0 and not standalone:
                    if deep and extra <= 160:
                        offs = range(0, extra + 1)
                    else:
                        offs = {o for o in list(range(0, 5)) + list(range(extra - 4, extra + 1)) if 0 <= o <= extra}
                    for st in offs:
                        cands.add(tok[st:st + ln])
            for c in cands:
                try:
                    d = b58decode(c)
                except Exception:
                    continue
                for it in self.items:
                    if it['raw'] in d:
                        pos = d.find(it['raw'])
                        if len(d) in (37, 38) and pos == 1:
                            cls = 'wif'
                        elif len(d) == 82 and pos == 46:
                            cls = 'xprv'
                        else:
                            cls = 'b58'
                        found.setdefault(it['name'] + '.' + cls, where)

    # -- bytes --------------------------------------------------------------------------------------------------------
    def in_bytes(self, b, found, where=''):
        if len(b) < 20:
            return
        b = bytes(b)
        for it in self.items:
            if it['rawstrip'] in b:
                found.setdefault(it['name'] + '.raw', where)
            if it['le'] in b and it['le'] != it['rawstrip']:
                found.setdefault(it['name'] + '.int', where)
        self.in_text(b.decode('latin-1'), found, where, deep=True)

    def in_int(self, v, found, where=''):
        if isinstance(v, bool) or v < 2 ** 190:
            return
        for it in self.items:
            if v == it['int']:
                found.setdefault(it['name'] + '.int', where)
            elif v.bit_length() > 256:
                if it['raw'] in v.to_bytes((v.bit_length() + 7) // 8, 'big'):
                    found.setdefault(it['name'] + '.raw', where)

    # -- object graph -------------------------------------------------------------------------------------------------
    def in_graph(self, obj, found, where='', limit=200000):
        """Everything reachable from obj through attributes (__dict__, __slots__) and containers.  ORM instances are
        scanned for their loaded column values only (relationships are not followed back into the database); sessions,
        engines, modules, classes and functions are not entered."""
        import types
        seen = set()
        stack = [(obj, where)]
        n = 0
        while stack:
            o, path = stack.pop()
            n += 1
            if n > limit:
                raise RuntimeError('object graph too large')
            if o is None or isinstance(o, (bool, float)):
                continue
            if isinstance(o, int):
                self.in_int(o, found, path)
                continue
            if isinstance(o, str):
                self.in_text(o, found, path)
                continue
            if isinstance(o, (bytes, bytearray, memoryview)):
                self.in_bytes(bytes(o), found, path)
                continue
            if id(o) in seen:
                continue
            seen.add(id(o))
            if isinstance(o, (types.ModuleType, types.FunctionType, types.BuiltinFunctionType, types.MethodType, type)):
                continue
            mod = type(o).__module__ or ''
            if isinstance(o, dict):
                for k, v in o.items():
                    stack.append((k, path + '{key}'))
                    stack.append((v, '%s[%r]' % (path, k) if isinstance(k, (str, int)) else path + '[..]'))
                continue
            if isinstance(o, (list, tuple, set, frozenset)):
                for i, v in enumerate(o):
                    stack.append((v, '%s[%d]' % (path, i)))
                continue
            if hasattr(type(o), '__table__'):                      # ORM instance: loaded columns only
                cols = set(c.key for c in type(o).__table__.columns)
                for k, v in list(getattr(o, '__dict__', {}).items()):
                    if k in cols:
                        stack.append((v, '%s.%s' % (path, k)))
                continue
            if mod.startswith('sqlalchemy') or mod.startswith('logging') or mod.startswith('threading'):
                continue
            d = getattr(o, '__dict__', None)
            if isinstance(d, dict):
                for k, v in list(d.items()):
                    stack.append((v, '%s.%s' % (path, k)))
            for cls in type(o).__mro__:
                for k in getattr(cls, '__slots__', ()) or ():
                    if isinstance(k, str) and hasattr(o, k):
                        try:
                            stack.append((getattr(o, k), '%s.%s' % (path, k)))
                        except Exception:
                            pass
            if not isinstance(d, dict) and not hasattr(type(o), '__slots__'):
                # opaque extension object (e.g. a fastecdsa point, a datetime): its repr is what can be seen of it
                try:
                    self.in_text(repr(o), found, path + '<repr>')
                except Exception:
                    pass
        return found

    def scan(self, value, where=''):
        found = {}
        self.in_graph(value, found, where)
        return found


def selftest():
    """The scanner must find every encoding class it claims to find (planted in text, bytes, pickles and object graphs)
    and must stay silent on public data.  Failure = machinery failure."""
    import hashlib
    import pickle
    s = int.from_bytes(hashlib.sha256(b'c16 scanner selftest').digest(), 'big')
    t = int.from_bytes(hashlib.sha256(b'c16 scanner selftest other').digest(), 'big')
    raw = s.to_bytes(32, 'big')
    nd = Needles({'k': s})

    def chk(payload):
        return payload + hashlib.sha256(hashlib.sha256(payload).digest()).digest()[:4]
    wif = b58encode(chk(b'\x80' + raw + b'\x01'))
    wifu = b58encode(chk(b'\xef' + raw))
    xprv = b58encode(chk(bytes.fromhex('0488ade4') + b'\x03' + b'abcd' + b'\0\0\0\x07' + bytes(range(32)) + b'\0' + raw))

    class O:
        __slots__ = ('a', 'b')

    class D:
        pass
    o = O()
    o.a = [1, {'x': (raw,)}]
    o.b = None
    d = D()
    d.inner = {'deep': [o]}
    cases = [
        ('text-hex', nd.scan('key=%064x;' % s), {'k.hex'}), ('text-HEX', nd.scan(('%064x' % s).upper()), {'k.hex'}),
        ('text-0x', nd.scan(hex(s)), {'k.hex'}), ('text-dec', nd.scan('secret %d.' % s), {'k.int'}),
        ('text-wif', nd.scan('wif=%s, ' % wif), {'k.wif'}), ('text-wif-u', nd.scan(wifu), {'k.wif'}),
        ('text-xprv', nd.scan('<x %s>' % xprv), {'k.xprv'}), ('text-repr', nd.scan(repr({'p': raw})), {'k.raw'}),
        ('int', nd.scan([0, s]), {'k.int'}), ('bytes', nd.scan(b'zz' + raw + b'yy'), {'k.raw'}),
        ('pickle-int', nd.scan(pickle.dumps({'s': s})), {'k.int'}), ('pickle-bytes', nd.scan(pickle.dumps([raw])), {'k.raw'}),
        ('pickle-wif', nd.scan(pickle.dumps((wif, 5))), {'k.wif'}), ('graph', nd.scan(d), {'k.raw'}),
        ('sqlite-like', nd.scan(b'\0\x01' + wif.encode() + b'\x05\x06' + xprv.encode()), {'k.wif', 'k.xprv'}),
        ('sqlite-glued', nd.scan(b'\0\x01Zq' + xprv.encode() + b'bip321BoatSLRHtKNngkdXEeobR76b53LETtpyT\x05'), {'k.xprv'}),
        ('glued', nd.scan('abc' + wif + 'xyz'), {'k.wif'}), ('pickle-wif-u', nd.scan(pickle.dumps([wifu, 1])), {'k.wif'}),
        ('pickle-xprv', nd.scan(pickle.dumps({'x': xprv})), {'k.xprv'}),
        ('public', nd.scan(['%064x' % t, t, t.to_bytes(32, 'big'), b58encode(chk(b'\x80' + t.to_bytes(32, 'big')))]), set()),
    ]
    bad = [(n, sorted(f), sorted(e)) for n, f, e in cases if set(f) != e]
    if bad:
        from harness.common import MachineryError
        raise MachineryError('C16 scanner self-test failed: %r' % bad)
    return len(cases)
