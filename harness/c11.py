"""C11 - checksummed text encodings (Base58Check address / WIF / extended key / BIP38, Bech32 / Bech32m) against
spec/Checksum.tla.

(M) MC_Checksum: bounded model - Base58 is a bijection with the leading-zero rule, Base58Check accepts exactly the
    canonical strings, and the Bech32 mutation machine (every single substitution / insertion / deletion / swap / case
    flip / truncation of valid segwit addresses is rejected by the specified decoder).
(G) valid strings of every kind, version and network are *built by TLC* (B58Encode, SegwitEncode, Bech32EncodeRaw) from
    random payloads; the harness only supplies sha256d values (harness/ref.py).  Damaged strings are derived from them
    (all single-character substitutions / insertions / deletions / transpositions, random multi-character damage,
    case changes, truncated / padded forms, and re-checksummed invalid forms).
(V) every string goes through every import path of bitcoinlib - the address decoders with default arguments AND with each
    explicit optional argument (encoding='base58'/'bech32', as_hex=True, prefix=, network=) and addr_convert; TLC
    (ChecksumEval) judges each observation: acceptance, payload, version / network, key flags, BIP32 fields, the
    re-encoded / converted string.  'Accepted' means: the call came back without raising - a None / empty return value
    for an invalid string is a disagreement of its own clause (returned-nothing-without-raising-...).
"""
import os

from harness import common, ref
from harness.common import Check, tier

PID = 'C11'
B58 = '123456789ABCDEFGHJKLMNPQRSTUVWXYZabcdefghijkmnopqrstuvwxyz'
B32 = 'qpzry9x8gf2tvdw0s3jn54khce6mua7l'
B58_EXTRA = ['0', 'O', 'I', 'l', ' ', '\xe9']
B32_EXTRA = ['b', 'i', 'o', '1', ' ', 'Q']

ADDR_PATHS = ['a2p', 'ab58', 'ab32', 'deser', 'parse', 'output']
# the same functions with each explicit optional argument, and addr_convert; every address string takes the default
# paths plus one of these groups in rotation (valid, re-checksummed, case-changed, truncated/padded strings take all)
ADDR_OPT_PATHS = [['a2p_b58', 'a2p_b32', 'a2p_hex', 'conv', 'conv_b58'],
                  ['deser_b58', 'deser_b32', 'deser_net', 'ab58_hex', 'ab32_hex', 'conv_b32'],
                  ['parse_b58', 'parse_b32', 'parse_net', 'ab32_pfx']]
HRP_NET = {'bc': 'bitcoin', 'tb': 'testnet', 'bcrt': 'regtest', 'ltc': 'litecoin', 'tltc': 'litecoin_testnet',
           'blt': 'bitcoinlib_test'}
VER_NET = {0: 'bitcoin', 5: 'bitcoin', 111: 'testnet', 196: 'testnet', 48: 'litecoin', 50: 'litecoin', 58: 'litecoin_testnet',
           30: 'dogecoin', 22: 'dogecoin', 113: 'dogecoin_testnet', 144: 'bitcoinlib_test', 149: 'bitcoinlib_test'}
KEY_PATHS = ['key', 'keyfw', 'hdkey', 'hdfw']

# published BIP38 vectors (non-EC-multiplied): string, passphrase, private key, compressed
BIP38_VECTORS = [
    ('6PRVWUbkzzsbcVac2qwfssoUJAN1Xhrg6bNk8J7Nzm5H7kxEbn2Nh2ZoGg', 'TestingOneTwoThree',
     'cbf4b9f70470856bb4f40f80b87edb90865997ffee6df315ab166d713af433a5', 0),
    ('6PRNFFkZc2NZ6dJqFfhRoFNMR9Lnyj7dYGrzdgXXVMXcxoKTePPX1dWByq', 'Satoshi',
     '09c2686880095b1a4c249ee3ac4eea8a014f11e6f986d0b5025ac1f39afbd9ae', 0),
    ('6PYNKZ1EAgYgmQfmNVamxyXVWHzK5s6DGhwP4J5o44cvXdoY7sRzhtpUeo', 'TestingOneTwoThree',
     'cbf4b9f70470856bb4f40f80b87edb90865997ffee6df315ab166d713af433a5', 1),
    ('6PYLtMnXvfG3oJde97zRyLYFZCYizPU5T3LwgdYJz1fRhh16bU7u6PPmY7', 'Satoshi',
     '09c2686880095b1a4c249ee3ac4eea8a014f11e6f986d0b5025ac1f39afbd9ae', 1),
]


def codes(s):
    return [ord(c) for c in s]


def uncodes(l):
    return ''.join(chr(c) for c in l)


# ---------------------------------------------------------------------------------------------
# observation of the implementation (runs in worker processes)
# ---------------------------------------------------------------------------------------------

def _blank(p):
    return {'p': p, 'acc': False, 'pay': [], 'hasver': False, 'ver': [], 'haswv': False, 'wv': -1, 'hasnet': False,
            'net': '', 'iskey': False, 'priv': False, 'comp': 0, 'hashd': False, 'hd': [], 'rok': False, 're': [],
            'nul': False, 'argp': [], 'argn': '', 'rd': {'ok': False, 'b': []}}


def _ver(x):
    if isinstance(x, (bytes, bytearray)):
        return list(x)
    return codes(x)


def _key_proj(o, k, hd):
    o['iskey'] = True
    o['priv'] = bool(k.is_private)
    o['comp'] = 1 if k.compressed else 0
    o['pay'] = list(k.private_byte if k.is_private else k.public_byte)
    o['hasnet'] = True
    o['net'] = k.network.name
    if hd and k.key_type == 'bip32':
        o['hashd'] = True
        o['hd'] = list(bytes([k.depth]) + bytes(k.parent_fingerprint) + int(k.child_index).to_bytes(4, 'big') +
                       bytes(k.chain))
        o['rok'] = True
        o['re'] = codes(k.wif(is_private=k.is_private))
    elif hd:
        if k.is_private:
            o['rok'] = True
            o['re'] = codes(k.wif_key())
    elif k.is_private:
        o['rok'] = True
        o['re'] = codes(k.wif())


def _empty(r):
    """The call came back without raising, but with nothing: None, False, '' , b'', {} ..."""
    return r is None or r is False or (hasattr(r, '__len__') and len(r) == 0)


def _addr_call(o, s, p, arg):
    """Address import paths: <function>[_<explicit optional argument>] (see PB58/PB32 in ChecksumEval.tla)."""
    from bitcoinlib import encoding as E
    from bitcoinlib import keys as K
    base, _, opt = p.partition('_')
    kw = {}
    if opt == 'b58':
        kw['encoding'] = 'base58'
    elif opt == 'b32':
        kw['encoding'] = 'bech32'
    elif opt == 'hex':
        kw['as_hex'] = True
    elif opt == 'pfx':
        kw['prefix'] = arg['hrp']
        o['argp'] = codes(arg['hrp'])
    elif opt == 'net':
        kw['network'] = arg['net']
        o['argn'] = arg['net']
    elif opt:
        raise common.MachineryError('unknown option of path ' + p)
    if base in ('a2p', 'ab58', 'ab32'):
        f = {'a2p': E.addr_to_pubkeyhash, 'ab58': E.addr_base58_to_pubkeyhash, 'ab32': E.addr_bech32_to_pubkeyhash}[base]
        r = f(s, **kw)
        if _empty(r):
            o['nul'] = True
            return
        o['pay'] = list(bytes.fromhex(r) if opt == 'hex' else r)
        if p == 'ab32':
            w = E.addr_bech32_to_pubkeyhash(s, include_witver=True)
            o['haswv'] = True
            o['wv'] = w[0] - 0x50 if w[0] else 0
    elif base == 'deser':
        d = K.deserialize_address(s, **kw)
        if _empty(d):
            o['nul'] = True
            return
        o['pay'] = list(d['public_key_hash_bytes'])
        o['hasver'] = True
        o['ver'] = _ver(d['prefix'])
        o['hasnet'] = True
        o['net'] = d['network'] or ''
        if d['witver'] is not None:
            o['haswv'] = True
            o['wv'] = d['witver']
    elif base == 'parse':
        a = K.Address.parse(s, **kw)
        if _empty(a):
            o['nul'] = True
            return
        o['pay'] = list(a.hash_bytes)
        o['hasver'] = True
        o['ver'] = _ver(a.prefix)
        o['hasnet'] = True
        o['net'] = a.network.name
        o['rok'] = True
        o['re'] = codes(a.address)
    elif base == 'conv':
        # convert to the same encoding under another version byte (testnet P2PKH) / human readable part (tb)
        to58 = opt == 'b58' or (opt == '' and not arg['is32'])
        o['argp'] = [0x6f] if to58 else codes('tb')
        r = K.addr_convert(s, '6f' if to58 else 'tb', **kw)
        if _empty(r):
            o['nul'] = True
            return
        o['re'] = codes(r)          # judged through its decoding (filled in as o['rd'] after TLC's pass 1)
    else:
        raise common.MachineryError('unknown path ' + p)


def observe_one(s, p, pw=None, widx=0, arg=None):
    """Hand string s to import path p.  An exception of any type means 'refused'; coming back without an exception
    means 'accepted' - with o['nul'] set when what came back is None / empty."""
    from bitcoinlib import encoding as E
    from bitcoinlib import keys as K
    o = _blank(p)
    try:
        if p.split('_')[0] in ('a2p', 'ab58', 'ab32', 'deser', 'parse', 'conv'):
            _addr_call(o, s, p, arg or {'hrp': 'bc', 'net': 'bitcoin', 'is32': False})
        elif p == 'output':
            from bitcoinlib.transactions import Output
            t = Output(1000, address=s)
            o['pay'] = list(t.public_hash)
            o['hasnet'] = True
            o['net'] = t.network.name
        elif p == 'key':
            _key_proj(o, K.Key(s), False)
        elif p == 'keyfw':
            _key_proj(o, K.Key.from_wif(s), False)
        elif p == 'hdkey':
            _key_proj(o, K.HDKey(s), True)
        elif p == 'hdfw':
            _key_proj(o, K.HDKey.from_wif(s), True)
        elif p == 'key_pw':
            _key_proj(o, K.Key(s, password=pw), False)
            o['rok'] = False
            o['re'] = []
        elif p == 'hdkey_pw':
            # (BIP38 commits to the legacy P2PKH address: with HDKey's default witness type segwit no BIP38 key imports)
            _key_proj(o, K.HDKey(s, password=pw, witness_type='legacy'), True)
            o['rok'] = False
            o['re'] = []
        elif p == 'wallet':
            from bitcoinlib.wallets import Wallet
            db = 'sqlite:///' + os.path.join(os.environ['BCL_DATA_DIR'], 'c11_%d_%d.sqlite' % (os.getpid(), widx))
            w = Wallet.create('c11w', keys=s, db_uri=db)
            _key_proj(o, w.main_key.key(), True)
            o['re'] = codes(w.main_key.wif)
        else:
            raise common.MachineryError('unknown path ' + p)
    except common.MachineryError:
        raise
    except BaseException as e:          # noqa - any exception is a refusal
        if isinstance(e, (KeyboardInterrupt, SystemExit, MemoryError)):
            raise
        o2 = _blank(p)
        o2['argp'], o2['argn'] = o['argp'], o['argn']
        return o2
    o['acc'] = True
    return o


def _observe_chunk(job):
    out = []
    for i, (s, paths, pw, arg) in enumerate(job):
        out.append([observe_one(s, p, pw, i, arg) for p in paths])
    return out


# ---------------------------------------------------------------------------------------------
# damage (input generators; no oracle role)
# ---------------------------------------------------------------------------------------------

def single_mutants(s, alphabet, extra, rng, exhaustive, nsub=8, nins=3, caseflip=False):
    """(op, string) for single-character substitutions, insertions, deletions, transpositions at EVERY position;
    all alternative characters if exhaustive, else `nsub`/`nins` sampled alternatives per position plus the extras."""
    res = []
    full = list(alphabet) + list(extra)
    for i, c in enumerate(s):
        alts = full if exhaustive else rng.sample(alphabet, nsub) + list(extra)
        if caseflip and c.swapcase() != c:
            alts = alts + [c.swapcase()]
        for a in alts:
            if a != c:
                res.append(('subst', s[:i] + a + s[i + 1:]))
    for i in range(len(s) + 1):
        alts = full if exhaustive else rng.sample(alphabet, nins) + list(extra[:2])
        for a in alts:
            res.append(('insert', s[:i] + a + s[i:]))
    for i in range(len(s)):
        res.append(('delete', s[:i] + s[i + 1:]))
    for i in range(len(s) - 1):
        if s[i] != s[i + 1]:
            res.append(('swap', s[:i] + s[i + 1] + s[i] + s[i + 2:]))
    return res


def multi_damage(s, alphabet, rng, n):
    res = []
    for _ in range(n):
        t = list(s)
        kind = rng.randrange(4)
        if kind == 0:       # 2..4 substitutions
            for i in rng.sample(range(len(t)), rng.randrange(2, 5)):
                t[i] = rng.choice([a for a in alphabet if a != t[i]])
            res.append(('multi-subst', ''.join(t)))
        elif kind == 1:     # a burst
            i = rng.randrange(len(t) - 4)
            for j in range(i, i + rng.randrange(2, 5)):
                t[j] = rng.choice(alphabet)
            res.append(('burst', ''.join(t)))
        elif kind == 2:     # delete one, insert one elsewhere (length preserved)
            del t[rng.randrange(len(t))]
            t.insert(rng.randrange(len(t) + 1), rng.choice(alphabet))
            res.append(('del+ins', ''.join(t)))
        else:               # swap two distant characters
            i, j = rng.sample(range(len(t)), 2)
            t[i], t[j] = t[j], t[i]
            res.append(('swap-far', ''.join(t)))
    return res


def trunc_pad(s, lead):
    res = []
    for n in (1, 2, 3, 5, 8):
        res.append(('drop-front', s[n:]))
        res.append(('drop-back', s[:-n]))
    for pad in (lead, lead * 2, ' ', '\n', '\t'):
        res.append(('pad-front', pad + s))
    for pad in (lead, ' ', '\n', '=', s[-1]):
        res.append(('pad-back', s + pad))
    res.append(('empty-ish', s[:1]))
    return res


# ---------------------------------------------------------------------------------------------

def _b58dec(s):
    n = 0
    for c in s:
        n = n * 58 + B58.index(c)
    b = n.to_bytes((n.bit_length() + 7) // 8, 'big')
    return b'\x00' * (len(s) - len(s.lstrip('1'))) + b


def _b58enc(b):
    n = int.from_bytes(b, 'big')
    out = ''
    while n:
        n, r = divmod(n, 58)
        out = B58[r] + out
    return '1' * (len(b) - len(b.lstrip(b'\x00'))) + out


def run(replay=None):
    ref.selftest()
    common.fresh_bitcoinlib_env()
    ck = Check(PID)
    rng = ck.rng
    thorough = tier() == 'thorough'
    ck.rule = ('a case = (string, import path incl. its explicit optional argument); class = (kind of seed string, damage '
               'operator, import path, outcome '
               'of the specification). Seed strings are encoded by TLC from random payloads for every version / network; '
               'damage = every single-character substitution/insertion/deletion/transposition (all alternatives for the '
               'exhaustive seeds, sampled alternatives at every position for the others), multi-character damage, case '
               'changes, truncation/padding, re-checksummed invalid forms')
    ck.assumptions = ['TLC evaluates Checksum.tla correctly', 'sha256d is supplied by harness/ref.py (hashlib)',
                      'BIP38: decryption is not specified here; the key of a BIP38 string is the published vector and a '
                      'damaged BIP38 payload is assumed to fail the 32-bit address-hash test',
                      'an exception of any type counts as refusal; returning None / an empty value without raising counts as '
                      'acceptance with an empty payload',
                      'prefix= / network= argument values are those of the seed string, every fourth time those of another '
                      'network; mutants take the default-argument paths plus one of three groups of optional-argument paths']

    # ---------------- (M)
    ck.model(common.model_check('MC_Checksum', 'MC_Checksum_thorough.cfg' if thorough else 'MC_Checksum.cfg',
                                expect_actions=['MPick', 'MSubst', 'MInsert', 'MDelete', 'MSwap', 'MCase', 'MTrunc'],
                                workers=8, env={'JDK_JAVA_OPTIONS': '-Xss64m'}))

    def h4(b):
        return ref.sha256d(bytes(b))[:4]

    def rb(n):
        return bytes(rng.randrange(256) for _ in range(n))

    items = []      # dict(fam, s, paths, pw, seed, op, kind, sd/okey/ocomp)

    def addr_arg(kind, n):
        """Values for the prefix= / network= arguments (inputs, not oracle: the specification judges whether they fit):
        those of the seed string, every fourth time those of another network."""
        t = kind.split('-')
        hrp, net = 'bc', 'bitcoin'
        if t[0] == 'seg' and t[1] in HRP_NET:
            hrp, net = t[1], HRP_NET[t[1]]
        elif t[0] == 'b58addr' and t[1][:1] == 'v' and t[1][1:].isdigit():
            net = VER_NET.get(int(t[1][1:]), 'bitcoin')
        if n % 4 == 3:
            hrp = 'tb' if hrp != 'tb' else 'bc'
            net = 'litecoin' if net != 'litecoin' else 'bitcoin'
        return {'hrp': hrp, 'net': net, 'is32': t[0] == 'seg'}

    def add(fam, kind, op, s, paths=None, pw=None, b38=None, arg=None):
        if paths is None and fam == 'addr':
            n = len(items)
            some = op in ('subst', 'insert', 'delete', 'swap', 'multi-subst', 'burst', 'del+ins', 'swap-far')
            paths = ADDR_PATHS + (ADDR_OPT_PATHS[n % 3] if some else sum(ADDR_OPT_PATHS, []))
            arg = addr_arg(kind, n)
        items.append({'fam': fam, 'kind': kind, 'op': op, 's': s, 'paths': paths or KEY_PATHS, 'pw': pw, 'b38': b38, 'arg': arg})

    if replay:
        c = replay['case']
        add(c['fam'], c['kind'], c['op'], c['s'], c['paths'], c.get('pw'), c.get('b38'), c.get('arg'))
    else:
        # ---------------- seeds, built by the specification (G)
        gen = []    # (tag, record)
        addr_versions = [0, 5, 111, 196, 48, 50, 58, 30, 22, 113, 144, 149]
        for v in addr_versions:
            for j in range(3 if thorough else 1):
                p = bytes([v]) + rb(20)
                gen.append((('addr', 'b58addr-v%d' % v), {'k': 'b58enc', 'b': list(p + h4(p))}))
        for z in (1, 2, 5):         # hashes with leading zero bytes under version 0: strings starting 11..
            p = bytes(1 + z) + rb(20 - z)
            gen.append((('addr', 'b58addr-zeros%d' % z), {'k': 'b58enc', 'b': list(p + h4(p))}))
        for v in [128, 239, 176, 158, 241, 153]:
            for comp in (0, 1):
                key = rb(32)
                p = bytes([v]) + key + (b'\x01' if comp else b'')
                gen.append((('key', 'wif-v%d-%s' % (v, 'c' if comp else 'u')), {'k': 'b58enc', 'b': list(p + h4(p))}))
        p = bytes([128]) + rb(31) + b'\x01'            # uncompressed key whose last byte is 01
        gen.append((('key', 'wif-u-key-ends-01'), {'k': 'b58enc', 'b': list(p + h4(p))}))
        p = bytes([128]) + bytes(3) + rb(29) + b'\x01'  # compressed, key with leading zero bytes
        gen.append((('key', 'wif-c-key-leading-zeros'), {'k': 'b58enc', 'b': list(p + h4(p))}))
        xprv = ['0488ade4', '049d7878', '0295b005', '04b2430c', '02aa7a99', '04358394', '044a4e28', '024285b5', '045f18bc',
                '02575048', '019d9cfe', '01b26792', '0436ef7d', '2fffaddd']
        xpub = ['0488b21e', '049d7cb2', '0295b43f', '04b24746', '02aa7ed3', '043587cf', '044a5262', '024289ef', '045f1cf6',
                '02575483', '019da462', '01b26ef6', '0436f6e1', '2fffaccc']
        for i, v in enumerate(xprv + xpub):
            priv = v in xprv
            if not thorough and i not in (0, 3, 5, 10, 14, 18, 20, 27):
                continue
            depth = rng.choice([0, 1, 3, 5, 255])
            idx = rng.choice([0, 1, 2 ** 31, 2 ** 31 + 44, 2 ** 32 - 1]) if depth else 0
            fp = rb(4) if depth else bytes(4)
            if priv:
                kd = b'\x00' + (rng.randrange(1, ref.N)).to_bytes(32, 'big')
            else:
                kd = ref.pubkey(rng.randrange(1, ref.N), True)
            p = bytes.fromhex(v) + bytes([depth]) + fp + idx.to_bytes(4, 'big') + rb(32) + kd
            gen.append((('key', 'x%s-%s' % ('prv' if priv else 'pub', v)), {'k': 'b58enc', 'b': list(p + h4(p))}))
        for v, depth in (('0488ade4', 0), ('04b2430c', 0), ('0488b21e', 3)):     # master / account keys for Wallet.create
            kd = (b'\x00' + (rng.randrange(1, ref.N)).to_bytes(32, 'big')) if depth == 0 else ref.pubkey(rng.randrange(1, ref.N), True)
            p = bytes.fromhex(v) + bytes([depth]) + (rb(4) if depth else bytes(4)) + ((2 ** 31).to_bytes(4, 'big') if depth else bytes(4)) + rb(32) + kd
            gen.append((('key', 'walletseed-%s' % v), {'k': 'b58enc', 'b': list(p + h4(p))}))
        segs = [('bc', 0, 20), ('bc', 0, 32), ('bc', 1, 32), ('tb', 0, 20), ('tb', 1, 32), ('bcrt', 0, 20), ('ltc', 0, 20),
                ('tltc', 0, 32), ('blt', 0, 20), ('bc', 16, 2), ('bc', 2, 40), ('tb', 5, 17)]
        for hrp, ver, n in segs:
            gen.append((('addr', 'seg-%s-v%d-%d' % (hrp, ver, n)), {'k': 'segenc', 'hrp': codes(hrp), 'ver': ver, 'prog': list(rb(n))}))
        # re-checksummed invalid forms: the checksum is right, something else is not
        bad = []
        for n in (19, 21, 0):
            p = bytes([0]) + rb(n)
            bad.append((('addr', 'b58addr-hashlen%d' % n), {'k': 'b58enc', 'b': list(p + h4(p))}))
        for v in (1, 42, 128, 255):
            p = bytes([v]) + rb(20)
            bad.append((('addr', 'b58addr-unknown-version'), {'k': 'b58enc', 'b': list(p + h4(p))}))
        for n, suffix in ((31, b''), (33, b''), (32, b'\x02'), (31, b'\x01'), (16, b''), (32, b'\x01\x01')):
            p = bytes([128]) + rb(n)[:-1] + b'\x07' + suffix
            bad.append((('key', 'wif-badlen-%d-%s' % (n, suffix.hex())), {'k': 'b58enc', 'b': list(p + h4(p))}))
        for v in (0, 42, 129):
            p = bytes([v]) + rb(32) + b'\x01'
            bad.append((('key', 'wif-unknown-version'), {'k': 'b58enc', 'b': list(p + h4(p))}))
        for n in (73, 75, 70):
            p = bytes.fromhex('0488ade4') + bytes([0]) + bytes(8) + rb(32) + (b'\x00' + rb(32))[:n - 41]
            if n > 74:
                p += rb(n - 74)
            bad.append((('key', 'xkey-badlen-%d' % (len(p))), {'k': 'b58enc', 'b': list(p + h4(p))}))
        p = bytes.fromhex('0488ade4') + bytes([0]) + bytes(8) + rb(32) + ref.pubkey(rng.randrange(1, ref.N), True)
        bad.append((('key', 'xkey-private-version-public-keydata'), {'k': 'b58enc', 'b': list(p + h4(p))}))
        p = bytes.fromhex('0488b21e') + bytes([0]) + bytes(8) + rb(32) + b'\x00' + rb(32)
        bad.append((('key', 'xkey-public-version-private-keydata'), {'k': 'b58enc', 'b': list(p + h4(p))}))
        p = bytes.fromhex('0488b21e') + bytes([0]) + bytes(8) + rb(32) + b'\x05' + rb(32)
        bad.append((('key', 'xkey-public-version-keydata-prefix-05'), {'k': 'b58enc', 'b': list(p + h4(p))}))
        for v in ('0488ade5', '00000000', '0488b21f'):
            p = bytes.fromhex(v) + bytes([0]) + bytes(8) + rb(32) + b'\x00' + rb(32)
            bad.append((('key', 'xkey-unknown-version'), {'k': 'b58enc', 'b': list(p + h4(p))}))

        def d5(prog):
            bits = ''.join('{:08b}'.format(x) for x in prog)
            bits += '0' * (-len(bits) % 5)
            return [int(bits[i:i + 5], 2) for i in range(0, len(bits), 5)]
        pr20, pr32 = rb(20), rb(32)
        raws = [('seg-wrong-const-v0-bech32m', 'bc', [0] + d5(pr20), True),
                ('seg-wrong-const-v1-bech32', 'bc', [1] + d5(pr32), False),
                ('seg-witver-17', 'bc', [17] + d5(pr32), True),
                ('seg-witver-31', 'bc', [31] + d5(pr20), True),
                ('seg-v0-len21', 'bc', [0] + d5(rb(21)), False),
                ('seg-v0-len19', 'bc', [0] + d5(rb(19)), False),
                ('seg-v1-len1', 'bc', [1] + d5(rb(1)), True),
                ('seg-v1-len41', 'bc', [1] + d5(rb(41)), True),
                ('seg-nonzero-padding', 'bc', [0] + d5(pr20)[:-1] + [d5(pr20)[-1] | 1], False),
                ('seg-nonzero-padding-m', 'tb', [1] + d5(pr32)[:-1] + [d5(pr32)[-1] | 2], True),
                ('seg-extra-zero-group', 'bc', [0] + d5(pr20) + [0], False),
                ('seg-extra-zero-group-m', 'bc', [1] + d5(pr32) + [0], True),
                ('seg-empty-data', 'bc', [], False),
                ('seg-version-only', 'bc', [0], False),
                ('seg-unknown-hrp', 'xy', [0] + d5(pr20), False),
                ('seg-unknown-hrp-m', 'bcx', [1] + d5(pr32), True),
                ('seg-too-long', 'bc' + 'c' * 40, [1] + d5(rb(26)), True),
                # the 90-character limit can only be met with a human readable part that belongs to no network
                ('seg-unknown-hrp-length-90', 'bc' + 'x' * 28, [1] + d5(rb(32)), True),
                ('seg-unknown-hrp-length-91', 'bc' + 'x' * 29, [1] + d5(rb(32)), True),
                ('seg-unknown-hrp-length-91-v0', 'tb' + 'y' * 29, [0] + d5(rb(32)), False),
                ('seg-unknown-hrp-data-6', 'bcx', [], True)]
        # every non-zero pattern of the padding bits behind a program of each residue class of lengths (BIP173: "any
        # padding must be zero"): 32 and 2 bytes leave four padding bits, 4 bytes three, 21 bytes two, 3 and 23 bytes one
        for wv, n, hrp in ((0, 32, 'bc'), (1, 32, 'bc'), (1, 32, 'tb'), (16, 2, 'bc'), (2, 4, 'bc'), (1, 21, 'bc'),
                           (3, 3, 'tb'), (1, 23, 'bc'), (2, 39, 'bc')):
            g = d5(rb(n))
            nb = len(g) * 5 - n * 8
            for pad in range(1, 1 << nb):
                raws.append(('seg-padding-bits-%d-of-%d-len%d' % (pad, nb, n), hrp, [wv] + g[:-1] + [g[-1] | pad], wv != 0))
        for tag, hrp, data, m in raws:
            bad.append((('addr', tag), {'k': 'b32raw', 'hrp': codes(hrp), 'data': data, 'm': m}))
        built = common.tlc_eval('ChecksumEval', [r for _, r in gen + bad], procs=8)
        seeds = [(fam, kind, uncodes(b['exp'])) for ((fam, kind), _), b in zip(gen, built[:len(gen)])]
        bads = [(fam, kind, uncodes(b['exp'])) for ((fam, kind), _), b in zip(bad, built[len(gen):])]
        ck.notes['seed_strings'] = len(seeds)
        ck.notes['rechecksummed_invalid_strings'] = len(bads)
        for fam, kind, s in bads:
            add(fam, kind, 'rechecksummed', s)
            if kind.startswith('seg-') and s.lower() == s:
                add(fam, kind, 'rechecksummed-upper', s.upper())

        # ---------------- damage
        exhaustive = {'b58addr-v0': thorough, 'b58addr-zeros2': 1, 'b58addr-v196': thorough, 'b58addr-v50': thorough,
                      'wif-v128-c': thorough, 'wif-v239-u': thorough, 'xprv-0488ade4': thorough, 'xpub-0488b21e': thorough,
                      'seg-bc-v0-20': 1, 'seg-bc-v1-32': thorough, 'seg-tb-v0-20': thorough}
        sampled = {'wif-v128-c': 12, 'b58addr-v0': 4, 'b58addr-v5': 6, 'b58addr-v111': 2, 'b58addr-zeros5': 3, 'wif-u-key-ends-01': 3,
                   'wif-v176-u': 1, 'xprv-0488ade4': 4, 'xpub-0488b21e': 1,
                   'seg-bc-v1-32': 5, 'seg-bc-v0-32': 2, 'seg-tb-v1-32': 2, 'seg-bc-v16-2': 4, 'seg-ltc-v0-20': 2}
        for fam, kind, s in seeds:
            add(fam, kind, 'valid', s)
            is32 = kind.startswith('seg-')
            alpha, extra = (list(B32), B32_EXTRA) if is32 else (list(B58), B58_EXTRA)
            if is32:
                add(fam, kind, 'all-upper', s.upper())
                add(fam, kind, 'hrp-upper', s[:s.rfind('1')].upper() + s[s.rfind('1'):])
                add(fam, kind, 'data-upper', s[:s.rfind('1')] + s[s.rfind('1'):].upper())
            muts = []
            if exhaustive.get(kind):
                muts += single_mutants(s, alpha, extra, rng, True, caseflip=is32)
            elif kind in sampled or thorough:
                n = sampled.get(kind, 3)
                muts += single_mutants(s, alpha, extra[:4], rng, False, nsub=n, nins=max(1, n // 2), caseflip=is32)
            if exhaustive.get(kind) or kind in sampled or thorough:
                muts += multi_damage(s, alpha, rng, 200 if thorough else 40)
            muts += trunc_pad(s, 'q' if is32 else '1')
            if not is32:        # the confusable characters at the places where they matter
                for i, c in enumerate(s):
                    if c in 'oi':
                        muts.append(('subst-confusable', s[:i] + c.upper() + s[i + 1:]))
                if any(c in 'oi' for c in s):
                    muts.append(('subst-confusable-all', s.replace('o', 'O').replace('i', 'I')))
            seen = {s}
            for op, m in muts:
                if m not in seen and m:
                    seen.add(m)
                    add(fam, kind, op, m)
        # ---------------- BIP38 (published vectors; scrypt makes every accepted-looking string cost ~0.3 s)
        nb = len(BIP38_VECTORS) if thorough else 2
        for vi, (s, pw, keyhex, comp) in enumerate(BIP38_VECTORS[:nb]):
            b38 = {'seed': s, 'okey': keyhex, 'ocomp': comp}
            add('key', 'bip38-%d' % vi, 'valid', s, ['key_pw', 'hdkey_pw'], pw, b38)
            muts = []
            tail = [('subst-tail', s[:i] + a + s[i + 1:]) for i in range(len(s) - 5, len(s)) for a in B58 if a != s[i]]
            body = [('subst', s[:i] + a + s[i + 1:]) for i in range(2, len(s) - 6) for a in B58 if a != s[i]]
            muts += rng.sample(tail, 24 if thorough else 7) + rng.sample(body, 16 if thorough else 4)
            muts += [('subst-confusable', s[:i] + c.upper() + s[i + 1:]) for i, c in enumerate(s) if c in 'oi'][:2]
            muts += rng.sample(single_mutants(s, list(B58), B58_EXTRA, rng, False, nsub=1, nins=1), 30 if thorough else 8)
            muts += [('drop-back', s[:-1]), ('pad-back', s + '1'), ('drop-front', s[1:]), ('pad-front', '1' + s)]
            # the same payload under another flag byte, checksum recomputed: BIP38 defines c0 / e0 only (reserved bits zero); the
            # flag is not part of what is encrypted, so only the decoder's own test can refuse these
            raw38 = _b58dec(s)
            for fl in ([0xe8, 0xf0, 0xe1, 0xff, 0xc8, 0xd0, 0xc1, 0x20, 0x00, 0xa0, 0x60] if thorough else [0xe8, 0xc8, 0xff, 0x20]):
                if fl != raw38[2]:
                    body38 = raw38[:2] + bytes([fl]) + raw38[3:-4]
                    muts.append(('flag-byte-%02x' % fl, _b58enc(body38 + ref.sha256d(body38)[:4])))
            seen = {s}
            for j, (op, m) in enumerate(muts):
                if m not in seen:
                    seen.add(m)
                    add('key', 'bip38-%d' % vi, op, m, ['key_pw'] if j % 4 else ['key_pw', 'hdkey_pw'], pw, b38)
        # ---------------- Wallet.create(keys=...) on a few extended keys (valid, damaged in the checksum, damaged elsewhere)
        xs = [s for fam, kind, s in seeds if kind.startswith('walletseed-')]
        for s in xs:
            add('key', 'wallet-xkey', 'valid', s, ['wallet'])
            for i in ([len(s) - 1, len(s) - 3, len(s) - 7, 60, 20, 8] if thorough else [len(s) - 2, 50]):
                a = rng.choice([c for c in B58 if c != s[i]])
                add('key', 'wallet-xkey', 'subst', s[:i] + a + s[i + 1:], ['wallet'])
            add('key', 'wallet-xkey', 'delete', s[:40] + s[41:], ['wallet'])

    import time
    t0 = time.time()
    # ---------------- observe the implementation (every string through every path of its family)
    jobs = [(it['s'], it['paths'], it['pw'], it['arg']) for it in items]
    order = sorted(range(len(jobs)), key=lambda i: (-(10 if jobs[i][2] else 1), i))     # expensive (scrypt) first
    nchunk = 64
    chunks = [[] for _ in range(nchunk)]
    for n, i in enumerate(order):
        chunks[n % nchunk].append(i)
    chunks = [c for c in chunks if c]
    res = common.pmap(_observe_chunk, [[jobs[i] for i in c] for c in chunks], procs=12)
    obs = [None] * len(items)
    for c, r in zip(chunks, res):
        for i, o in zip(c, r):
            obs[i] = o

    ck.notes['t_observe_s'] = round(time.time() - t0, 1)
    t0 = time.time()
    # ---------------- pass 1 (TLC): decode, name the byte strings to be hashed
    # (also the addresses addr_convert returned: they are judged through their decoding)
    strings = sorted({it['s'] for it in items} | {it['b38']['seed'] for it in items if it['b38']} |
                     {uncodes(o['re']) for ob in obs for o in ob if o['p'].startswith('conv') and o['re']})
    dec = dict(zip(strings, common.tlc_eval('ChecksumEval', [{'k': 'dec', 's': codes(s)} for s in strings], procs=12)))
    ck.notes['t_tlc_decode_s'] = round(time.time() - t0, 1)
    t0 = time.time()
    # ---------------- pass 2 (TLC): judge
    recs = []
    for it, ob in zip(items, obs):
        d = dec[it['s']]['exp']
        ms = list(d['ms'])
        for o in ob:
            if o['p'].startswith('conv'):
                ms.append(o['argp'])                     # the hash of an empty-hash payload (named deviation)
                if o['re']:
                    dr = dec[uncodes(o['re'])]['exp']
                    o['rd'] = dr['d']
                    ms += dr['ms']
        hs = [{'m': m, 'h': list(h4(m))} for m in {tuple(m): m for m in ms}.values()]
        r = {'k': 'j', 'fam': it['fam'], 's': codes(it['s']), 'd': d['d'], 'f': d['f'], 'hasf': d['hasf'], 'hs': hs,
             'sd': [], 'okey': [], 'ocomp': 0, 'obs': ob}
        if it['b38']:
            r['sd'] = dec[it['b38']['seed']]['exp']['d']['b']
            r['okey'] = list(bytes.fromhex(it['b38']['okey']))
            r['ocomp'] = it['b38']['ocomp']
        recs.append(r)
    verdicts = common.tlc_eval('ChecksumEval', recs, procs=12)
    ck.notes['t_tlc_judge_s'] = round(time.time() - t0, 1)

    nacc = 0
    for it, r, v in zip(items, recs, verdicts):
        if v['v'] == 'machinery-missing-hash':
            raise common.MachineryError('oracle fact missing for %r' % it['s'])
        case = {'fam': it['fam'], 'kind': it['kind'], 'op': it['op'], 's': it['s'], 'paths': it['paths'], 'pw': it['pw'],
                'b38': it['b38'], 'arg': it['arg']}
        for o, pv in zip(r['obs'], v['exp']):
            exp = pv['exp']
            ck.case((it['kind'].split('-')[0], it['op'], o['p'], exp['acc'], exp['why'] if not exp['acc'] else ''))
            nacc += 1 if exp['acc'] else 0
            if pv['v'] != 'ok':
                devs = [x for x in pv['dev'].split('+') if x]
                text = '%s(%r) [%s of %s]: clause %s; implementation %s, specification %s' % (
                    o['p'], it['s'], it['op'], it['kind'], pv['v'],
                    'returns None/empty without raising' if o['nul'] else
                    ('accepts payload ' + bytes(o['pay']).hex() + (' returns ' + repr(uncodes(o['re'])) if o['re'] else '')
                     + (' net ' + o['net'] if o['hasnet'] else '')
                     + (' [argument %s]' % (o['argn'] or bytes(o['argp'])) if o['argn'] or o['argp'] else ''))
                    if o['acc'] else 'refuses',
                    ('accepts payload ' + bytes(exp['pay']).hex()) if exp['acc'] else 'rejects (' + exp['why'] + ')')
                c1 = dict(case, paths=[o['p']])
                if devs and all(x in ck.known for x in devs):
                    for x in devs:
                        ck.violation(x, text, c1)
                else:
                    unknown = [x for x in devs if x not in ck.known]
                    ck.violation(unknown[0] if unknown else None, text, c1)
    ck.traces = sum(len(r['obs']) for r in recs)
    ck.notes['strings'] = len(items)
    nw = sum(1 for r in recs for o in r['obs'] if o['p'] == 'wallet' and o['acc'])
    ck.notes['wallets_created'] = nw
    if not replay and nw < 2 and not ck.violations:
        raise common.MachineryError('vacuity: Wallet.create accepted %d of the valid master keys' % nw)
    ck.notes['cases_where_specification_accepts'] = nacc
    for it in items[:2] + items[len(items) // 3:len(items) // 3 + 2] + items[-2:]:
        ck.sample({'kind': it['kind'], 'damage': it['op'], 'string': it['s'], 'paths': it['paths']}, limit=6)
    return ck.finish()
