"""C10 - multisig cosigner wallets agree on scripts; exactly m distinct signers suffice (spec/Cosign.tla).

(M) MC_Cosign: every way of creating the cosigner wallets (listing orders of the keys, BIP67 ranks), then every ceremony
    (signing orders, hand-off chains in four forms, broadcast attempts) for 1-of-2, 2-of-2, 2-of-3, 3-of-3, 2-of-4 and a
    group in which two wallets belong to the same cosigner; invariants: agreement, valid <=> m distinct signers,
    pushed => valid, hand-offs keep validity.
(A) agreement: real cosigner wallets are created for listing orders x private holders (exhaustive up to n = 4) on legacy
    P2SH, P2SH-P2WSH and P2WSH; address, child keys and path of the first keys on both chains are judged by TLC
    (CosignEval) against the script/address the specification builds from independently derived public keys.
(B) ceremonies: action sequences (all signing orders x hand-off forms, plus seeded random walks, re-signing, hand-backs,
    over-signing, two wallets of one cosigner, send_to) run on real wallets; after every action the transaction object's
    signature count, verified flag, verify(), pushed, error, redeem script and raw serialization are recorded and TLC
    walks the specification along (candidate states; the named deviation raw-omits-partial-multisig).  Every distinct
    raw transaction is additionally judged by TLC under the consensus rules (script hashes, CHECKMULTISIG order, digest of
    SigHash.tla) with hashes and ECDSA supplied as oracle facts from harness/ref.py.
    The cosigner wallets of a group differ in their settings (anti_fee_sniping on / off) and proposals vary locktime and
    replace_by_fee; the body (version, locktime, outpoints, sequences, outputs) TLC reads from raw() after every action
    must be the body of the copy the action started from: no hand-off may change what the signatures commit to.
    The ceremony address is funded at output indices 0..65536, spends have one to three inputs and are chained; the wallets
    of a group differ in what they know of the spent output (fetched it / offline signer with the keys only / address not
    derived): an offline signer must accept object, file and dictionary exports and its signature counts like any other.
    The signature state is per input: spends draw on two addresses of the group, inputs are signed unevenly (index_n, child
    keys of one address) with the incomplete input first / in the middle / last: verified and broadcast <=> EVERY input has
    m distinct signers.
"""
import itertools
import logging
import os
import random
from concurrent.futures import ProcessPoolExecutor

from harness import common, ref, c10_ref
from harness.common import Check, tier

PID = 'C10'
NET = 'bitcoinlib_test'
WTS = ['legacy', 'p2sh-segwit', 'segwit']
FORMS = ['object', 'dict', 'file', 'raw']
FEE = 50000
NPOINTS = 8          # funding outputs of the ceremony address (2 fabricated by the provider + 6 reported)
# requests of the agreement phase: (cosigner_id or None = the wallet's default, change, number of keys)
REQUESTS = [(0, 0, 2), (None, 0, 1), (-1, 1, 1)]          # -1: the last cosigner id (n - 1)


def masters(seed, n):
    rng = random.Random(seed)
    return [(rng.randrange(1, ref.N), bytes(rng.randrange(256) for _ in range(32))) for _ in range(n)]


# ---------------------------------------------------------------------------------------------
# workers (fresh interpreter, own bitcoinlib data directory)
# ---------------------------------------------------------------------------------------------

def _create(name, ms, perm, holder, m, wt, sort, afs=True):
    from bitcoinlib.wallets import Wallet
    from bitcoinlib.keys import HDKey
    hd = [HDKey(key=k.to_bytes(32, 'big'), chain=c, network=NET, witness_type=wt, multisig=True) for k, c in ms]
    keys = [hd[i] if i == holder else hd[i].public_master(multisig=True, witness_type=wt) for i in perm]
    uri = 'sqlite:///' + os.path.join(os.environ['BCL_DATA_DIR'], name + '.sqlite')
    return Wallet.create(name, keys, sigs_required=m, network=NET, witness_type=wt, sort_keys=sort, anti_fee_sniping=afs,
                         db_uri=uri)


def _close(w):
    try:
        w.session.close()
    except Exception:
        pass


def agree_job(job):
    """Create one wallet per (listing order, holder); report address / child keys / path of the requested keys."""
    logging.disable(logging.CRITICAL)
    seed, m, n, wt, sort, combos, tag = job
    ms = masters(seed, n)
    out = []
    for ci, (perm, holder) in enumerate(combos):
        w = None
        try:
            w = _create('a%s_%d' % (tag, ci), ms, perm, holder, m, wt, sort)
            for ri, (cid, change, count) in enumerate(REQUESTS):
                kw = {'change': change, 'number_of_keys': count}
                if cid is not None:
                    kw['cosigner_id'] = n - 1 if cid < 0 else cid
                for j, wk in enumerate(w.get_keys(**kw)):
                    out.append({'combo': ci, 'req': ri, 'j': j, 'addr': wk.address, 'path': wk.path,
                                'keys': [k.public_byte.hex() for k in wk.key()], 'err': ''})
        except Exception as e:
            out.append({'combo': ci, 'req': -1, 'j': 0, 'err': repr(e)[:300]})
        if w is not None:
            _close(w)
    return out


def ceremony_job(job):
    """Create the cosigner wallets of one group, fund common addresses, run ceremonies; report every observation."""
    logging.disable(logging.CRITICAL)
    from bitcoinlib.keys import Key
    seed, m, n, wt, sort, wallets, nslots, ceremonies, tag, settings = job
    ms = masters(seed, n)
    import time
    t0 = time.time()
    res = {'setup': '', 'slots': [], 'ceremonies': [], 'secs': []}
    ws = []
    try:
        for wi, (perm, holder) in enumerate(wallets):
            ws.append(_create('c%s_%d' % (tag, wi), ms, perm, holder, m, wt, sort, settings[wi]['afs']))
        # what each wallet knows of the ceremony address (slot 1): 'utxo' = derived it and fetched its outputs, 'keys' =
        # derived it but never fetched outputs (offline signer), 'none' = has not derived it
        knows = [st.get('knows', 'utxo') for st in settings]
        online = [wi for wi in range(len(ws)) if knows[wi] == 'utxo']
        slots = []
        for s in range(nslots):
            wks = [w.new_key(cosigner_id=0, change=0) if (s == 0 or knows[wi] != 'none') else None for wi, w in enumerate(ws)]
            got = [k for k in wks if k is not None]
            if len({k.address for k in got}) != 1 or len({k.path for k in got}) != 1:
                res['setup'] = 'clause cosigner-wallets-disagree; new_key(cosigner_id=0) number %d gives %s' % (
                    s + 1, [(k.address, k.path) for k in got])
                return res
            slots.append({'addr': got[0].address, 'path': got[0].path, 'key_ids': [k.key_id if k is not None else None for k in wks],
                          'keys': [[x.public_byte.hex() for x in k.key()] if k is not None else None for k in wks]})
        for wi in online:
            ws[wi].utxos_update()
        # further funding of the ceremony address, reported to every cosigner wallet (as a provider would): outputs at
        # higher indices (1, 2, 255, 256, 65536), several outputs of one funding transaction, different amounts
        if len(slots) > 1:
            import hashlib
            f1, f2 = (hashlib.sha256(b'c10-funding-%d-%d' % (seed, k)).hexdigest() for k in (1, 2))
            extra = [{'address': slots[1]['addr'], 'script': '', 'confirmations': 10, 'output_n': idx, 'txid': txid, 'value': val}
                     for txid, idx, val in ((f1, 1, 70000000), (f1, 2, 71000000), (f1, 255, 72000000), (f2, 256, 73000000),
                                            (f2, 65536, 74000000), (f2, 0, 75000000))]
            if len(slots) > 2:            # the second address of the group: one more output of the first funding transaction
                extra.append({'address': slots[2]['addr'], 'script': '', 'confirmations': 10, 'output_n': 3, 'txid': f1, 'value': 76000000})
            for wi in online:
                ws[wi].utxos_update(utxos=[dict(x) for x in extra], rescan_all=False)
        for s in slots:
            lists = [sorted((u['txid'], u['output_n'], u['value']) for u in ws[wi].utxos() if u['address'] == s['addr']) for wi in online]
            s['points'] = lists[0]
            if len(lists[0]) < 1 or any(x != lists[0] for x in lists):
                res['setup'] = 'machinery: the cosigner wallets do not list the same funding outputs for %s: %s' % (s['addr'], lists)
                return res
        res['slots'] = [{'addr': s['addr'], 'path': s['path'], 'keys': s['keys']} for s in slots]
        res['secs'].append(round(time.time() - t0, 1))
    except Exception as e:
        import traceback
        res['setup'] = 'clause setup-raised; %r %s' % (e, traceback.format_exc()[-400:])
        return res
    dest = Key(900001, network=NET).address()
    tmpf = os.path.join(os.environ['BCL_DATA_DIR'], 'handoff_%s.tx' % tag)
    for cer in ceremonies:
        slot = slots[cer['slot'] % len(slots)]
        # the outputs being spent: (slot, index) pairs - one to three inputs, of one or of two addresses of the group
        idx = []
        for q in cer.get('points') or [cer.get('point', 0)]:
            sl, i = (cer['slot'] % len(slots), q) if isinstance(q, int) else (q[0] % len(slots), q[1])
            if (sl, i % len(slots[sl]['points'])) not in idx:
                idx.append((sl, i % len(slots[sl]['points'])))
        if cer.get('chain') and slot.get('chainpt') is not None:          # spend the change output of an earlier ceremony
            cp = (cer['slot'] % len(slots), slot['chainpt'])
            idx = [cp] + [x for x in idx[1:] if x != cp]
        pts = [slots[sl]['points'][i] + (sl,) for sl, i in idx]
        value = sum(p[2] for p in pts)
        change = cer.get('change', 0)
        outs = [(dest, value - FEE - change)] + ([(slot['addr'], change)] if change else [])
        used = sorted({sl for sl, _ in idx} | {cer['slot'] % len(slots)})
        funds = [pt + (sl,) for sl in used for pt in slots[sl]['points']]
        copies, waspushed, txs, evs, pushed_t = {}, {}, [], [], None
        for a in cer['events']:
            op, w, v, form = a['op'], a['w'] - 1, a['v'] - 1, a['form']
            tgt = v if op == 'handoff' else w
            if op not in ('propose', 'send_to') and copies.get(w) is None:
                continue                          # (an earlier import was refused: this wallet has nothing to act on)
            if op == 'send' and waspushed.get(id(copies[w])):
                continue                          # (... or still holds the copy it has already broadcast)
            err = ''
            try:
                if op == 'propose':
                    copies[w] = ws[w].transaction_create(outs, [(p[0], p[1], slots[p[3]]['key_ids'][w], p[2]) for p in pts], fee=FEE,
                                                         locktime=a.get('lt', 0), replace_by_fee=a.get('rbf', False),
                                                         random_output_order=False)
                elif op == 'sign':
                    copies[w].sign()
                elif op == 'sign_in':                 # the wallet's own key on some inputs only, then the verdict is asked for
                    from bitcoinlib.transactions import Transaction
                    for i in a['ins']:
                        Transaction.sign(copies[w], None, index_n=i - 1)
                    copies[w].verify()
                elif op == 'sign_key':                # sign() with the child private key of cosigner a['key'] for some inputs
                    from bitcoinlib.keys import HDKey
                    k, c = ms[a['key'] - 1]
                    master = HDKey(key=k.to_bytes(32, 'big'), chain=c, network=NET, witness_type=wt, multisig=True)
                    copies[w].sign(keys=[master.subkey_for_path(copies[w].inputs[i - 1].key_path) for i in a['ins']])
                elif op == 'send':
                    copies[w].send()
                elif op == 'verify':
                    pass
                elif op == 'send_to':
                    copies[w] = ws[w].send_to(dest, pts[0][2] - FEE, input_key_id=slot['key_ids'][w], fee=FEE, broadcast=True,
                                              locktime=a.get('lt', 0), replace_by_fee=a.get('rbf', False))
                elif op == 'handoff':
                    t = copies[w]
                    if form == 'object':
                        copies[v] = ws[v].transaction_import(t)
                    elif form == 'dict':
                        copies[v] = ws[v].transaction_import(t.as_dict())
                    elif form == 'file':
                        t.save(tmpf)
                        copies[v] = ws[v].transaction_load(filename=tmpf)
                    else:
                        copies[v] = ws[v].transaction_import_raw(t.raw_hex())
                else:
                    err = 'unknown op'
            except Exception as e:
                err = repr(e)[:200]
            ob = {'a': a, 'ok': err == '', 'nsig': [], 'verified': False, 'verify': False, 'pushed': False, 'err': False,
                  'rs': [], 'tx': 0, 'exc': err}
            t = copies.get(tgt)
            if t is not None and (not err or op == 'send'):       # what the object says after a failed send is observed too
                try:
                    ob['nsig'] = [len(i.signatures) for i in t.inputs]
                    ob['verified'] = bool(t.verified)
                    ob['pushed'] = bool(t.pushed) and not waspushed.get(id(t), False)
                    if ob['pushed'] and pushed_t is None:
                        pushed_t = t
                    waspushed[id(t)] = bool(t.pushed)
                    ob['err'] = bool(t.error)
                    ob['shows'] = 'locktime %s sequence %s' % (t.locktime, ','.join('%x' % i.sequence for i in t.inputs))
                    ob['verify'] = bool(t.verify()) if op == 'verify' else ob['verified']
                    if op in ('propose', 'handoff', 'send_to'):
                        ob['rs'] = [list(i.redeemscript or b'') for i in t.inputs]
                        ob['inaddr'] = [i.address for i in t.inputs]
                    raw = t.raw().hex()
                    if raw not in txs:
                        txs.append(raw)
                    ob['tx'] = txs.index(raw) + 1
                except Exception as e:
                    ob['ok'] = False
                    ob['exc'] = (err + ' / ' if err else '') + 'observation raised %r' % (e,)
            evs.append(ob)
            if err and op != 'handoff':           # a refused import leaves everything as it was; anything else ends the ceremony
                break
        note = ''
        if change and pushed_t is not None:
            # the change output of the broadcast transaction is reported to every cosigner wallet and funds a later ceremony
            try:
                n_out = [k for k, o in enumerate(pushed_t.outputs) if o.address == slot['addr']][0]
                rep = {'address': slot['addr'], 'script': '', 'confirmations': 1, 'output_n': n_out, 'txid': pushed_t.txid, 'value': change}
                for wi in online:
                    ws[wi].utxos_update(utxos=[dict(rep)], rescan_all=False)
                slot['points'].append((pushed_t.txid, n_out, change))
                slot['chainpt'] = len(slot['points']) - 1
            except Exception as e:
                note = 'reporting the change output raised %r' % (e,)
        res['ceremonies'].append({'slot': cer['slot'] % len(slots), 'funds': funds, 'spends': pts, 'events': evs, 'txs': txs, 'note': note})
    for w in ws:
        _close(w)
    res['secs'].append(round(time.time() - t0, 1))
    return res


def _oracle(needs):
    facts, memo = {}, {}
    for t in needs:
        c10_ref.eval_term(t, facts, memo)
    return facts


# ---------------------------------------------------------------------------------------------
# generators
# ---------------------------------------------------------------------------------------------

def E(op, w, v=0, form='', ins=(), key=0):
    """One action: ins = input numbers (1-based) for sign_in / sign_key, key = cosigner key (1-based) for sign_key."""
    return {'op': op, 'w': w, 'v': v, 'form': form, 'ins': list(ins), 'key': key}


def gen_chain(rng, m, holders, order, forms, spice):
    """Propose at order[0]; every wallet of `order` signs in turn, the copy travels in the given forms."""
    ev = [E('propose', order[0])]
    signed = set()
    if spice and rng.random() < 0.3:
        ev.append(E(rng.choice(['send', 'verify']), order[0]))
    for k, w in enumerate(order):
        if k > 0:
            ev.append(E('handoff', order[k - 1], w, forms[k - 1]))
            if spice and rng.random() < 0.25 and len(signed) < m:
                ev.append(E(rng.choice(['send', 'verify']), w))
        ev.append(E('sign', w))
        signed.add(holders[w - 1])
        if spice and rng.random() < 0.2:
            ev.append(E('sign', w))
        if spice and rng.random() < 0.3:
            ev.append(E('verify', w))
        if len(signed) >= m and k < len(order) - 1 and spice and rng.random() < 0.5:
            ev.append(E('verify', w))
    ev.append(E('send', order[-1]))
    return ev


def gen_walk(rng, m, holders, steps):
    """Random walk over enabled actions (the generator's own bookkeeping only decides what is enabled / worth doing)."""
    W = len(holders)
    first = rng.randrange(1, W + 1)
    ev = [E('propose', first)]
    has = {first: set()}
    done = set()
    for _ in range(steps):
        live = [w for w in has if w not in done]
        if not live:
            break
        w = rng.choice(live)
        r = rng.random()
        if r < 0.35:
            ev.append(E('sign', w))
            has[w] = has[w] | {holders[w - 1]}
        elif r < 0.70 and W > 1:
            v = rng.choice([x for x in range(1, W + 1) if x != w])
            f = rng.choice(FORMS)
            ev.append(E('handoff', w, v, f))
            has[v] = set(has[w])
            done.discard(v)
        elif r < 0.85:
            ev.append(E('verify', w))
        else:
            ev.append(E('send', w))
            if len(has[w]) >= m:
                done.add(w)
    live = [w for w in has if w not in done]
    if live:
        ev.append(E('send', rng.choice(live)))
    return ev


def gen_oversign(rng, m, holders):
    """More signers than needed, then a dictionary hand-off to one of them (or to somebody new) who signs again."""
    W = len(holders)
    L = min(W, m + rng.choice([1, 1, 2]))
    order = rng.sample(range(1, W + 1), L)
    ev = [E('propose', order[0])]
    for k, w in enumerate(order):
        if k > 0:
            ev.append(E('handoff', order[k - 1], w, rng.choice(['object', 'dict', 'file'])))
        ev.append(E('sign', w))
    back = rng.choice(order[:-1] + [x for x in range(1, W + 1) if x not in order][:1])
    ev += [E('handoff', order[-1], back, 'dict'), E('sign', back), E('verify', back)]
    if rng.random() < 0.5:
        nxt = rng.choice([x for x in range(1, W + 1) if x != back])
        ev += [E('handoff', back, nxt, rng.choice(FORMS)), E('sign', nxt)]
        back = nxt
    ev.append(E('send', back))
    return ev


def gen_complete(rng, m, holders, knows):
    """m wallets of distinct cosigners sign in turn (object / file hand-offs), the last one broadcasts; the first knows
    the output, the others know at least the keys."""
    byholder = {}
    for w, h in enumerate(holders, 1):
        if knows[w - 1] != 'none':
            byholder.setdefault(h, []).append(w)
    first = rng.choice([w for w in range(1, len(holders) + 1) if knows[w - 1] == 'utxo'])
    others = [h for h in sorted(byholder) if h != holders[first - 1]]
    order = [first] + [rng.choice(byholder[h]) for h in rng.sample(others, m - 1)]
    ev = [E('propose', order[0])]
    for k, w in enumerate(order):
        if k > 0:
            ev.append(E('handoff', order[k - 1], w, rng.choice(['object', 'file'])))
        ev.append(E('sign', w))
    ev.append(E('send', order[-1]))
    return ev


def may_refuse(knows, v, form):
    return knows[v - 1] == 'none' or (knows[v - 1] == 'keys' and form == 'raw')


def legalize(events, knows, rng):
    """Adapt a generated ceremony to what the wallets know: the proposer is swapped with a wallet that knows the output;
    an import the importer may refuse stays in (the refusal is judged) but the copy is then handed on by the wallet that
    still holds it; actions of wallets that hold nothing are dropped."""
    if not events:
        return events
    W = len(knows)
    first = events[0]['w']
    if knows[first - 1] != 'utxo':
        other = rng.choice([w for w in range(1, W + 1) if knows[w - 1] == 'utxo'])
        swap = {first: other, other: first}
        events = [dict(a, w=swap.get(a['w'], a['w']), v=swap.get(a['v'], a['v'])) for a in events]
    has, giver, out = set(), {}, []
    for a in events:
        a = dict(a)
        if a['op'] in ('propose', 'send_to'):
            has.add(a['w'])
        elif a['op'] == 'handoff':
            if a['w'] not in has and a['w'] in giver:
                a['w'] = giver[a['w']]
            if a['w'] not in has or a['w'] == a['v']:
                continue
            if may_refuse(knows, a['v'], a['form']):
                giver[a['v']] = a['w']
            else:
                has.add(a['v'])
                giver.pop(a['v'], None)
        elif a['w'] not in has:
            continue
        out.append(a)
    return out


def gen_uneven(rng, m, holders, knows, k, p, method):
    """Uneven signing of a spend with k inputs: every input but number p reaches m signers; the spend must not verify, not
    be broadcast and not become valid by being handed on, wherever p stands (first / middle / last); then input p is
    completed.  method 'in': the last signer signs with index_n on the other inputs only; 'key': the proposer is handed the
    child keys of other cosigners for the addresses of the other inputs only."""
    W = len(holders)
    byholder = {}
    for w, h in enumerate(holders, 1):
        if knows[w - 1] != 'none':
            byholder.setdefault(h, []).append(w)
    first = rng.choice([w for w in range(1, W + 1) if knows[w - 1] == 'utxo'])
    rest = [i for i in range(1, k + 1) if i != p]
    ev = [E('propose', first)]
    if method == 'key' and m >= 2:
        cos = rng.sample([h for h in range(1, max(holders) + 1) if h != holders[first - 1]] or [holders[first - 1]], m - 1)
        for c in cos:
            ev.append(E('sign_key', first, ins=rest, key=c))
        last, fix = first, [E('sign_key', first, ins=[p], key=c) for c in cos]
    else:
        others = [h for h in sorted(byholder) if h != holders[first - 1]]
        order = [first] + [rng.choice(byholder[h]) for h in rng.sample(others, m - 1)]
        for j, w in enumerate(order):
            if j > 0:
                ev.append(E('handoff', order[j - 1], w, rng.choice(['object', 'file', 'object', 'dict'])))
            ev.append(E('sign', w) if j < len(order) - 1 else E('sign_in', w, ins=rest))
        last, fix = order[-1], [E('sign_in', order[-1], ins=[p])]
    ev += [E('verify', last), E('send', last)]
    other = rng.choice([w for w in range(1, W + 1) if w != last] or [last])
    if other != last:
        ev += [E('handoff', last, other, rng.choice(FORMS)), E('verify', other), E('send', other)]
    ev += fix + [E('verify', last), E('send', last)]
    return ev


def gen_ceremonies(rng, m, holders, budget):
    """Chains of m (and m + 1) distinct signer wallets: every signing order x every combination of hand-off forms while
    that is a small set, a seeded sample of it otherwise; the rest of the budget are random walks."""
    W = len(holders)
    out = []
    nsys = max(1, budget * 3 // 5)
    lengths = sorted({min(W, m), min(W, m + 1)})
    size = 0
    for L in lengths:
        cnt = 4 ** (L - 1)
        for k in range(L):
            cnt *= (W - k)
        size += cnt
    if size <= 5000:
        combos = [(order, forms) for L in lengths for order in itertools.permutations(range(1, W + 1), L)
                  for forms in itertools.product(FORMS, repeat=L - 1)]
        rng.shuffle(combos)
        combos = combos[:nsys]
    else:
        combos = []
        for i in range(nsys):
            L = lengths[i % len(lengths)]
            combos.append((tuple(rng.sample(range(1, W + 1), L)), tuple(rng.choice(FORMS) for _ in range(L - 1))))
    for i, (order, forms) in enumerate(combos):
        out.append(gen_chain(rng, m, holders, list(order), list(forms), spice=i % 2 == 1))
    if W > m:
        for _ in range(3):
            out.append(gen_oversign(rng, m, holders))
    while len(out) < budget - 2:
        out.append(gen_walk(rng, m, holders, rng.randrange(5, 12)))
    return out


# ---------------------------------------------------------------------------------------------
# plan of the run
# ---------------------------------------------------------------------------------------------

def plan(rng, thorough):
    """Ceremony groups: (m, n, holders (1-based key per wallet), sort_keys, witness type).  Quick: 2-of-2 and 2-of-3 on all
    three witness types, the other shapes on one or two of them (which ones depends on the seed)."""
    r = rng.randrange(3)
    rot = [WTS[(r + i) % 3] for i in range(3)]
    base = [((1, 2, [1, 2]), 1), ((2, 2, [1, 2]), 3), ((2, 3, [1, 2, 3]), 3), ((3, 3, [1, 2, 3]), 2), ((2, 4, [1, 2, 3, 4]), 2),
            ((2, 3, [1, 1, 2]), 2)]                                          # the last: two wallets of the same cosigner
    groups = []
    for k, ((m, n, h), cnt) in enumerate(base):
        for wt in (WTS if thorough else [rot[(k + i) % 3] for i in range(cnt)]):
            groups.append((m, n, h, True, wt))
    groups.append((2, 3, [1, 2, 3], False, rot[0]))                          # sort_keys=False, one common listing order
    groups.append((3, 5, [1, 2, 3, 4, 5], True, rot[1]))
    if thorough:
        for wt in WTS:
            groups.append((3, 5, [1, 2, 3, 4, 5], True, wt))
            groups.append((1, 3, [1, 2, 3], True, wt))
            groups.append((4, 4, [1, 2, 3, 4], True, wt))
        groups.append((8, 15, list(range(1, 10)), True, rot[0]))
        groups.append((2, 15, [15, 1, 7], True, rot[1]))
        groups.append((15, 15, list(range(1, 16)), True, rot[2]))
    return groups


def agree_plan(rng, thorough):
    """Agreement jobs (m, n, wt, sort_keys, combos [(listing order 0-based, holder 0-based)]).  Thorough: every listing
    order x holder for n <= 4; quick: exhaustive for 2-of-2, and for one witness type (chosen by the seed) exhaustive
    1-of-2 and 2-of-3 and a larger sample of 2-of-4; samples elsewhere (the wallets of the ceremony groups are judged too)."""
    jobs = []
    big = WTS[rng.randrange(3)]
    for wt in WTS:
        for (m, n) in [(1, 2), (2, 2), (2, 3), (3, 3), (2, 4), (3, 5)] + ([(2, 5), (8, 15), (15, 15), (1, 7)] if thorough else []):
            allc = [(p, h) for p in itertools.permutations(range(n)) for h in range(n)] if n <= 4 else None
            if thorough and allc is not None:
                combos = allc
            elif (m, n) == (2, 2) or (wt == big and (m, n) in ((1, 2), (2, 3))):
                combos = allc
            elif allc is not None:
                combos = rng.sample(allc, {(1, 2): 2, (2, 3): 3, (3, 3): 2, (2, 4): 6 if wt == big else 2}[(m, n)])
            else:
                combos = []
                for _ in range(24 if thorough and n <= 7 else (8 if thorough else 2)):
                    p = list(range(n))
                    rng.shuffle(p)
                    combos.append((tuple(p), rng.randrange(n)))
            for part in range(0, len(combos), 6):            # at most 6 wallets per job
                jobs.append((m, n, wt, True, combos[part:part + 6]))
        # sort_keys=False: the script follows the listing order, which all cosigners then have to share
        p = list(range(3))
        rng.shuffle(p)
        jobs.append((2, 3, wt, False, [(tuple(p), h) for h in range(3)]))
    return jobs


# ---------------------------------------------------------------------------------------------
# oracle loop: TLC asks for primitive values, the reference evaluates them
# ---------------------------------------------------------------------------------------------

def solve(recs):
    facts = [dict() for _ in recs]
    verdict = [None] * len(recs)
    pending = list(range(len(recs)))
    rounds = 0
    with ProcessPoolExecutor(max_workers=common.NCPU) as ex:
        while pending:
            rounds += 1
            if rounds > 6:
                raise common.MachineryError('oracle loop does not converge (%d records still ask for facts)' % len(pending))
            out = common.tlc_eval('CosignEval', [dict(recs[i], facts=c10_ref.facts_json(facts[i])) for i in pending],
                                  procs=8, timeout=900)
            asked = [(i, o['need']) for i, o in zip(pending, out) if o['v'] == 'need']
            for i, o in zip(pending, out):
                if o['v'] != 'need':
                    verdict[i] = o
            for (i, _), f in zip(asked, ex.map(_oracle, [nd for _, nd in asked], chunksize=4)):
                before = len(facts[i])
                facts[i].update(f)
                if len(facts[i]) == before:
                    raise common.MachineryError('oracle loop: record %d asks again for facts it was given' % i)
            pending = [i for i, _ in asked]
    return verdict, rounds


def describe(events):
    def one(e):
        a = e['a']
        s = '%s(%d%s%s%s)' % (a['op'], a['w'], ('->%d as %s' % (a['v'], a['form'])) if a['op'] == 'handoff' else '',
                              (', locktime=%d, replace_by_fee=%s' % (a.get('lt', 0), a.get('rbf', False))) if a['op'] in ('propose', 'send_to') else '',
                              (', %sinputs %s' % (('key %d, ' % a['key']) if a.get('key') else '', a.get('ins'))) if a['op'] in ('sign_in', 'sign_key') else '')
        if a['op'] in ('propose', 'handoff', 'send_to') and e.get('shows'):
            s += '{%s}' % e['shows']
        if e['nsig']:
            s += '=[%s sig%s%s%s]' % ('/'.join(str(x) for x in e['nsig']), ' verified' if e['verified'] else '', ' PUSHED' if e['pushed'] else '',
                                      ' error' if e['err'] else '')
        if not e['ok']:
            s += ' RAISED %s' % e.get('exc', '')[:160]
        return s
    return ' ; '.join(one(e) for e in events)


def _dispatch(x):
    return agree_job(x[1]) if x[0] == 'a' else ceremony_job(x[1])


def run(replay=None):
    import time
    common.fresh_bitcoinlib_env()
    ref.selftest()
    c10_ref.selftest()
    ck = Check(PID)
    thorough = tier() == 'thorough'
    rng = ck.rng
    ck.rule = ('agreement case = one wallet (listing order of the keys x private holder) answering one key request, judged against '
               'the reference script/address; class = (m, n, witness type, sort_keys, request, holder). ceremony case = one action on '
               'real cosigner wallets with the observations of the resulting transaction object; trace = one ceremony; class = '
               '(m, n, witness type, action, hand-off form, signatures held, verified, pushed)')
    ck.assumptions = ['network bitcoinlib_test: the provider fabricates two outputs of 1e8 per address and accepts every broadcast',
                      'child public keys come from an independent BIP32 derivation along the path the wallets report (the path '
                      'structure itself is C09)', 'one input per transaction, SIGHASH_ALL; funding outputs may be reused by ceremonies',
                      'a transaction counts as network-valid when dummy + exactly m signatures satisfy CHECKMULTISIG in key order '
                      'and the script hashes match the funded address (policy rules beyond that are not modelled)']
    ck.model(common.model_check('MC_Cosign', 'MC_Cosign_thorough.cfg' if thorough else 'MC_Cosign.cfg',
                                expect_actions=['Create', 'Fund', 'Propose', 'Sign', 'HandOff', 'SendOk', 'SendRefused']))
    seed0 = common.seed()
    tm = {'t0': time.time()}

    # ------------------------------------------------------------------ jobs
    ajobs, cjobs = [], []
    if replay:
        c = replay['case']
        if c['kind'] == 'agree':
            ajobs.append((c['seed'], c['m'], c['n'], c['wt'], c['sort'], [(tuple(p), h) for p, h in c['combos']], 'r'))
        else:
            cjobs.append((c['seed'], c['m'], c['n'], c['wt'], c['sort'], [(tuple(p), h) for p, h in c['wallets']], c['nslots'],
                          [c['ceremony']], 'r', c.get('settings') or [{'afs': True, 'knows': 'utxo'} for _ in c['wallets']]))
    else:
        for k, (m, n, wt, srt, combos) in enumerate(agree_plan(rng, thorough)):
            ajobs.append((seed0 * 1000 + k, m, n, wt, srt, combos, str(k)))
        budget = 48 if thorough else 13
        nslots = 3
        for k, (m, n, holders, srt, wt) in enumerate(plan(rng, thorough)):
            W = len(holders)
            shared = list(range(n))
            rng.shuffle(shared)
            wallets = []
            for h in holders:
                p = list(range(n))
                rng.shuffle(p)
                wallets.append((tuple(p) if srt else tuple(shared), h - 1))
            # per-wallet settings.  anti_fee_sniping on (the default: locktime = block height) or off (locktime 0), both kinds
            # in every group.  knows: what the wallet knows of the ceremony address when a copy arrives - 'utxo' (it fetched the
            # outputs), 'keys' (offline signer: address derived, outputs never fetched), 'none' (address not derived).
            settings = [{'afs': (i + k) % 2 == 0 if W > 1 else rng.random() < 0.5, 'knows': 'utxo'} for i in range(W)]
            rng.shuffle(settings)
            if W > 1 and k % 3 != 0:
                settings[k % W]['knows'] = 'keys'
                v = (k + 1) % W
                rest = {holders[i] for i in range(W) if i != v}
                if k % 3 == 1 and W >= 3 and len(rest) >= m and any(st['knows'] == 'utxo' for i, st in enumerate(settings) if i != v):
                    settings[v]['knows'] = 'none'
            knows = [st['knows'] for st in settings]
            cers = [legalize(ev, knows, rng) for ev in gen_ceremonies(rng, m, holders, budget if n <= 5 else 12)]
            # funding: the ceremony address has outputs at indices 0, 0, 0, 1, 2, 255, 256, 65536 (two funding transactions with
            # several outputs each); most spends have one input, a quarter two or three; twice per group a completed spend
            # pays change back to the common address and that output (index 1 of a transaction the wallets made themselves)
            # funds the next ceremony
            cl = []
            for i, ev in enumerate(cers):
                pts = [[1, i % NPOINTS]] + ([[rng.choice([1, 2]), rng.randrange(3)] for _ in range(rng.choice([1, 2]))]
                                            if rng.random() < 0.25 else [])
                cl.append({'slot': 1, 'points': pts, 'events': ev})
            # uneven signing of spends with two or three inputs drawn from two addresses of the group: the incomplete input
            # first, in the middle, last; with index_n and with child keys of one address
            for u in range(4 if not thorough else 6):
                kk = 2 + (u + k) % 2
                pos = [1, kk, 2, 1][(u + k) % 4] if kk == 3 else 1 + (u + k // 2) % 2
                ev = legalize(gen_uneven(rng, m, holders, knows, kk, min(pos, kk), 'key' if (u + k) % 3 == 0 else 'in'), knows, rng)
                # the incomplete input is the only one of its address (a child key signs every input of its address)
                pp = min(pos, kk)
                i1, i2 = rng.sample(range(NPOINTS), kk), rng.randrange(3)
                cl.append({'slot': 1, 'points': [[2, i2] if j + 1 == pp else [1, i1[j]] for j in range(kk)], 'events': ev, 'uneven': True})
            plain = [i for i, c in enumerate(cl) if not c.get('uneven')]
            for pos in sorted(rng.sample(plain, min(2, len(plain))), reverse=True):
                cl[pos]['chain'] = True
                cl.insert(pos, {'slot': 1, 'points': [rng.randrange(NPOINTS)], 'change': 20000000,
                                'events': gen_complete(rng, m, holders, knows)})
            # send_to: Propose; Sign; Send in one call, on a slot of its own (the wallet selects the input itself)
            onl = [w for w in range(1, W + 1) if knows[w - 1] == 'utxo']
            for w in rng.sample(onl, min(2, len(onl))):
                cl.append({'slot': 0, 'point': 0, 'events': [E('send_to', w), E('verify', w)]})
            # options of the proposing call: an explicit locktime (block height / time stamp) and replace-by-fee (sequence) -
            # the proposer's choice, never the importer's
            for c in cl:
                lt, rbf = rng.choice([0, 0, 0, 0, 650000, 1700000000]), rng.random() < 0.25
                for a in c['events']:
                    if a['op'] in ('propose', 'send_to'):
                        a['lt'], a['rbf'] = lt, rbf
            cjobs.append((seed0 * 1000 + 500 + k, m, n, wt, srt, wallets, nslots, cl, str(k), settings))

    # ------------------------------------------------------------------ run on real wallets
    jobs = [('a', j) for j in ajobs] + [('c', j) for j in cjobs]
    order = sorted(range(len(jobs)), key=lambda i: -(len(jobs[i][1][5]) * jobs[i][1][2] * (3 if jobs[i][0] == 'c' else 1)))
    results = [None] * len(jobs)
    for i, r in zip(order, common.pmap(_dispatch, [jobs[i] for i in order])):
        results[i] = r
    tm['wallets'] = time.time()

    # ------------------------------------------------------------------ records for TLC
    recs, meta = [], []

    def agree_rec(m, n, wt, srt, ms, listing, obs):
        pubs = [c10_ref.derive_pub(ms[i], obs[0]['path']) for i in range(n)]
        return {'kind': 'agree', 'm': m, 'wt': wt, 'net': NET, 'sorted': srt, 'listing': listing, 'pubs': [list(p) for p in pubs],
                'obs': [{'addr': [ord(ch) for ch in o['addr']], 'keys': [list(bytes.fromhex(k)) for k in o['keys']], 'path': o['path']}
                        for o in obs]}

    for (kind, job), res in zip(jobs, results):
        if kind == 'a':
            seed, m, n, wt, srt, combos, tag = job
            ms = masters(seed, n)
            groups = {}
            for o in res:
                perm, holder = combos[o['combo']]
                o['who'] = (list(perm), holder)
                o['case'] = {'kind': 'agree', 'seed': seed, 'm': m, 'n': n, 'wt': wt, 'sort': srt, 'combos': [[list(perm), holder]]}
                if o['err']:
                    ck.violation(None, 'clause wallet-creation-raised; %d-of-%d %s listing %s holder %d: %s' % (
                        m, n, wt, list(perm), holder, o['err']), o['case'])
                    continue
                o['what'] = 'request (cosigner_id, change)=%s key %d' % (REQUESTS[o['req']][:2], o['j'])
                explicit = REQUESTS[o['req']][0] is not None
                groups.setdefault((o['req'], o['j'], '' if explicit else o['path']), []).append(o)
            for (ri, j, _), obs in sorted(groups.items()):
                recs.append(agree_rec(m, n, wt, srt, ms, [x + 1 for x in combos[0][0]], obs))
                meta.append(('a', (m, n, wt, srt, ri), obs))
        else:
            seed, m, n, wt, srt, wallets, nslots, cl, tag, settings = job
            ms = masters(seed, n)
            base = {'kind': 'ceremony', 'seed': seed, 'm': m, 'n': n, 'wt': wt, 'sort': srt, 'wallets': [[list(p), h] for p, h in wallets],
                    'nslots': nslots, 'settings': settings}
            if res['setup']:
                if res['setup'].startswith('machinery'):
                    raise common.MachineryError(res['setup'])
                ck.violation(None, '%s; %d-of-%d %s wallets %s' % (res['setup'], m, n, wt, wallets), dict(base, ceremony=cl[0]))
                continue
            for si, slot in enumerate(res['slots']):             # the group's wallets are agreement observations too
                obs = [{'addr': slot['addr'], 'path': slot['path'], 'keys': slot['keys'][wi], 'who': (list(p), h),
                        'what': 'new_key(cosigner_id=0) number %d' % (si + 1), 'case': dict(base, ceremony=cl[0])}
                       for wi, (p, h) in enumerate(wallets) if slot['keys'][wi] is not None]
                recs.append(agree_rec(m, n, wt, srt, ms, [x + 1 for x in wallets[0][0]], obs))
                meta.append(('a', (m, n, wt, srt, 'slot'), obs))
            for cer, got in zip(cl, res['ceremonies']):
                slot = res['slots'][got['slot']]
                used = sorted({f[3] for f in got['funds']})                 # the addresses (slots) the spend may draw on
                groups = [[list(c10_ref.derive_pub(ms[i], res['slots'][sl]['path'])) for i in range(n)] for sl in used]
                recs.append({'kind': 'ceremony', 'm': m, 'wt': wt, 'net': NET, 'sorted': srt, 'listing': [x + 1 for x in wallets[0][0]],
                             'pubs': groups[0], 'groups': groups, 'holder': [h + 1 for _, h in wallets],
                             'afs': [bool(st['afs']) for st in settings], 'height': [1, 0, 0, 0],    # bitcoinlib_test: block count 1
                             'knows': [st.get('knows', 'utxo') for st in settings],
                             'funds': [{'txid': list(bytes.fromhex(f[0])[::-1]), 'vout': list(f[1].to_bytes(4, 'little')),
                                        'amount': list(f[2].to_bytes(8, 'little')), 'g': used.index(f[3]) + 1} for f in got['funds']],
                             'events': [dict({k: e[k] for k in ('ok', 'nsig', 'verified', 'verify', 'pushed', 'err', 'rs', 'tx')},
                                             a={k: e['a'].get(k, d) for k, d in (('op', ''), ('w', 0), ('v', 0), ('form', ''), ('ins', []), ('key', 0))})
                                        for e in got['events']],
                             'txs': [list(bytes.fromhex(x)) for x in got['txs']]})
                meta.append(('c', job, got, dict(base, ceremony=cer), slot))
    verdicts, rounds = solve(recs)
    tm['tlc'] = time.time()

    # ------------------------------------------------------------------ verdicts
    nag = ncer = nraw = nvalid = 0
    fund = {'multi_input_spends': 0, 'chained_spends': 0, 'output_indices_spent': set()}
    for mt, v in zip(meta, verdicts):
        if mt[0] == 'a':
            _, (m, n, wt, srt, ri), obs = mt
            for o in obs:
                nag += 1
                ck.case(('agree', m, n, wt, srt, ri, o['who'][1]))
            for b in v['bad']:
                o = obs[b['at'] - 1]
                ck.violation(None, 'clause %s; %d-of-%d %s sort_keys=%s: the wallet listing the keys as %s and holding key %d privately answers '
                             '%s with %s (path %s); reference address %s for redeem script %s' % (
                                 b['clause'], m, n, wt, srt, o['who'][0], o['who'][1], o['what'], o['addr'], o['path'],
                                 ''.join(chr(x) for x in v['exp']), bytes(v['rs']).hex()), o['case'])
            if len(ck.samples) < 2 and obs:
                ck.sample({'agree': '%d-of-%d %s' % (m, n, wt), 'wallets': len(obs), 'path': obs[0]['path'], 'address': obs[0]['addr']})
        else:
            _, job, got, case, slot = mt
            seed, m, n, wt, srt, wallets, nslots, cl, tag, settings = job
            ncer += 1
            ck.traces += 1
            fund['multi_input_spends'] += len(got['spends']) > 1
            fund['chained_spends'] += any(p[2] == 20000000 for p in got['spends'])
            for p in got['spends']:
                fund['output_indices_spent'].add(p[1])
            if got.get('note'):
                raise common.MachineryError(got['note'])
            nraw += len(got['txs'])
            nvalid += sum(1 for c in v.get('cons', []) if c == 'valid')
            for e in got['events']:
                ck.case(('cer', m, n, wt, e['a']['op'], e['a']['form'], tuple(e['nsig']), e['verified'], e['pushed'],
                         settings[(e['a']['v'] or e['a']['w']) - 1]['afs'], settings[(e['a']['v'] or e['a']['w']) - 1].get('knows'), e['ok'], e['a'].get('lt', -1) > 0, e['a'].get('rbf', False)))
            text = '%d-of-%d %s wallets(listing, holder, anti_fee_sniping, knows)=%s spending %s: %s' % (
                m, n, wt, [(list(p), h, st['afs'], st.get('knows', 'utxo')) for (p, h), st in zip(wallets, settings)], slot['addr'],
                describe(got['events']))
            if v['v'] != 'ok':
                ck.violation(None, 'clause %s; event %d of %s' % (v['v'], v['at'], text), case)
            for dev in v['dev']:
                ck.violation(dev, 'clause %s; %s' % (dev, text), case)
            if len(ck.samples) < 5:
                ck.sample({'ceremony': '%d-of-%d %s' % (m, n, wt), 'events': describe(got['events'])[:400]})
    ck.notes.update({'agreement_observations': nag, 'ceremonies': ncer, 'raw_transactions_judged': nraw, 'network_valid': nvalid,
                     'funding': dict(fund, output_indices_spent=sorted(fund['output_indices_spent'])), 'oracle_rounds': rounds, 'wallet_groups': len(cjobs), 'agreement_jobs': len(ajobs),
                     'seconds': {'wallet_drivers': round(tm['wallets'] - tm['t0'], 1), 'tlc_judge_and_oracle': round(tm['tlc'] - tm['wallets'], 1)}})
    if os.environ.get('VERIF_DEBUG'):
        print('DEBUG', ck.notes['seconds'], 'records', len(recs), 'rounds', rounds, ck.notes['funding'])
    return ck.finish()
