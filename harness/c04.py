"""C04 - private key -> public key -> address is exact; values that are not keys are refused (spec/KeyMaterial.tla).

(M) MC_KeyMaterial: the accept/refuse rules, both serializations and every network x type x encoding on a toy curve
    (y^2 = x^3 + 7 over GF(67)) that TLC computes itself.
(G) KeyMaterialEval "wif" records: WIF strings of in-range and out-of-range scalars are built by the specification.
(V) KeyMaterialEval "priv" / "pub" / "addr" records: what bitcoinlib answered (accepted?, public forms, point, hash160,
    address) is judged by TLC.  The specification names the byte strings whose primitive values (hash, curve
    operation) it needs; inside the same TLC run harness/c04_prim.py (harness/ref.py) supplies exactly those values and
    the records are judged again (KeyMaterialEval!Solve) - Python never decides which bytes are hashed or compared.
"""
import os
import sys

from harness import common, ref
from harness.c04_prim import prim
from harness.common import Check, MachineryError, blist, tier

PRIM_HELPER = os.path.join(os.path.dirname(os.path.abspath(__file__)), 'c04_prim.py')

PID = 'C04'

NETS = ['bitcoin', 'testnet', 'testnet4', 'signet', 'regtest', 'litecoin', 'litecoin_legacy', 'litecoin_testnet',
        'dogecoin', 'dogecoin_testnet', 'bitcoinlib_test']
TYPES = ['p2pkh', 'p2sh_p2wpkh', 'p2wpkh', 'p2wsh', 'p2tr', 'p2sh', 'p2sh_p2wsh']
KEYTYPES = ('p2pkh', 'p2sh_p2wpkh', 'p2wpkh', 'p2tr')
ENCS = ['base58', 'bech32']
HASHLEN = {'p2pkh': 20, 'p2sh_p2wpkh': 20, 'p2wpkh': 20, 'p2sh': 20, 'p2wsh': 32, 'p2sh_p2wsh': 32, 'p2tr': 32}


# --------------------------------------------------------------------------------------------- oracle
def selftest():
    ref.selftest()
    # BIP86 test vector (first receiving address m/86'/0'/0'/0/0): internal key -> output key
    ik = bytes.fromhex('cc8a4bc64d897bddc5fbc2f670f7a8ba0b386779106cf1223c6fc5d7cd6fc115')
    t = ref.sha256(ref.sha256(b'TapTweak') * 2 + ik)
    if prim('xonly_tweak_add', ik + t).hex() != 'a60869f0dbcf1dc659c9cecbaf8050135ea9e8cdc487053f1dc6880949dc684c':
        raise MachineryError('reference primitive self-test failed: xonly_tweak_add (BIP86 vector)')
    if prim('ec_mul_G', b32(ref.N)) != b'\0' or prim('lift_x', b32(5)) != b'\0' or prim('lift_x', b32(ref.GX))[-1] & 1:
        raise MachineryError('reference primitive self-test failed: conventions of ec_mul_G / lift_x')


_stats = {'helper_calls': 0, 'values': 0}


def judge(recs):
    """TLC verdicts for the records.  Inside the TLC run the specification's requests for primitive values are
    answered by harness/c04_prim.py (KeyMaterialEval!Solve) until every verdict is final."""
    recs = list(recs)
    if not recs:
        return []
    sf = os.path.join(common.scratch(), 'c04_prim_stats_%d' % os.getpid())
    env = {'C04_PYTHON': sys.executable, 'C04_PRIM': PRIM_HELPER, 'C04_PRIM_STATS': sf}
    procs = max(1, min(common.NCPU, len(recs) // 250))
    verdicts = common.tlc_eval('KeyMaterialEval', recs, env=env, procs=procs)
    for v in verdicts:
        if v['v'] in ('need', 'primitive-helper-failed'):
            raise MachineryError('KeyMaterialEval could not obtain the primitive values it needs: %r' % (v,))
    if os.path.exists(sf):
        vals = [int(x) for x in open(sf).read().split()]
        _stats['helper_calls'] += len(vals)
        _stats['values'] += sum(vals)
        os.remove(sf)
    return verdicts


# --------------------------------------------------------------------------------------------- case generation
def b32(v):
    return v.to_bytes(32, 'big')


def scalar_classes(rng, thorough):
    N = ref.N
    cls = [('zero', 0), ('one', 1), ('two', 2), ('three', 3), ('n-2', N - 2), ('n-1', N - 1), ('n', N), ('n+1', N + 1),
           ('n+2', N + 2), ('2^256-1', 2 ** 256 - 1), ('2^255', 2 ** 255), ('2^128', 2 ** 128), ('(n-1)/2', (N - 1) // 2),
           ('(n+1)/2', (N + 1) // 2), ('p', ref.P), ('p-1', ref.P - 1), ('2^256-2^32', 2 ** 256 - 2 ** 32),
           ('n-with-low-byte-0', N - 0x41), ('2^255+1', 2 ** 255 + 1), ('0x0101..', int.from_bytes(b'\1' * 32, 'big'))]
    for i in (8, 31, 32, 63, 64, 127, 200, 254):
        cls.append(('2^%d' % i, 2 ** i))
    for i in (16, 33, 129, 255):
        cls.append(('2^%d-1' % i, 2 ** i - 1))
    for j in range(150 if thorough else 12):
        cls.append(('random-valid', rng.randrange(1, N)))
    for j in range(30 if thorough else 4):
        cls.append(('random-above-n', N + rng.randrange(2 ** 256 - N)))
    for j in range(8 if thorough else 2):      # sparse: few bits set
        v = 0
        for _ in range(rng.randrange(2, 5)):
            v |= 1 << rng.randrange(256)
        cls.append(('sparse', v))
    return cls


def priv_recipes(rng, thorough):
    out = []
    n = 0
    for label, k in scalar_classes(rng, thorough):
        kb = b32(k)
        for fmt in ('int', 'hex', 'bytes', 'hex01', 'bytes01', 'wif', 'wifc'):
            if fmt == 'bytes01' and kb[0] in (2, 3, 4):      # 33 bytes starting 02/03/04 read as a public key (C12)
                continue
            if fmt == 'hex01' and kb[0] in (2, 3):
                continue
            # the compressed parameter: decisive for formats without a marker, to be overruled by the others
            params = [True, False] if fmt != 'wif' and (label != 'random-valid' or n % 3 == 0) else [True]
            for param in params:
                n += 1
                out.append({'kind': 'priv', 'label': label, 'fmt': fmt, 'k': kb.hex(), 'param': param,
                            'net': NETS[n % len(NETS)]})
    for label, k in (('2^256', 2 ** 256), ('2^256+1', 2 ** 256 + 1), ('n*2', 2 * ref.N), ('2^300', 2 ** 300)):
        out.append({'kind': 'priv', 'label': label, 'fmt': 'int', 'k': k.to_bytes(40, 'big').hex(), 'param': True,
                    'net': 'bitcoin'})
    return out


def pub_recipes(rng, thorough):
    P = ref.P
    out = []

    def add(label, fmt, pre, x, y, param=True, net='bitcoin'):
        out.append({'kind': 'pub', 'label': label, 'fmt': fmt, 'pre': pre, 'x': b32(x).hex(),
                    'y': b32(y).hex() if y is not None else '', 'param': param, 'net': net})

    # points of the curve (inputs; their validity is decided by the specification)
    scal = [1, 2, 3, ref.N - 1, ref.N - 2] + [rng.randrange(1, ref.N) for _ in range(80 if thorough else 10)]
    pts = [ref.ec_mul(k) for k in scal]
    # x coordinates: small integers, around p, random (about half of them are not on the curve)
    xs = list(range(0, 12)) + [P - 2, P - 1, P, P + 1, P + 2, P + 5, 2 ** 256 - 1, 2 ** 255]
    xs += [rng.getrandbits(256) for _ in range(150 if thorough else 16)]
    n = 0
    for x, y in pts:
        n += 1
        net = NETS[n % len(NETS)]
        for fmt in ('hexc', 'bytesc'):
            for pre in (2, 3):
                add('on-curve-x', fmt, pre, x, None, net=net)
        other = pts[(n + 1) % len(pts)]
        for fmt in ('hexu', 'bytesu', 'point'):
            add('right-y', fmt, 4, x, y, net=net)
            add('negated-y', fmt, 4, x, P - y, net=net)
            add('y-low-bit-flipped', fmt, 4, x, y ^ 1)
            add('y+1', fmt, 4, x, (y + 1) % P)
            add('y-of-other-point', fmt, 4, x, other[1])
            add('y-zero', fmt, 4, x, 0)
            add('x-y-swapped', fmt, 4, y, x)
            if y + P < 2 ** 256:
                add('y+p', fmt, 4, x, y + P)
        add('right-y-uncompressed-flag', 'point', 4, x, y, param=False, net=net)
    for x in xs:
        if x >= 2 ** 256:
            continue
        for fmt in ('hexc', 'bytesc'):
            for pre in (2, 3):
                add('x-candidate', fmt, pre, x, None)
        yr = rng.getrandbits(256)
        for fmt in ('hexu', 'bytesu', 'point'):
            add('x-candidate-random-y', fmt, 4, x, yr)
            lp = ref.lift_x(x % P, 0)                 # input generation only: a y that fits x mod p
            if lp is not None:
                add('x-candidate-fitting-y', fmt, 4, x, lp[1])
    return out


def addr_recipes(rng, thorough):
    out = []
    keys = [1, ref.N - 1] + [rng.randrange(1, ref.N) for _ in range(14 if thorough else 2)]
    n = 0
    for ki, k in enumerate(keys):
        kb = b32(k)
        pubc, pubu = ref.pubkey(k), ref.pubkey(k, False)          # inputs for Address(data=...)
        scripts = [bytes([33]) + pubc + b'\xac', bytes([0x51, 33]) + pubc + bytes([0x51, 0xae]),
                   # OP_RETURN-led random script (a byte string of ASCII hex digits / blanks only would be read as
                   # hex text by the library's input convention, so it is not a usable way to hand over a script)
                   b'\x6a' + bytes(rng.randrange(256) for _ in range(rng.choice([0, 22, 74, 75, 300])))]
        for net in NETS:
            for t in TYPES:
                for e in ENCS:
                    n += 1
                    base = {'kind': 'addr', 'net': net, 't': t, 'e': e, 'wt': ''}
                    out.append(dict(base, route='key.address', src='key', d=kb.hex(), comp=True))
                    if ki < 2 or thorough:
                        out.append(dict(base, route='key.address', src='key', d=kb.hex(), comp=False))
                    if t in KEYTYPES:
                        out.append(dict(base, route='address(data)', src='data', d=pubc.hex(), comp=True))
                        if n % 3 == 0 or thorough:
                            out.append(dict(base, route='address(data)', src='data', d=pubu.hex(), comp=False))
                    else:
                        out.append(dict(base, route='address(data)', src='data', d=scripts[n % 3].hex(), comp=True))
                    h = bytes(rng.randrange(256) for _ in range(HASHLEN[t]))
                    if n % 7 == 0:
                        h = bytes(3) + h[3:]                               # leading zero bytes
                    out.append(dict(base, route='address(hash)', src='hash', d=h.hex(), comp=True))
            for wt in ('legacy', 'segwit', 'p2sh-segwit'):
                out.append({'kind': 'addr', 'net': net, 't': '', 'e': '', 'wt': wt, 'route': 'hdkey', 'src': 'key',
                            'd': kb.hex(), 'comp': True})
            out.append({'kind': 'addr', 'net': net, 't': '', 'e': '', 'wt': 'legacy', 'route': 'hdkey', 'src': 'key',
                        'd': kb.hex(), 'comp': False})
            # the kind of address chosen by witness type alone: Address(data=<key>, witness_type=...) and the address an
            # Input reports for its key
            for wt in ('legacy', 'segwit', 'p2sh-segwit'):
                out.append({'kind': 'addr', 'net': net, 't': '', 'e': '', 'wt': wt, 'route': 'input-wt', 'src': 'data',
                            'd': pubc.hex(), 'comp': True})
                if wt != 'segwit':      # (Address() needs encoding='bech32' said explicitly for a witness program)
                    out.append({'kind': 'addr', 'net': net, 't': '', 'e': '', 'wt': wt, 'route': 'address-wt', 'src': 'data',
                                'd': pubc.hex(), 'comp': True})
            out.append({'kind': 'addr', 'net': net, 't': '', 'e': '', 'wt': '', 'route': 'default', 'src': 'key',
                        'd': kb.hex(), 'comp': True})
            for t, e in (('p2pkh', 'base58'), ('p2sh_p2wpkh', 'base58'), ('p2wpkh', 'bech32')):
                out.append({'kind': 'addr', 'net': net, 't': t, 'e': e, 'wt': '', 'route': 'key-compressed-arg',
                            'src': 'key', 'd': kb.hex(), 'comp': True})
            out.append({'kind': 'addr', 'net': net, 't': 'p2pkh', 'e': 'base58', 'wt': '',
                        'route': 'key-uncompressed-method', 'src': 'key', 'd': kb.hex(), 'comp': False})
    return out



# call histories on one key object: the answer to the last call is judged
PFX = {'base58': [[0x30], [0x05], [0x6f], [0xc4], [0x1e]], 'bech32': ['ltc', 'tb', 'bcrt', 'doge']}
KEY_TE = [('p2pkh', 'base58'), ('p2sh_p2wpkh', 'base58'), ('p2wpkh', 'bech32')]


def _call(op, t='', e='', c='', pfx=None, net=''):
    return {'op': op, 't': t, 'e': e, 'c': c, 'pfx': list(pfx or []), 'net': net}


def _pfx(rng, e):
    v = rng.choice(PFX[e])
    return v if e == 'base58' else [ord(ch) for ch in v]


def hist_recipes(rng, thorough):
    out = []
    keys = [1, rng.randrange(1, ref.N)] + ([rng.randrange(1, ref.N) for _ in range(4)] if thorough else [])

    def add(obj, wt, net, k, comp0, calls):
        out.append({'kind': 'hist', 'obj': obj, 'wt': wt, 'net': net, 'd': b32(k).hex(), 'comp0': comp0, 'calls': calls})

    def objects():
        yield 'key', ''
        for wt in ('legacy', 'segwit', 'p2sh-segwit'):
            yield 'hdkey', wt

    n = 0
    for k in keys:
        for obj, wt in objects():
            own = {'': None, 'legacy': KEY_TE[0], 'p2sh-segwit': KEY_TE[1], 'segwit': KEY_TE[2]}[wt]
            for net in (NETS if thorough else NETS[n % 2::2]):
                n += 1
                net2 = NETS[(NETS.index(net) + 1 + n % 9) % len(NETS)]
                t1, e1 = KEY_TE[n % 3]
                t2, e2 = KEY_TE[(n // 3) % 3]
                # systematic core
                add(obj, wt, net, k, True, [_call('address'), _call('address')])
                add(obj, wt, net, k, True, [_call('address', t1, e1), _call('address', t2, e2)])
                add(obj, wt, net, k, True, [_call('address', t1, e1, pfx=_pfx(rng, e1)), _call('address', t1, e1)])
                add(obj, wt, net, k, True, [_call('address', t1, e1), _call('address', t2, e2, pfx=_pfx(rng, e2))])
                add(obj, wt, net, k, True, [_call('address', t1, e1, pfx=_pfx(rng, e1)), _call('address', t2, e2)])
                add(obj, wt, net, k, True, [_call('wif'), _call('address', t1, e1), _call('public'), _call('address', t2, e2)])
                add(obj, wt, net, k, True, [_call('address_uncompressed'), _call('address', t2, e2, 'T')])
                add(obj, wt, net, k, False, [_call('address', 'p2pkh', 'base58', 'T'), _call('address_uncompressed')])
                add(obj, wt, net, k, n % 2 == 0, [_call('address', c='F'), _call('address', t1, e1, 'T'),
                                                  _call('address', 'p2pkh', 'base58', 'F')])
                pb = _pfx(rng, 'base58')
                add(obj, wt, net, k, True, [_call('address', 'p2pkh', 'base58', pfx=pb),
                                            _call('address', 'p2sh_p2wpkh', 'base58', pfx=pb)])
                add(obj, wt, net, k, True, [_call('address', 'p2pkh', 'base58', pfx=pb),
                                            _call('address', 'p2pkh', 'base58', 'F', pfx=pb)])
                if obj == 'key' or own[1] == 'base58':
                    add(obj, wt, net, k, True, [_call('address', pfx=_pfx(rng, 'base58')), _call('address')])
                if obj == 'hdkey':
                    add(obj, wt, net, k, True, [_call('address'), _call('network_change', net=net2), _call('address')])
                    add(obj, wt, net, k, True, [_call('address', t1, e1), _call('network_change', net=net2),
                                                _call('address', t1, e1)])
                    add(obj, wt, net, k, True, [_call('address', t1, e1, pfx=_pfx(rng, e1)),
                                                _call('network_change', net=net2), _call('address', t2, e2)])
                    add(obj, wt, net, k, True, [_call('network_change', net=net2), _call('address'),
                                                _call('network_change', net=net), _call('address')])
                    add(obj, wt, net, k, True, [_call('address'), _call('network_change', net=net2), _call('public'),
                                                _call('address')])
                else:
                    add(obj, wt, net, k, True, [_call('address', t1, e1), _call('address', e=e2)])
                    add(obj, wt, net, k, True, [_call('address', t1, e1), _call('address', t2)])
                # random histories
                for _ in range(6 if thorough else 2):
                    calls = []
                    for i in range(rng.randrange(1, 3)):
                        op = rng.choice(['address', 'address', 'address', 'address_uncompressed', 'wif', 'public', 'hash160']
                                        + (['network_change'] * 3 if obj == 'hdkey' else []))
                        if op == 'address':
                            t, e = rng.choice(KEY_TE)
                            if rng.random() < 0.25:
                                t, e = '', ''
                            pf = _pfx(rng, e or (own[1] if own else 'base58')) if rng.random() < 0.4 and (e or obj == 'hdkey' or not calls) else None
                            calls.append(_call('address', t, e, rng.choice(['', '', 'T', 'F']), pf))
                        elif op == 'network_change':
                            calls.append(_call(op, net=rng.choice(NETS)))
                        else:
                            calls.append(_call(op))
                    t, e = rng.choice(KEY_TE)
                    if rng.random() < 0.3:
                        t, e = '', ''
                    last = _call('address', t, e, rng.choice(['', '', 'T']),
                                 _pfx(rng, e) if e and rng.random() < 0.25 else None)
                    add(obj, wt, net, k, rng.random() < 0.8, calls + [last])
    return out

# --------------------------------------------------------------------------------------------- driving bitcoinlib
def _grab(f):
    try:
        return f()
    except Exception:
        return None


def _hexbytes(h):
    try:
        return blist(bytes.fromhex(h))
    except Exception:
        return []


def _coord(v):
    try:
        return blist(int(v).to_bytes(32, 'big'))
    except Exception:
        return []


def observe_key(make):
    """Create the key object; report whether it was created and what it says about itself."""
    obs = {'acc': False, 'pubhex': [], 'pubc': [], 'pubu': [], 'px': [], 'py': [], 'comp': False, 'sec': [], 'h160': []}
    try:
        k = make()
    except Exception:
        return obs
    obs['acc'] = True
    obs['comp'] = bool(_grab(lambda: k.compressed))
    obs['pubhex'] = _hexbytes(_grab(lambda: k.public_hex))
    obs['pubc'] = _hexbytes(_grab(lambda: k.public_compressed_hex))
    obs['pubu'] = _hexbytes(_grab(lambda: k.public_uncompressed_hex))
    pt = _grab(lambda: k.public_point())
    if pt is not None:
        obs['px'], obs['py'] = _coord(pt[0]), _coord(pt[1])
    sec = _grab(lambda: k.secret)
    if isinstance(sec, int) and sec >= 0:
        obs['sec'] = blist(sec.to_bytes(max(32, (sec.bit_length() + 7) // 8), 'big'))
    h = _grab(lambda: k.hash160)
    obs['h160'] = blist(h) if isinstance(h, (bytes, bytearray)) else []
    return obs


def drive(rc):
    """recipe -> record for KeyMaterialEval (the call into bitcoinlib happens here)."""
    from bitcoinlib.keys import Key, Address, HDKey
    if rc['kind'] == 'priv':
        kb = bytes.fromhex(rc['k'])
        fmt = rc['fmt']
        if fmt == 'int':
            val = int.from_bytes(kb, 'big')
        elif fmt == 'hex':
            val = kb.hex()
        elif fmt == 'bytes':
            val = kb
        elif fmt == 'hex01':
            val = kb.hex() + '01'
        elif fmt == 'bytes01':
            val = kb + b'\1'
        else:
            val = rc['wif']
        rec = {'kind': 'priv', 'fmt': fmt, 'k': blist(kb), 'param': rc['param']}
        rec.update(observe_key(lambda: Key(val, network=rc['net'], compressed=rc['param'])))
        return rec
    if rc['kind'] == 'pub':
        x, y = bytes.fromhex(rc['x']), bytes.fromhex(rc['y'])
        fmt = rc['fmt']
        enc = bytes([rc['pre']]) + x + y
        val = {'hexc': enc.hex(), 'hexu': enc.hex(), 'bytesc': enc, 'bytesu': enc,
               'point': (int.from_bytes(x, 'big'), int.from_bytes(y, 'big') if y else 0)}[fmt]
        rec = {'kind': 'pub', 'fmt': fmt, 'pre': rc['pre'], 'x': blist(x), 'y': blist(y), 'param': rc['param']}
        rec.update(observe_key(lambda: Key(val, network=rc['net'], compressed=rc['param'])))
        return rec
    if rc['kind'] == 'addr':
        d = bytes.fromhex(rc['d'])
        net, t, e, route, comp = rc['net'], rc['t'], rc['e'], rc['route'], rc['comp']
        if route == 'key.address':
            f = lambda: Key(d, network=net, compressed=comp).address(script_type=t, encoding=e)
        elif route == 'address(data)':
            f = lambda: Address(data=d, script_type=t, encoding=e, network=net).address
        elif route == 'address(hash)':
            f = lambda: Address(hashed_data=d, script_type=t, encoding=e, network=net).address
        elif route == 'hdkey':
            f = lambda: HDKey(key=d, chain=b'\x07' * 32, network=net, witness_type=rc['wt'], compressed=comp).address()
        elif route == 'address-wt':
            f = lambda: Address(data=d, witness_type=rc['wt'], network=net).address
        elif route == 'input-wt':
            from bitcoinlib.transactions import Input
            f = lambda: Input(prev_txid=b'\x11' * 32, output_n=0, keys=d, witness_type=rc['wt'], network=net).address
        elif route == 'default':
            f = lambda: Key(d, network=net).address()
        elif route == 'key-compressed-arg':
            f = lambda: Key(d, network=net, compressed=False).address(compressed=True, script_type=t, encoding=e)
        elif route == 'key-uncompressed-method':
            f = lambda: Key(d, network=net).address_uncompressed(script_type=t, encoding=e)
        else:
            raise MachineryError('unknown route %r' % route)
        rec = {'kind': 'addr', 'net': net, 't': t, 'e': e, 'wt': rc['wt'], 'route': route, 'src': rc['src'],
               'd': blist(d), 'comp': comp, 'acc': False, 'got': []}
        try:
            a = f()
            if not isinstance(a, str):
                raise TypeError('address is not a string')
            rec['got'] = [ord(c) for c in a]
            rec['acc'] = True
        except Exception:
            pass
        return rec
    if rc['kind'] == 'hist':
        d = bytes.fromhex(rc['d'])
        rec = {'kind': 'hist', 'obj': rc['obj'], 'wt': rc['wt'], 'net': rc['net'], 'd': blist(d), 'comp0': rc['comp0'],
               'calls': rc['calls'], 'acc': False, 'got': []}

        def perform(o, c):
            if c['op'] in ('address', 'address_uncompressed'):
                kw = {}
                if c['t']:
                    kw['script_type'] = c['t']
                if c['e']:
                    kw['encoding'] = c['e']
                if c['pfx']:
                    kw['prefix'] = bytes(c['pfx']) if all(ch < 33 or ch > 126 for ch in c['pfx']) or len(c['pfx']) == 1 \
                        else ''.join(chr(ch) for ch in c['pfx'])
                if c['op'] == 'address_uncompressed':
                    return o, o.address_uncompressed(**kw)
                if c['c']:
                    kw['compressed'] = c['c'] == 'T'
                return o, o.address(**kw)
            if c['op'] == 'network_change':
                return o, o.network_change(c['net'])
            if c['op'] == 'wif':
                return o, o.wif()
            if c['op'] == 'public':
                return o.public(), None
            if c['op'] == 'hash160':
                return o, o.hash160
            raise MachineryError('unknown call %r' % (c,))
        try:
            if rc['obj'] == 'key':
                o = Key(d, network=rc['net'], compressed=rc['comp0'])
            else:
                o = HDKey(key=d, chain=b'\x07' * 32, network=rc['net'], witness_type=rc['wt'], compressed=rc['comp0'])
        except Exception:
            raise MachineryError('could not create the key object of a history: %r' % (rc,))
        for c in rc['calls'][:-1]:
            try:
                o, _ = perform(o, c)
            except MachineryError:
                raise
            except Exception:
                pass                      # a refused earlier call is part of the history
        try:
            _, a = perform(o, rc['calls'][-1])
            if not isinstance(a, str):
                raise TypeError('address is not a string')
            rec['got'] = [ord(ch) for ch in a]
            rec['acc'] = True
        except MachineryError:
            raise
        except Exception:
            pass
        return rec
    raise MachineryError('unknown recipe kind %r' % rc['kind'])


def describe(rc):
    if rc['kind'] == 'priv':
        return 'Key(<%s %s of scalar %s (%s)>, network=%s, compressed=%s)' % (
            rc['fmt'], rc.get('wif', ''), rc['k'], rc['label'], rc['net'], rc['param'])
    if rc['kind'] == 'pub':
        return 'Key(<%s prefix %02x x=%s y=%s (%s)>, compressed=%s)' % (
            rc['fmt'], rc['pre'], rc['x'], rc['y'] or '-', rc['label'], rc['param'])
    if rc['kind'] == 'hist':
        def cs(c):
            a = [x for x in ('script_type=' + c['t'] if c['t'] else '', 'encoding=' + c['e'] if c['e'] else '',
                             'compressed=' + c['c'] if c['c'] else '', 'prefix=' + show(c['pfx'], len(c['pfx']) > 1)
                             if c['pfx'] else '', c['net']) if x]
            return '%s(%s)' % (c['op'], ', '.join(a))
        return 'one %s object (scalar %s, network=%s, witness_type=%s, compressed=%s): %s' % (
            rc['obj'], rc['d'], rc['net'], rc['wt'] or '-', rc['comp0'], '; '.join(cs(c) for c in rc['calls']))
    return '%s net=%s script_type=%s encoding=%s witness_type=%s %s=%s compressed=%s' % (
        rc['route'], rc['net'], rc['t'] or '-', rc['e'] or '-', rc['wt'] or '-', rc['src'], rc['d'][:140], rc['comp'])


def klass(rc, rec):
    if rc['kind'] == 'priv':
        return ('priv', rc['fmt'], rc['label'], rc['param'], rec['acc'])
    if rc['kind'] == 'pub':
        return ('pub', rc['fmt'], rc['pre'], rc['label'], rec['acc'])
    if rc['kind'] == 'hist':
        return ('hist', rc['obj'], rc['wt'], rc['net'], rc['comp0'],
                tuple((c['op'], c['t'], c['e'], c['c'], bool(c['pfx']), c['net']) for c in rc['calls']))
    return ('addr', rc['route'], rc['net'], rc['t'], rc['e'], rc['wt'], rc['comp'], len(rc['d']) // 2)


def show(x, text=False):
    if isinstance(x, list) and x and all(isinstance(i, int) for i in x):
        b = bytes(i & 255 for i in x)
        return b.decode() if text and all(33 <= c < 127 for c in b) else b.hex()
    return str(x)


def run(replay=None):
    selftest()
    common.fresh_bitcoinlib_env()
    ck = Check(PID)
    thorough = tier() == 'thorough'
    rng = ck.rng
    ck.rule = ('a class is (private import format x scalar class x compressed parameter x accepted?) | (public import '
               'format x prefix x encoding class x accepted?) | (address route x network x script type x encoding x '
               'compressed x data length); scalar classes: 0,1,2,3, n-2..n+2, p, 2^k, 2^k-1, sparse, random in [1,n-1], '
               'random in [n,2^256); encodings: on-curve x with both prefixes, x not on the curve, x >= p, right / '
               'negated / damaged y, coordinate pairs; every network x 7 script types x 2 encodings per route')
    ck.assumptions = ['TLC evaluates KeyMaterial.tla / AddrScript.tla correctly',
                      'harness/ref.py primitives (self-tested against published vectors incl. BIP86) are the standard '
                      'hash and curve functions',
                      'for script-hash types the data handed to Address()/Key.address() is the script (Key.address '
                      'hands over the serialized key, as the library documents)',
                      'byte strings of 33/65 bytes starting 02/03/04 are public keys by format (format detection is '
                      'C12): such scalars are not imported in the *01 suffix formats',
                      'scripts are handed over as bytes that are not ASCII hex text (bitcoinlib reads such bytes as hex)',
                      'default arguments (no script type / encoding chosen) are only required to yield some standard '
                      'address of the key']

    # ---------------- (M) (runs beside the conformance part; joined before the verdict)
    from concurrent.futures import ThreadPoolExecutor
    pool = ThreadPoolExecutor(max_workers=1)
    mc = pool.submit(common.model_check, 'MC_KeyMaterial',
                     'MC_KeyMaterial_thorough.cfg' if thorough else 'MC_KeyMaterial.cfg',
                     env={'JAVA_TOOL_OPTIONS': '-Xss32m'}, workers=8,
                     expect_actions=['ImportPriv', 'ImportPub', 'Serialize', 'Derive'])

    # ---------------- recipes
    if replay:
        recipes = [replay['case']['recipe']]
    else:
        recipes = (priv_recipes(rng, thorough) + pub_recipes(rng, thorough) + addr_recipes(rng, thorough)
                   + hist_recipes(rng, thorough))

    # ---------------- (G) WIF strings from the specification
    wifs = [rc for rc in recipes if rc['kind'] == 'priv' and rc['fmt'] in ('wif', 'wifc') and 'wif' not in rc]
    gen = judge([{'kind': 'consts'}] + [{'kind': 'wif', 'net': rc['net'], 'k': blist(bytes.fromhex(rc['k'])),
                                         'comp': rc['fmt'] == 'wifc'} for rc in wifs])
    # the curve parameters of the specification are those of the reference primitives
    if bytes(gen[0]['exp'][0]) != b32(ref.P) or bytes(gen[0]['exp'][1]) != b32(ref.N):
        raise MachineryError('FieldP / OrderN of KeyMaterial.tla differ from harness/ref.py')
    gen = gen[1:]
    for rc, g in zip(wifs, gen):
        if g['v'] != 'ok':
            raise MachineryError('WIF generation failed: %r' % g)
        rc['wif'] = ''.join(chr(c) for c in g['exp'])

    # ---------------- drive the implementation, (V) judge
    recs = [drive(rc) for rc in recipes]
    verdicts = judge(recs)
    nacc = 0
    for rc, rec, v in zip(recipes, recs, verdicts):
        ck.case(klass(rc, rec))
        nacc += bool(rec['acc'])
        if v['v'] != 'ok':
            got = rec.get('got') if rc['kind'] in ('addr', 'hist') else rec.get('pubhex')
            if v['dev'] == 'int-zero-generates-random-key':
                got = [ord(c) for c in '<a fresh random key>']
            txt = rc['kind'] in ('addr', 'hist') or v['dev'] == 'int-zero-generates-random-key'
            ck.violation(v['dev'] or None, '%s: clause %s; %s, answered %s; specification expects %s' % (
                describe(rc), v['v'], 'accepted' if rec['acc'] else 'refused', show(got, txt) or '-',
                show(v['exp'], txt) or ('refusal' if v['v'].startswith(('invalid', 'no-standard')) else '-')),
                {'recipe': rc})
    ck.traces = len(recs)
    ck.model(mc.result())
    pool.shutdown()
    step = max(1, len(recipes) // 6)
    for rc, rec in list(zip(recipes, recs))[1::step]:
        ck.sample({'case': describe(rc), 'accepted': rec['acc'],
                   'answer': show(rec.get('got') if rc['kind'] in ('addr', 'hist') else rec.get('pubhex'),
                                  rc['kind'] in ('addr', 'hist'))},
                  limit=8)
    if not replay:
        # specification growth beyond the listed properties: the network reference table and its lookups (Networks.tla)
        from harness import networks
        networks.run_section(ck, thorough)
    ck.notes['records'] = {k: sum(1 for rc in recipes if rc['kind'] == k) for k in ('priv', 'pub', 'addr', 'hist')}
    ck.notes['accepted_by_implementation'] = nacc
    ck.notes['wif_strings_generated_by_spec'] = len(wifs)
    ck.notes['primitive_values_supplied'] = _stats['values']
    ck.notes['primitive_helper_calls'] = _stats['helper_calls']
    return ck.finish()
