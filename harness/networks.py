"""Networks.tla bound to bitcoinlib/networks.py (specification growth beyond the listed properties, DESIGN 0.5/7).

(M) MC_Networks: every lookup over the pinned table, structural invariants.
(V) the table the library holds (NETWORK_DEFINITIONS, i.e. the working tree's networks.json) and the answers of
    network_by_value / wif_prefix_search / Network.wif_prefix for a systematic set of questions are judged by TLC
    (NetworksEval).  No listed property states these lookups, so disagreements are reported with Check.beyond (no alarm)."""
import itertools

from harness import common

FIELDS = ('prefix_address', 'prefix_address_p2sh', 'prefix_bech32', 'prefix_wif')
WTS = ('legacy', 'p2sh-segwit', 'segwit')
B58 = '123456789ABCDEFGHJKLMNPQRSTUVWXYZabcdefghijkmnopqrstuvwxyz'


def _b58(b):
    n = int.from_bytes(b, 'big')
    s = ''
    while n:
        n, r = divmod(n, 58)
        s = B58[r] + s
    return '1' * (len(b) - len(b.lstrip(b'\0'))) + s


def observe(job):
    """Runs in a fresh interpreter: the table as the library holds it and the answers to every question."""
    from bitcoinlib import networks as nw
    defs = nw.NETWORK_DEFINITIONS
    table = []
    for name, v in defs.items():
        table.append({'name': name, 'priority': int(v['priority']), 'prefix_address': str(v['prefix_address']),
                      'prefix_address_p2sh': str(v['prefix_address_p2sh']), 'prefix_bech32': str(v['prefix_bech32']),
                      'prefix_wif': str(v['prefix_wif']), 'cointype': int(v['bip44_cointype']), 'code': str(v['currency_code']),
                      'hd': [{'prefix': str(p[0]), 'str': str(p[1]), 'priv': p[2] == 'private', 'multisig': bool(p[3]),
                              'witness': str(p[4]), 'script': str(p[5])} for p in v['prefixes_wif']]})
    calls = []
    values = sorted({r[f] for r in table for f in FIELDS} | {'zz'})
    values += sorted({v.lower() for v in values if v.lower() != v} | {v.upper() for v in values if v.upper() != v})
    for f in FIELDS:
        for v in values:
            c = {'op': 'by_value', 'f': f, 'v': v, 'vu': v.upper(), 'raised': False, 'got': []}
            try:
                c['got'] = list(nw.network_by_value(f, v))
            except Exception as e:
                c['raised'] = True
                c['err'] = repr(e)[:200]
            calls.append(c)
    prefixes = sorted({p['prefix'] for r in table for p in r['hd']}) + ['00000000']
    forms = []
    for p in prefixes:
        forms.append((p, p))
        forms.append((p.lower(), p))
    # whole extended keys: version + 74 bytes, Base58Check (the lookup reads the first four bytes after decoding)
    import hashlib
    for k, p in enumerate(prefixes[:-1]):
        payload = bytes.fromhex(p) + bytes([3]) + bytes(4) + bytes(4) + hashlib.sha256(b'cc%d' % k).digest() + b'\x02' + hashlib.sha256(b'k%d' % k).digest()
        forms.append((_b58(payload + hashlib.sha256(hashlib.sha256(payload).digest()).digest()[:4]), p))
    names = [r['name'] for r in table]
    for (arg, p), wt, ms, net in itertools.product(forms, (None,) + WTS, (None, True, False), [None] + names):
        if len(arg) > 8 and (wt, ms) not in ((None, None), ('legacy', False)) and net not in (None, 'bitcoin'):
            continue
        c = {'op': 'search', 'arg': arg, 'p': p, 'wt': wt or '', 'ms': 'any' if ms is None else ('yes' if ms else 'no'),
             'net': net or '', 'raised': False, 'got': []}
        try:
            got = nw.wif_prefix_search(arg, witness_type=wt, multisig=ms, network=net)
            c['got'] = [{k: g[k] for k in ('prefix', 'is_private', 'prefix_str', 'network', 'witness_type', 'multisig', 'script_type')}
                        for g in got]
            if any(set(g) != {'prefix', 'is_private', 'prefix_str', 'network', 'witness_type', 'multisig', 'script_type'} for g in got):
                c['got'] = [{'prefix': 'entry with other fields: %r' % sorted(got[0]), 'is_private': False, 'prefix_str': '', 'network': '',
                             'witness_type': '', 'multisig': False, 'script_type': ''}]
        except Exception as e:
            c['raised'] = True
            c['err'] = repr(e)[:200]
        calls.append(c)
    for name, priv, wt, m in itertools.product(names, (False, True), WTS, (False, True)):
        c = {'op': 'wif_prefix', 'net': name, 'priv': priv, 'wt': wt, 'multisig': m, 'raised': False, 'got': ''}
        try:
            c['got'] = nw.Network(name).wif_prefix(is_private=priv, witness_type=wt, multisig=m).hex().upper()
        except nw.NetworkError as e:
            c['raised'] = True
            c['err'] = repr(e)[:200]
        calls.append(c)
    return {'table': table, 'calls': calls}


def _desc(c):
    if c['op'] == 'by_value':
        return "network_by_value(%r, %r)" % (c['f'], c['v'])
    if c['op'] == 'search':
        return "wif_prefix_search(%r, witness_type=%r, multisig=%s, network=%r)" % (
            c['arg'], c['wt'] or None, {'any': None, 'yes': True, 'no': False}[c['ms']], c['net'] or None)
    return "Network(%r).wif_prefix(is_private=%s, witness_type=%r, multisig=%s)" % (c['net'], c['priv'], c['wt'], c['multisig'])


def run_section(ck, thorough):
    ck.model(common.model_check('MC_Networks', 'MC_Networks.cfg', expect_actions=['AskByValue', 'AskSearch', 'AskWifPrefix'],
                                extra=['-nowarning'], workers=4))
    obs = common.pmap(observe, [0])[0]
    calls = obs['calls']
    chunk = 400
    recs = [{'table': obs['table'], 'first': i == 0, 'calls': [{k: v for k, v in c.items() if k not in ('arg', 'err')} for c in calls[i:i + chunk]]}
            for i in range(0, len(calls), chunk)]
    out = common.tlc_eval('NetworksEval', recs)
    d = out[0]['diff']
    for nm in d['missing']:
        ck.beyond('network table: a network of the pinned table is gone', nm)
    for nm in d['added']:
        ck.beyond('network table: a network the pinned table does not have', nm)
    if d['order']:
        ck.beyond('network table: definition order differs from the pinned table (ties between equal priorities are broken by it)',
                  [r['name'] for r in obs['table']])
    for nm, f in d['changed']:
        ck.beyond('network table: a value differs from the pinned table (NetworksData!Pinned)', '%s.%s' % (nm, f))
    for what, nm in out[0]['structure']:
        ck.beyond('network table: structural statement of Networks.tla broken: %s' % what, nm)
    flat = [v for o in out for v in o['calls']]
    if len(flat) != len(calls):
        raise common.MachineryError('NetworksEval answered %d of %d lookups' % (len(flat), len(calls)))
    bad = 0
    for c, v in zip(calls, flat):
        if v['v'] != 'ok':
            bad += 1
            ck.beyond('network lookups (Networks.tla): clause %s' % v['v'],
                      '%s answered %s; the specification computes %s from the same table' % (
                          _desc(c), c.get('err') if c['raised'] else c['got'], v['exp']))
    ck.notes['networks_spec'] = {'lookups_judged': len(calls), 'disagreements': bad,
                                 'by_kind': {k: sum(1 for c in calls if c['op'] == k) for k in ('by_value', 'search', 'wif_prefix')},
                                 'table_rows': len(obs['table']),
                                 'table_differs_from_pinned': bool(d['missing'] or d['added'] or d['changed'] or d['order'])}
