"""./check --selftest : demonstration that the specifications are bound to what the implementation does.

For each trace-validating specification a handful of traces is recorded from the real library, judged by TLC (must be
accepted), then one recorded field is corrupted or one event removed and the trace is judged again (must be rejected, with
the expected clause).  Nothing here touches /repo; exit 0 = every corruption was rejected, 2 = the machinery is not
binding (a corrupted trace was accepted, or an honest one rejected)."""
import copy
import sys

from harness import common


def _wallet():
    from harness import walletdrv
    jobs = [(990000 + i, walletdrv.WALLET_KINDS[i % len(walletdrv.WALLET_KINDS)], 8 + i % 4) for i in range(8)]
    traces = common.pmap(walletdrv.wallet_history, jobs)
    honest = common.tlc_eval('WalletLedgerEval', [{'events': t['events']} for t in traces])
    out = [('wallet history accepted as recorded', all(not v['issues'] for v in honest), '')]
    # corrupt one observed balance; drop one utxo_add event
    bad1, bad2 = [], []
    for t in traces:
        ev = copy.deepcopy(t['events'])
        k = next((i for i, e in enumerate(ev) if e['fresh']['balance'] > 0), None)
        if k is not None:
            ev[k]['fresh']['balance'] += 1
            bad1.append({'events': ev})
        ev = copy.deepcopy(t['events'])
        k = next((i for i, e in enumerate(ev) if e['op'] == 'utxo_add'), None)
        if k is not None:
            del ev[k]
            bad2.append({'events': ev})
    v1 = common.tlc_eval('WalletLedgerEval', bad1)
    v2 = common.tlc_eval('WalletLedgerEval', bad2)
    out.append(('reported balance off by one smallest unit -> rejected (%d traces)' % len(bad1),
                bool(bad1) and all(any('balance' in i['why'] for i in v['issues']) for v in v1), ''))
    out.append(('one utxo_add event removed -> rejected (%d traces)' % len(bad2), bool(bad2) and all(v['issues'] for v in v2), ''))
    # a created transaction whose change output is one unit too large
    bad3 = []
    for t in traces:
        ev = copy.deepcopy(t['events'])
        k = next((i for i, e in enumerate(ev) if e['op'] == 'tx' and e['created'] and e['x']['outs']), None)
        if k is not None:
            ev[k]['x']['outs'][0][0] += 1
            bad3.append({'events': ev})
    v3 = common.tlc_eval('WalletLedgerEval', bad3)
    out.append(('an output of a created transaction one unit larger -> rejected (%d traces)' % len(bad3),
                bool(bad3) and all(any(i['kind'] == 'rejected' for i in v['issues']) for v in v3), ''))
    return out


def _cache():
    from harness import c20
    jobs = [(991000 + i, c20.NETWORKS[i % 2], 10) for i in range(12)]
    traces = common.pmap(c20.cache_history, jobs, chunksize=4)
    honest = common.tlc_eval('ServiceCacheEval', [{'events': t['events']} for t in traces], cfg='ServiceCacheEval.cfg')
    out = [('cache history accepted as recorded', all(v['v'] == 'ok' for v in honest), '')]
    bad1, bad2 = [], []
    for t in traces:
        ev = copy.deepcopy(t['events'])
        k = next((i for i, e in enumerate(ev) if e['op'] in ('tx', 'raw') and e['ok']), None)
        if k is not None:
            ev[k]['ret'] = ['t', 9]                      # somebody else's transaction
            bad1.append({'events': ev})
        ev = copy.deepcopy(t['events'])
        k = next((i for i, e in enumerate(ev) if e['prov'] == 'ok' and e['ok'] and e['op'] != 'count'), None)
        if k is not None:
            ev[k]['prov'] = 'fail'                      # the answer now comes from nowhere
            bad2.append({'events': ev[:k + 1]})
    v1 = common.tlc_eval('ServiceCacheEval', bad1, cfg='ServiceCacheEval.cfg')
    v2 = common.tlc_eval('ServiceCacheEval', bad2, cfg='ServiceCacheEval.cfg')
    out.append(('returned transaction replaced by another one -> rejected (%d traces)' % len(bad1),
                bool(bad1) and all(v['v'] == 'rejected' for v in v1), ''))
    out.append(('an answer with the provider marked as failing and nothing cached -> rejected or named deviation (%d traces)' % len(bad2),
                bool(bad2) and all(v['v'] == 'rejected' or v['devs'] for v in v2) and any(v['v'] == 'rejected' for v in v2), ''))
    return out


def _signing():
    from harness import c02, locktime
    import random
    rng = random.Random(5)
    cfg = c02.CFGS[3]
    seqs = c02.gen_sequences(rng, cfg, 12)
    recs = common.pmap(c02.run_sequences, [(77, cfg, seqs, 'bitcoin')])[0]
    recs = [r for r in recs if not r['error']]
    mk = lambda r: {'cfg': r['cfg'], 'steps': [{'a': s['a'], 'lib': s['lib']} for s in r['steps']]}
    honest = common.tlc_eval('SigningEval', [mk(r) for r in recs])
    out = [('signing traces accepted as recorded', all(v['v'] == 'ok' for v in honest), '')]
    bad = []
    for r in recs:
        m = mk(r)
        m['steps'][-1]['lib'] = not m['steps'][-1]['lib']
        bad.append(m)
    v = common.tlc_eval('SigningEval', bad)
    out.append(('last verify() verdict flipped -> rejected (%d traces; verdicts the specification leaves open excepted)' % len(bad),
                sum(1 for x in v if x['v'] != 'ok') >= len(bad) // 2, ''))
    # lock-time setters
    lrecs = common.pmap(locktime.run_sequences, [(5, locktime.CFGS[1], [[('rel_blocks', 0, 144, 0), ('abs_blocks', 0, 500, 0)],
                                                                         [('rel_time', 0, 5000, 0)]], 'bitcoin', 1)])[0]
    keys = ('op', 'i', 'a', 'l', 'raised', 'raw', 'verified', 'reverified', 'valid')
    mk2 = lambda r: {'raw0': r['raw0'], 'steps': [{k: s[k] for k in keys} for s in r['steps']]}
    hv = common.tlc_eval('LockTimeEval', [mk2(r) for r in lrecs])
    out.append(('lock-time setter traces accepted as recorded', all(s['v'] == 'ok' and s['b'] == '' for x in hv for s in x['steps']), ''))
    bad = []
    for r in lrecs:
        m = mk2(copy.deepcopy(r))
        raw = m['steps'][0]['raw']
        raw[-1] = (raw[-1] + 1) % 256                  # the locktime field of the serialization after the first call
        bad.append(m)
    bv = common.tlc_eval('LockTimeEval', bad)
    out.append(('locktime byte of a recorded serialization changed -> state rejected', all(x['steps'][0]['b'] != '' for x in bv), ''))
    bad = []
    for r in lrecs:
        m = mk2(copy.deepcopy(r))
        m['steps'][0]['verified'] = False
        bad.append(m)
    bv = common.tlc_eval('LockTimeEval', bad)
    out.append(('verify() after a setter recorded as False -> rejected', all(x['steps'][0]['v'] != 'ok' for x in bv), ''))
    return out


def _networks():
    from harness import networks
    obs = common.pmap(networks.observe, [0])[0]
    calls = [{k: v for k, v in c.items() if k not in ('arg', 'err')} for c in obs['calls']]
    pick = {}
    for c in calls:
        if not c['raised'] and c['got'] and c['op'] not in pick:
            pick[c['op']] = c
    honest = common.tlc_eval('NetworksEval', [{'table': obs['table'], 'first': True, 'calls': list(pick.values())}])[0]
    out = [('network lookups accepted as recorded', all(v['v'] == 'ok' for v in honest['calls']) and not honest['diff']['changed'], '')]
    bad = copy.deepcopy(list(pick.values()))
    for c in bad:
        if c['op'] == 'wif_prefix':
            c['got'] = c['got'][:-1] + ('0' if c['got'][-1] != '0' else '1')
        else:
            c['got'] = c['got'][1:] if len(c['got']) > 1 else c['got'] + c['got']
    table = copy.deepcopy(obs['table'])
    table[1]['prefix_wif'] = '81'
    v = common.tlc_eval('NetworksEval', [{'table': obs['table'], 'first': True, 'calls': bad}])[0]
    out.append(('one entry dropped from / doubled in a recorded lookup answer, one version digit changed -> each rejected',
                all(x['v'] != 'ok' for x in v['calls']), ''))
    v = common.tlc_eval('NetworksEval', [{'table': table, 'first': True, 'calls': []}])[0]
    out.append(('secret-key version byte of one network changed in the table -> difference from the pinned table reported',
                [list(x) for x in v['diff']['changed']] == [[table[1]['name'], 'prefix_wif']], ''))
    return out


def _timed():
    from harness import timedcache
    traces = common.pmap(timedcache.timed_history, [(993000 + i, 18) for i in range(12)], chunksize=4)
    honest = common.tlc_eval('TimedCacheEval', [{'events': t['events']} for t in traces], cfg='TimedCacheEval.cfg')
    # (the current tree has known oddities of its own here - see DESIGN 0.5 -: only histories accepted as recorded are used)
    good = [t for t, v in zip(traces, honest) if not v['issues']]
    out = [('timed-cache histories accepted as recorded (%d of %d)' % (len(good), len(traces)), len(good) >= 4, '')]
    bad = []
    for t in good:
        ev = copy.deepcopy(t['events'])
        k = next((i for i, e in enumerate(ev) if e['ok'] and not e['asked'] and e['x'] == 'blockcount'), None)
        if k is not None:
            ev[k]['dt'] += 61           # the same answer, served from the cache, but a minute later than recorded
            bad.append({'events': ev[:k + 1]})
    v = common.tlc_eval('TimedCacheEval', bad, cfg='TimedCacheEval.cfg')
    out.append(('a cached block count served 61 s later than recorded -> rejected (%d histories)' % len(bad),
                bool(bad) and all(any('time-to-live' in i['why'] for i in x['issues']) for x in v), ''))
    return out


def run():
    common.fresh_bitcoinlib_env()
    results = []
    for part in (_wallet, _cache, _signing, _networks, _timed):
        results += part()
    bad = 0
    for text, ok, _ in results:
        print('%s  %s' % ('ok  ' if ok else 'FAIL', text))
        bad += not ok
    print('selftest: %d demonstrations, %d failed' % (len(results), bad))
    return 2 if bad else 0


if __name__ == '__main__':
    sys.exit(run())
