"""C03 helper: interpretation of the primitives Bip32.tla leaves uninterpreted, and the question/answer loop with TLC.

This module knows NOTHING about BIP32: it applies a named reference primitive (harness/ref.py: hashlib and a pure-Python
secp256k1 - nothing bitcoinlib uses) to the byte strings TLC built and hands the value back as an oracle fact.  Which
primitive is applied to what, in which order, and what the result means is decided by the specification.
"""
from harness import common, ref

N = ref.N


def _pt(pt):
    return [] if pt is None else list(pt[0].to_bytes(32, 'big') + pt[1].to_bytes(32, 'big'))


def _unpt(a):
    """x || y -> point; [] -> infinity."""
    if not a:
        return ref.INF
    b = bytes(a)
    if len(b) != 64:
        raise common.MachineryError('specification handed a malformed point to the oracle')
    pt = (int.from_bytes(b[:32], 'big'), int.from_bytes(b[32:], 'big'))
    if not ref.on_curve(pt):
        raise common.MachineryError('specification handed a point not on the curve to the oracle')
    return pt


def apply_prim(f, a):
    """Value of primitive f on arguments a (list of lists of naturals)."""
    if f == 'hmac512':
        return list(ref.hmac512(bytes(a[0]), bytes(a[1])))
    if f == 'sha256d':
        return list(ref.sha256d(bytes(a[0])))
    if f == 'hash160':
        return list(ref.hash160(bytes(a[0])))
    if f == 'ec_mul_g':
        k = int.from_bytes(bytes(a[0]), 'big') % N
        return _pt(ref.ec_mul(k)) if k else []
    if f == 'ec_mul_g_add':
        k = int.from_bytes(bytes(a[0]), 'big') % N
        return _pt(ref.ec_add(ref.ec_mul(k) if k else ref.INF, _unpt(a[1])))
    if f == 'ec_point':
        return _pt(ref.parse_point(bytes(a[0])))
    raise common.MachineryError('specification asked for unknown primitive %r' % f)


def _key(q):
    return q['f'], tuple(tuple(x) for x in q['a'])


class Oracle:
    """Runs records through spec/<module>: TLC either gives a verdict or asks for primitive applications ("need")."""

    def __init__(self, module='Bip32Eval', cfg='Bip32Eval.cfg', max_rounds=60):
        self.module = module
        self.cfg = cfg
        self.max_rounds = max_rounds
        self.cache = {}
        self.rounds = 0
        self.applications = {}
        self.tlc_runs = 0

    def _answer(self, qs):
        todo = {}
        for q in qs:
            k = _key(q)
            if k not in self.cache and k not in todo:
                todo[k] = q
        if not todo:
            return
        items = list(todo.items())
        slow = [(k, q) for k, q in items if q['f'].startswith('ec_')]
        fast = [(k, q) for k, q in items if not q['f'].startswith('ec_')]
        vals = {k: apply_prim(q['f'], q['a']) for k, q in fast}
        if len(slow) > 64:      # pure-Python curve arithmetic: spread over processes
            import multiprocessing as mp
            with mp.get_context('fork').Pool(min(8, common.NCPU)) as pool:
                res = pool.starmap(apply_prim, [(q['f'], q['a']) for _, q in slow], chunksize=16)
            vals.update({k: v for (k, _), v in zip(slow, res)})
        else:
            vals.update({k: apply_prim(q['f'], q['a']) for k, q in slow})
        for k, q in items:
            self.cache[k] = vals[k]
            self.applications[q['f']] = self.applications.get(q['f'], 0) + 1

    def judge(self, recs):
        """Verdict for every record (dict without 'facts'). Returns the list of verdict dicts."""
        recs = list(recs)
        facts = [[] for _ in recs]
        verdicts = [None] * len(recs)
        pending = list(range(len(recs)))
        rounds = 0
        while pending:
            rounds += 1
            if rounds > self.max_rounds:
                raise common.MachineryError('oracle loop of %s did not converge in %d rounds' % (self.module, self.max_rounds))
            batch = [dict(recs[i], facts=facts[i]) for i in pending]
            procs = max(1, min(common.NCPU, (len(batch) + 119) // 120))
            import time as _t
            t0 = _t.time()
            out = common.tlc_eval(self.module, batch, cfg=self.cfg, procs=procs)
            t1 = _t.time()
            self.tlc_runs += 1
            nxt = []
            asked = []
            for i, o in zip(pending, out):
                if o['v'] == 'need':
                    if not o['need']:
                        raise common.MachineryError('specification asked for nothing')
                    asked.append((i, o['need']))
                    nxt.append(i)
                else:
                    verdicts[i] = o
            self._answer([q for _, qs in asked for q in qs])
            if common.os.environ.get('VERIF_DEBUG'):
                print('DEBUG oracle round %d: %d records, tlc %.1fs, primitives %.1fs' % (rounds, len(batch), t1 - t0, _t.time() - t1))
            for i, qs in asked:
                have = set(_key(x) for x in facts[i])
                new = set()
                for q in qs:
                    k = _key(q)
                    if k in have:       # a fact it was already given: the binding of the oracle table is broken
                        raise common.MachineryError('specification asked twice for %r' % (q,))
                    if k in new:        # two sub-computations need the same application
                        continue
                    new.add(k)
                    facts[i].append({'f': q['f'], 'a': q['a'], 'o': self.cache[k]})
            pending = nxt
        self.rounds = max(self.rounds, rounds)
        return verdicts
