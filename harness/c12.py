"""C12 - every key export format imports back to the same key and metadata, against spec/KeyFormats.tla.

(M) MC_KeyFormats: every configuration x private/public x secret class x format x hint set is exported and read back by
    a reference importer that sees only the representation and the hints; invariants = design statements of C12.
(G) KeyFormatsEval `gen` / `str`: TLC exports abstract keys in every format (Base58Check payloads get their four check
    bytes from harness/ref.py); the representations are imported by bitcoinlib through every entry point and hint set.
(V) KeyFormatsEval `judge`: TLC judges the implementation's own export, get_key_format's detection and every import
    observation; disagreements are attributed only where the spec reproduces them under a named deviation.
"""
import itertools
import os
import sys
import time

from harness import common, ref
from harness.common import Check, tier

PID = 'C12'
PW = 'c12 pass'

FAMILIES = [('btc', ['bitcoin', 'regtest']), ('tbtc', ['testnet', 'testnet4', 'signet']),
            ('ltc', ['litecoin', 'litecoin_legacy']), ('tltc', ['litecoin_testnet']), ('doge', ['dogecoin']),
            ('tdoge', ['dogecoin_testnet']), ('blt', ['bitcoinlib_test'])]
FAMILY_OF = {n: f for f, ns in FAMILIES for n in ns}
NETS = [n for _, ns in FAMILIES for n in ns]
WTS = ['legacy', 'p2sh-segwit', 'segwit']
PRIV_FMTS = ['hex', 'hex01', 'bytes', 'bytes01', 'int', 'dec', 'wif', 'xprv', 'bip38']
PUB_FMTS = ['pubhex', 'pubbytes', 'point', 'xpub']
CONV_FMTS = ['pubhex_c', 'pubhex_u', 'pubbytes_c', 'pubbytes_u']       # importable: both encodings of every public key
VIEW_FMTS = ['px', 'py', 'd_pubhex', 'd_pubhex_u', 'd_px', 'd_py', 'addr_u']   # views of the point, not importable
HINT_NAMES = ['net', 'priv', 'comp', 'wt', 'ms']
SECRET_CLASSES = ['rand', 'lz1', 'lz2', 'lz3', 'lead02', 'lead03', 'tail01', 'lead02tail01', 'big78', 'rand2']
# 'pubtail01': the x coordinate of the public key ends in 01 (a compressed public key shaped like secret+01); ground
# with the reference curve arithmetic, used for a few extra keys only
INDEXES = [0, 1, 255, 256, 2 ** 31 - 1, 2 ** 31, 2 ** 31 + 5, 2 ** 32 - 1]
DEPTHS = [0, 1, 5, 255]


def defined(net, wt):
    return wt == 'legacy' or FAMILY_OF[net] not in ('doge', 'tdoge')


# ------------------------------------------------------------------------------------------------------------------
# abstract keys (input generator; the point is the oracle fact computed with harness/ref.py)
# ------------------------------------------------------------------------------------------------------------------

def make_secret(rng, klass):
    while True:
        b = bytearray(rng.getrandbits(8) for _ in range(32))
        if klass in ('lz1', 'lz2', 'lz3'):
            n = int(klass[2])
            b[:n] = bytes(n)
            if b[n] == 0:
                b[n] = 1 + rng.randrange(255)
        elif klass in ('lead02', 'lead02tail01'):
            b[0] = 2
        elif klass == 'lead03':
            b[0] = 3
        elif klass == 'big78':
            b[0] = 0xE0 + rng.randrange(31)
        elif klass in ('rand', 'rand2'):
            b[0] = 5 + rng.randrange(200)
        if klass in ('tail01', 'lead02tail01'):
            b[31] = 1
        v = int.from_bytes(b, 'big')
        if 0 < v < ref.N:
            return bytes(b)


def make_key(rng, net, wt, ms, priv, comp, hd, sclass, idx_i, depth_i):
    if sclass == 'pubtail01':
        v = rng.randrange(2 ** 200, ref.N - 2 ** 20)
        pt = ref.ec_mul(v)
        while pt[0] % 256 != 1:
            v += 1
            pt = ref.ec_add(pt, ref.G)
        secret = v.to_bytes(32, 'big')
    else:
        secret = make_secret(rng, sclass)
        pt = ref.ec_mul(int.from_bytes(secret, 'big'))
    chain = bytes(rng.getrandbits(8) for _ in range(32))
    fp = bytes(rng.getrandbits(8) for _ in range(4))
    if rng.random() < 0.3:
        chain = b'\0' + chain[1:]
        fp = b'\0' + fp[1:]
    k = {'priv': priv, 'secret': list(secret) if priv else [], 'x': list(pt[0].to_bytes(32, 'big')),
         'y': list(pt[1].to_bytes(32, 'big')), 'compressed': comp, 'network': net, 'wt': wt, 'ms': ms, 'hd': hd,
         'depth': DEPTHS[depth_i % len(DEPTHS)] if hd else 0,
         'index': list((INDEXES[idx_i % len(INDEXES)] if hd else 0).to_bytes(4, 'big')),
         'fp': list(fp) if hd else [0] * 4, 'chain': list(chain) if hd else [0] * 32,
         'sclass': sclass}
    return k


def spec_key(k):
    return {f: k[f] for f in ('priv', 'secret', 'x', 'y', 'compressed', 'network', 'wt', 'ms', 'hd', 'depth', 'index',
                              'fp', 'chain')}


def fmts_of(k, with_bip38, conversions=False):
    fs = []
    if k['priv']:
        for f in PRIV_FMTS:
            if f in ('hex01', 'bytes01') and not k['compressed']:
                continue
            if f == 'xprv' and not k['hd']:
                continue
            if f == 'bip38' and not with_bip38:
                continue
            fs.append(f)
    for f in PUB_FMTS:
        if f == 'xpub' and not k['hd']:
            continue
        fs.append(f)
    if conversions:
        for f in CONV_FMTS + VIEW_FMTS:
            # the dictionary view includes the key's address: an uncompressed key of a segwit type has none
            if f.startswith('d_') and not (k['compressed'] or not k['hd'] or k['wt'] == 'legacy'):
                continue
            fs.append(f)
    return fs


# ------------------------------------------------------------------------------------------------------------------
# transport between the spec's representations [t, v, w] and Python values
# ------------------------------------------------------------------------------------------------------------------

def to_py(r):
    t = r['t']
    if t == 'str':
        return ''.join(chr(c) for c in r['v'])
    if t == 'bytes':
        return bytes(r['v'])
    if t == 'int':
        return int.from_bytes(bytes(r['v']), 'big')
    if t == 'point':
        return int.from_bytes(bytes(r['v']), 'big'), int.from_bytes(bytes(r['w']), 'big')
    raise ValueError(t)


def from_py(v):
    if isinstance(v, bool):
        return {'ok': False, 't': 'bool', 'v': [], 'w': []}
    if isinstance(v, str):
        if all(ord(c) < 2 ** 31 for c in v):
            return {'ok': True, 't': 'str', 'v': [ord(c) for c in v], 'w': []}
    elif isinstance(v, (bytes, bytearray)):
        return {'ok': True, 't': 'bytes', 'v': list(v), 'w': []}
    elif isinstance(v, int) and v >= 0:
        return {'ok': True, 't': 'int', 'v': list(v.to_bytes((v.bit_length() + 7) // 8, 'big')), 'w': []}
    elif isinstance(v, tuple) and len(v) == 2 and all(isinstance(c, int) and 0 <= c < 2 ** 256 for c in v):
        return {'ok': True, 't': 'point', 'v': list(v[0].to_bytes(32, 'big')), 'w': list(v[1].to_bytes(32, 'big'))}
    return {'ok': False, 't': type(v).__name__, 'v': [], 'w': []}


NORES = {'ok': False, 'priv': False, 'sec': b'', 'sec2': b'', 'sec3': b'', 'x': b'', 'y': b'', 'pub': b'', 'comp': False,
         'net': '', 'hd': False, 'wt': '', 'ms': False, 'depth': 0, 'index': b'', 'fp': b'', 'chain': b'', 'rewif': b''}


def _b32(v):
    try:
        return int(v).to_bytes(32, 'big')
    except Exception:
        return b''


def observe(o, fmt):
    """Project an imported key object onto the result record (attribute reads only; a failing read gives an empty value)."""
    from bitcoinlib.keys import HDKey
    r = dict(NORES)
    r['ok'] = True
    r['priv'] = bool(o.is_private)
    if o.is_private:
        r['sec'] = bytes(o.private_byte) if isinstance(o.private_byte, (bytes, bytearray)) else b''
        try:
            r['sec2'] = bytes.fromhex(o.private_hex)
        except Exception:
            r['sec2'] = b''
        r['sec3'] = _b32(o.secret) if isinstance(o.secret, int) else b''
    try:
        r['x'] = _b32(o.x)
    except Exception:
        pass
    try:
        r['y'] = _b32(o.y)
    except Exception:
        pass
    r['pub'] = bytes(o.public_byte) if isinstance(o.public_byte, (bytes, bytearray)) else b''
    r['comp'] = bool(o.compressed)
    r['net'] = str(o.network.name)
    if isinstance(o, HDKey):
        r['hd'] = True
        r['wt'] = str(o.witness_type)
        r['ms'] = bool(o.multisig)
        r['depth'] = o.depth if isinstance(o.depth, int) and 0 <= o.depth < 2 ** 31 else -1
        try:
            r['index'] = int(o.child_index).to_bytes(4, 'big')
        except Exception:
            pass
        r['fp'] = bytes(o.parent_fingerprint) if isinstance(o.parent_fingerprint, (bytes, bytearray)) else b''
        r['chain'] = bytes(o.chain) if isinstance(o.chain, (bytes, bytearray)) else b''
        if fmt in ('xprv', 'xpub'):
            try:
                s = o.wif_private() if fmt == 'xprv' else o.wif_public()
                r['rewif'] = bytes(s, 'latin-1')
            except Exception:
                r['rewif'] = b'?'
    return r


def construct(k):
    from bitcoinlib.keys import Key, HDKey
    x = bytes(k['x'])
    y = bytes(k['y'])
    pub = (bytes([2 + y[31] % 2]) + x) if k['compressed'] else b'\4' + x + y
    material = bytes(k['secret']) if k['priv'] else pub
    if k['hd']:
        return HDKey(key=material, chain=bytes(k['chain']), depth=k['depth'], parent_fingerprint=bytes(k['fp']),
                     child_index=int.from_bytes(bytes(k['index']), 'big'), is_private=k['priv'], network=k['network'],
                     witness_type=k['wt'], multisig=k['ms'], compressed=k['compressed'])
    return Key(material, network=k['network'], compressed=k['compressed'], is_private=k['priv'])


def export(o, k, fmt):
    if fmt == 'hex':
        return o.private_hex
    if fmt == 'hex01':
        return o.private_hex + '01'
    if fmt == 'bytes':
        return o.private_byte
    if fmt == 'bytes01':
        return o.private_byte + b'\1'
    if fmt == 'int':
        return o.secret
    if fmt == 'dec':
        return str(o.secret)
    if fmt == 'wif':
        return o.wif_key() if k['hd'] else o.wif()
    if fmt == 'xprv':
        return o.wif_private()
    if fmt == 'xpub':
        return o.wif_public()
    if fmt == 'pubhex':
        return o.public_hex
    if fmt == 'pubbytes':
        return o.public_byte
    if fmt == 'point':
        return o.public_point()
    if fmt == 'bip38':
        return o.encrypt(PW)
    if fmt == 'pubhex_c':
        return o.public_compressed_hex
    if fmt == 'pubhex_u':
        return o.public_uncompressed_hex
    if fmt == 'pubbytes_c':
        return o.public_compressed_byte
    if fmt == 'pubbytes_u':
        return o.public_uncompressed_byte
    if fmt == 'px':
        return o.x
    if fmt == 'py':
        return o.y
    if fmt == 'addr_u':
        return o.address_uncompressed(script_type='p2pkh', encoding='base58')
    if fmt.startswith('d_'):
        return o.as_dict()[{'d_pubhex': 'public_hex', 'd_pubhex_u': 'public_uncompressed_hex', 'd_px': 'point_x',
                            'd_py': 'point_y'}[fmt]]
    raise ValueError(fmt)


def apply_op(o, op, k0=None, fmt=None):
    """One earlier call on the same object (transport of the spec's op record; a call that raises simply failed)."""
    from bitcoinlib.networks import Network
    try:
        name = op['op']
        if name == 'export':
            export(o, k0, fmt)
        elif name == 'network_change':
            if hasattr(o, 'network_change'):
                o.network_change(op['n'])
            else:                       # a plain Key has no method for it: the public attribute is assigned
                o.network = Network(op['n'])
        elif name in OBSERVERS:
            getattr(o, name)()
    except Exception:
        pass


OBSERVERS = ['wif', 'wif_key', 'wif_private', 'wif_public', 'address', 'public', 'as_dict']
TEMPLATES = ['on', 'n', 'ono', 'no', 'oo', 'nn', 'onn', 'oon']


def make_history(k, i, targets):
    """Calls made on the object before the export: template i (o = observer, n = network_change).  The first observer
    of a history is the export under test itself ('export': call it, change things, call it again), further observers
    and the target networks rotate."""
    obs = [o for o in OBSERVERS if (k['hd'] or o in ('wif', 'address', 'public', 'as_dict'))
           and (k['priv'] or o not in ('wif_key', 'wif_private') and (k['hd'] or o != 'wif'))]
    hist = []
    first = True
    for j, c in enumerate(TEMPLATES[i % len(TEMPLATES)]):
        if c == 'o':
            hist.append({'op': 'export' if first else obs[(i // len(TEMPLATES) + 3 * j) % len(obs)], 'n': ''})
            first = False
        else:
            hist.append({'op': 'network_change', 'n': targets[(i // len(TEMPLATES) + i + 5 * j) % len(targets)]})
    return hist


FAMILY_NAME = {'wif': 'wif', 'wif_compressed': 'wif', 'hdkey_private': 'xprv', 'hdkey_public': 'xpub',
               'wif_protected': 'bip38'}


def detect(value):
    from bitcoinlib.keys import get_key_format
    d = {'ok': False, 'family': 'other', 'priv': 'N', 'nets': [], 'wts': [], 'mss': []}
    try:
        kf = get_key_format(value)
    except Exception:
        return d
    d['ok'] = True
    d['family'] = FAMILY_NAME.get(kf.get('format'), 'other')
    d['priv'] = 'T' if kf.get('is_private') is True else 'F' if kf.get('is_private') is False else 'N'
    d['nets'] = [str(n) for n in (kf.get('networks') or [])]
    d['wts'] = [str(w) for w in (kf.get('witness_types') or [])]
    d['mss'] = [bool(m) for m in (kf.get('multisig') or [])]
    return d


def hint_sets(ep, fmt, thorough, rng, lite=False):
    """Hint subsets tried at an entry point (names of the hints that are supplied)."""
    if ep == 'key':
        names = ['net', 'priv', 'comp']
    elif ep == 'keyfw':
        names = ['net']
    elif ep == 'hdfw':
        names = ['net', 'comp', 'ms']
    else:
        names = HINT_NAMES
    subs = [frozenset(c) for n in range(len(names) + 1) for c in itertools.combinations(names, n)]
    if lite:
        return [frozenset(), frozenset(names)]
    if ep == 'hd' and not thorough:
        core = [s for s in subs if len(s) in (0, 1, 4, 5)]
        rest = [s for s in subs if len(s) in (2, 3)]
        subs = core + rng.sample(rest, 2)
    if fmt == 'bip38':     # every BIP38 import costs one scrypt evaluation
        subs = [frozenset(), frozenset(names), frozenset(['net', 'wt']) & frozenset(names)]
        if thorough:
            subs += [frozenset(['net']), frozenset(names) - {'net'}, frozenset(names) - {'wt'}]
        subs = list(dict.fromkeys(subs))
    return subs


def import_call(ep, value, k, fmt, hs):
    from bitcoinlib.keys import Key, HDKey
    kw = {}
    private = fmt in PRIV_FMTS
    if 'net' in hs:
        kw['network'] = k['network']
    if ep == 'keyfw':
        return Key.from_wif(value, **kw)
    if 'comp' in hs:
        kw['compressed'] = k['compressed']
    if ep == 'hdfw':
        if 'ms' in hs:
            kw['multisig'] = k['ms']
        return HDKey.from_wif(value, **kw)
    if 'priv' in hs:
        kw['is_private'] = private
    if fmt == 'bip38':
        kw['password'] = PW
    if ep == 'key':
        return Key(value, **kw)
    if 'wt' in hs:
        kw['witness_type'] = k['wt']
    if 'ms' in hs:
        kw['multisig'] = k['ms']
    return HDKey(value, **kw)


def entry_points(k, fmt):
    if fmt in ('xprv', 'xpub'):
        return ['hd', 'hdfw']
    if fmt == 'wif':
        return ['key', 'keyfw', 'hd']
    if fmt in VIEW_FMTS:
        return []
    return ['key', 'hd']


def drive(job):
    """Worker: construct the key in bitcoinlib, export it in every format, run detection and all imports on the
    representations generated by the specification.  Returns one judge record per format (without the key's TLC part)."""
    import random
    k = job['key']            # the abstract key the exports are judged against: After(key0, hist)
    hist = job['hist']
    rng = random.Random(job['seed'])
    thorough = job['thorough']
    out = []
    route = job.get('route') or NOROUTE

    def fresh(fmt):
        """A new object of the key, made by the route, with the history replayed on it ('export' = the export of fmt itself)."""
        try:
            if route['r'] == 'import':
                names = {'key': ['net', 'priv', 'comp'], 'keyfw': ['net'], 'hdfw': ['net', 'comp', 'ms']}.get(route['ep'], HINT_NAMES)
                obj = import_call(route['ep'], to_py(job['rin']), job['key0'], route['fmt'], frozenset(names))
            elif route['r'] == 'public':
                obj = construct(job['key0']).public()
            elif route['r'] == 'child':
                obj = derive_child(route)
            else:
                obj = construct(job['key0'])
            for op in hist:
                apply_op(obj, op, job['key0'], fmt)
            return obj
        except Exception:
            return None

    # the object's state is observed on an object of its own: reading attributes must not prepare the exports
    o = fresh(job['items'][0]['fmt'] if job['items'] else None)
    try:
        ctor = observe(o, 'ctor') if o is not None else dict(NORES)
    except Exception:
        ctor = dict(NORES)
    for n_item, item in enumerate(job['items']):
        fmt = item['fmt']
        o = fresh(fmt)
        pool = [b'']
        index = {b'': 1}

        def intern(b):
            b = bytes(b)
            if b not in index:
                pool.append(b)
                index[b] = len(pool)
            return index[b]

        def pack(res):
            r = dict(res)
            for f in ('sec', 'sec2', 'sec3', 'x', 'y', 'pub', 'index', 'fp', 'chain', 'rewif'):
                r[f] = intern(r[f])
            return r
        # export by the implementation
        code = {'ok': False, 't': 'none', 'v': [], 'w': []}
        if o is not None:
            try:
                code = from_py(export(o, k, fmt))
            except Exception:
                pass
        spec = item['spec']
        if fmt == 'bip38':          # opaque for C12: the implementation's own string is imported back
            spec = {'t': code['t'], 'v': code['v'], 'w': code['w']} if code['ok'] else None
        groups = {}
        if fmt == item['first']:
            groups.setdefault(repr(sorted(pack(ctor).items())), [pack(ctor), []])[1].append(
                {'ep': 'ctor' if k['hd'] else 'ctork', 'h': {h: True for h in HINT_NAMES}})
        det = {'ok': False, 'family': 'other', 'priv': 'N', 'nets': [], 'wts': [], 'mss': []}
        ncalls = 0
        if spec is not None:
            value = to_py(spec)
            if fmt in ('wif', 'xprv', 'xpub', 'bip38'):
                det = detect(value)
            for ep in entry_points(k, fmt):
                for hs in hint_sets(ep, fmt, thorough, rng, lite=((bool(hist) or job.get('litehints')) and not thorough) or fmt in CONV_FMTS):
                    try:
                        res = observe(import_call(ep, value, k, fmt, hs), fmt)
                    except Exception:
                        res = dict(NORES)
                    p = pack(res)
                    groups.setdefault(repr(sorted(p.items())), [p, []])[1].append(
                        {'ep': ep, 'h': {h: (h in hs) for h in HINT_NAMES}})
                    ncalls += 1
        if 'h160u' in item:
            out.append({'h160u': item['h160u']})
        else:
            out.append({})
        out[-1].update({'k': 'judge', 'fmt': fmt, 'spec': spec or {'t': 'none', 'v': [], 'w': []}, 'code': code,
                    'devstr': item.get('devstr', []), 'det': det, 'pool': [list(b) for b in pool],
                    'groups': [{'res': g[0], 'calls': g[1]} for g in groups.values()], 'ncalls': ncalls})
    return out


NOROUTE = {'r': 'ctor', 'fmt': '', 'ep': ''}


def derive_child(route):
    parent = construct(route['parent'])
    if route['via'] == 'private_public':
        return parent.child_private(route['ci']).public()
    return parent.child_public(route['ci'])


def route_name(route):
    return 'import:' + route['fmt'] if route['r'] == 'import' else route['r']


# ------------------------------------------------------------------------------------------------------------------
# value classes (defined by the specification: ValueClasses / RequiredCover; the predicates below only steer the search
# for inputs - whether the run covers what the specification requires is answered by TLC, see `cover`)
# ------------------------------------------------------------------------------------------------------------------
POINT_TARGETS = [('y-zero-byte', lambda x, y: y >> 248 == 0), ('y-zero-nibble', lambda x, y: y >> 252 == 0 and y >> 248 != 0),
                 ('x-zero-byte', lambda x, y: x >> 248 == 0), ('x-zero-nibble', lambda x, y: x >> 252 == 0 and x >> 248 != 0),
                 ('plain', lambda x, y: x >> 252 != 0 and y >> 252 != 0)]


def grind_scalars(start, want_each=4, limit=40000):
    """Small scalars s = start, start+1, ... (reference curve arithmetic) whose points fall into the target classes;
    for every target the first `want_each` of each parity of y."""
    found = {(name, par): [] for name, _ in POINT_TARGETS for par in (0, 1)}
    pt = ref.ec_mul(start)
    s = start
    for _ in range(limit):
        for name, pred in POINT_TARGETS:
            if pred(pt[0], pt[1]) and len(found[(name, pt[1] & 1)]) < want_each:
                found[(name, pt[1] & 1)].append((s, pt))
        if all(len(v) >= want_each for v in found.values()):
            break
        s += 1
        pt = ref.ec_add(pt, ref.G)
    return found


def key_from_scalar(s, pt, net, wt, ms, priv, comp, hd, i):
    k = {'priv': priv, 'secret': list(s.to_bytes(32, 'big')) if priv else [], 'x': list(pt[0].to_bytes(32, 'big')),
         'y': list(pt[1].to_bytes(32, 'big')), 'compressed': comp, 'network': net, 'wt': wt, 'ms': ms, 'hd': hd,
         'depth': DEPTHS[i % len(DEPTHS)] if hd else 0, 'index': list((INDEXES[i % len(INDEXES)] if hd else 0).to_bytes(4, 'big')),
         'fp': [0, 7, i % 256, 9] if hd else [0] * 4, 'chain': [0] + [(i * 11 + j) % 256 for j in range(31)] if hd else [0] * 32,
         'sclass': 'small-scalar'}
    return k


def routed_cases(rng, thorough):
    """Public-only objects reached through every route x every point class (both parities of y spread over them)."""
    found = grind_scalars(1 + rng.randrange(100000), want_each=6 if thorough else 3)
    configs = [(n, w, m) for n in ('bitcoin', 'testnet', 'litecoin', 'litecoin_testnet', 'dogecoin', 'bitcoinlib_test', 'regtest')
               for w in WTS for m in (False, True) if defined(n, w)]
    cases = []
    routes = [('import', 'pubhex_c'), ('import', 'pubbytes_c'), ('import', 'pubhex_u'), ('import', 'pubbytes_u'),
              ('import', 'point'), ('import', 'xpub'), ('public', ''), ('child', '')]
    n = 0
    for ri, (r, rfmt) in enumerate(routes):
        for ti, (name, _) in enumerate(POINT_TARGETS):
            for rep in range(2 if thorough else 1):
                par = (ri + ti + rep) % 2
                s, pt = found[(name, par)][(ri + rep) % len(found[(name, par)])] if found[(name, par)] else \
                    found[(name, 1 - par)][0]
                net, wt, ms = configs[n % len(configs)]
                ep = 'hd' if (rfmt == 'xpub' or n % 2) else 'key'
                hd = rfmt == 'xpub' or (r == 'public' and n % 2 == 0) or (r == 'import' and n % 3 == 0)
                if r == 'child':
                    cases.append({'child_of': (net, wt, ms, n % 2 == 0, name, par, n)})
                else:
                    k = key_from_scalar(s, pt, net, wt, ms, r == 'public' or n % 4 == 1, True, hd, n)
                    if rfmt in ('pubhex_u', 'pubbytes_u') or (rfmt == 'point' and n % 2):
                        k['compressed'] = False
                        k['wt'] = 'legacy'      # an uncompressed key has no segwit address
                    cases.append({'key': k, 'route': {'r': r, 'fmt': rfmt, 'ep': ep if r == 'import' else ''}})
                n += 1
    return cases


TEXT_CLASSES = ['all-zero', 'digits', '0x-prefix', 'hex-digits', 'printable']


def text_bytes(rng, klass, n):
    """n bytes that read as text of the given class (input generator; the class of a field is decided by the
    specification's TextClass and the coverage by `cover`)."""
    hexd = '0123456789abcdefABCDEF'
    if klass == 'all-zero':
        return bytes(n)
    if klass == 'digits':
        return ''.join(rng.choice('0123456789') for _ in range(n)).encode()
    if klass == '0x-prefix':
        return ('0x' + ''.join(rng.choice(hexd) for _ in range(n - 2))).encode()
    if klass == 'hex-digits':
        body = [rng.choice(hexd) for _ in range(n)]
        body[rng.randrange(1, n)] = rng.choice('abcdef')
        body[0] = rng.choice('123456789ABCDEF')
        return ''.join(body).encode()
    body = [chr(rng.randrange(32, 127)) for _ in range(n)]
    body[rng.randrange(1, n)] = rng.choice('~!g z_')
    if body[0] == '0':
        body[0] = 'Q'
    return ''.join(body).encode()


def text_cases(rng, thorough):
    """HD keys whose fixed-width binary fields (parent fingerprint, chain code, child number, secret) read as text: a Latin
    square over the five classes (all twenty field x class pairs on five keys; thorough: one field at a time as well),
    each reached by the constructor, by importing its extended keys, its secret as bytes and its WIF."""
    configs = [(n, w, m) for n in ('bitcoin', 'testnet', 'litecoin', 'bitcoinlib_test', 'dogecoin') for w in WTS
               for m in (False, True) if defined(n, w)]
    shapes = [{f: TEXT_CLASSES[(j + d) % 5] for d, f in enumerate(('fp', 'chain', 'index', 'secret'))} for j in range(5)]
    if thorough:
        shapes += [{f: c} for f in ('fp', 'chain', 'index', 'secret') for c in TEXT_CLASSES]
    cases = []
    for j, shape in enumerate(shapes):
        net, wt, ms = configs[(j * 7 + rng.randrange(len(configs))) % len(configs)]
        k = make_key(rng, net, wt, ms, True, True, True, 'rand', j, j)
        sk = shape.get('secret')
        if sk and sk != 'all-zero':
            sec = text_bytes(rng, sk, 32)
            pt = ref.ec_mul(int.from_bytes(sec, 'big'))
            k.update({'secret': list(sec), 'x': list(pt[0].to_bytes(32, 'big')), 'y': list(pt[1].to_bytes(32, 'big'))})
        for f, n in (('fp', 4), ('chain', 32), ('index', 4)):
            if f in shape:
                k[f] = list(text_bytes(rng, shape[f], n))
        k['sclass'] = 'text:' + ','.join('%s=%s' % (f, c) for f, c in sorted(shape.items()))
        k['textcase'] = True
        for r, rfmt, ep in [('ctor', '', ''), ('import', 'xprv', 'hd'), ('import', 'xprv', 'hdfw'), ('import', 'xpub', 'hd'),
                            ('import', 'bytes', 'hd' if j % 2 else 'key'), ('import', 'wif', ('key', 'keyfw', 'hd')[j % 3])]:
            if ep == 'hdfw' and FAMILY_OF[net] in ('ltc', 'tltc') and wt != 'legacy':
                continue          # from_wif takes no witness type: the shared Mtpv / Mtub version does not decide it
            cases.append({'key': dict(k), 'route': {'r': r, 'fmt': rfmt, 'ep': ep}})
    return cases


def child_case(spec, rng):
    """A child of an extended key whose point falls into the wanted class: the child number is found with the
    implementation, the abstract key of the child is computed with the reference primitives (CKDpub of BIP32)."""
    net, wt, ms, parent_priv, name, par, n = spec
    pred = dict(POINT_TARGETS)[name]
    s = 1000 + rng.randrange(10 ** 6)
    parent = key_from_scalar(s, ref.ec_mul(s), net, wt, ms, parent_priv, True, True, n)
    parent['depth'] = min(parent['depth'], 254)
    po = construct(parent)
    base = rng.randrange(2 ** 20)
    ci = None
    for i in range(base, base + 20000):
        c = po.child_public(i)
        b = c.public_compressed_byte
        x = int.from_bytes(b[1:], 'big')
        y = ref.lift_x(x, b[0] & 1)
        if y is not None and pred(x, y[1]) and (y[1] & 1) == par:
            ci = i
            break
    if ci is None:
        return None
    ppt = (int.from_bytes(bytes(parent['x']), 'big'), int.from_bytes(bytes(parent['y']), 'big'))
    serp = ref.ser_point(ppt, True)
    I = ref.hmac512(bytes(parent['chain']), serp + ci.to_bytes(4, 'big'))
    cpt = ref.ec_add(ref.ec_mul(int.from_bytes(I[:32], 'big')), ppt)
    k = {'priv': False, 'secret': [], 'x': list(cpt[0].to_bytes(32, 'big')), 'y': list(cpt[1].to_bytes(32, 'big')),
         'compressed': True, 'network': net, 'wt': wt, 'ms': ms, 'hd': True, 'depth': parent['depth'] + 1,
         'index': list(ci.to_bytes(4, 'big')), 'fp': list(ref.hash160(serp)[:4]), 'chain': list(I[32:]), 'sclass': 'child'}
    if k['depth'] > 255:
        return None
    return {'key': k, 'route': {'r': 'child', 'fmt': '', 'ep': '', 'parent': parent, 'ci': ci,
                                'via': 'private_public' if parent_priv and n % 4 == 0 else 'child_public'}}


# ------------------------------------------------------------------------------------------------------------------

def sample_keys(rng, thorough):
    keys = []
    n = 0
    for net in NETS:
        for wt in WTS:
            if not defined(net, wt):
                continue
            for ms in (False, True):
                # HD keys: private compressed, private (un)compressed, public; classes rotate with the counter
                shapes = [(True, True, True), (True, n % 3 != 0, True), (False, n % 4 != 0, True)]
                if thorough:
                    shapes += [(True, True, True), (True, False, True), (False, True, True), (True, True, False)]
                if n % 3 == 0:
                    shapes.append((True, n % 2 == 0, False))          # plain key, private
                if n % 5 == 0:
                    shapes.append((False, n % 2 == 1, False))         # plain key, public
                for j, (priv, comp, hd) in enumerate(shapes):
                    sclass = SECRET_CLASSES[(n * 3 + j) % len(SECRET_CLASSES)]
                    keys.append(make_key(rng, net, wt, ms, priv, comp, hd, sclass, n + 3 * j, n // 2 + j))
                    # the formats that do not depend on the configuration are exercised on every third key only
                    keys[-1]['lite'] = not thorough and (n + j) % 3 != 0
                n += 1
    # every secret class as a compressed private key on the default network (hex01 / bytes01 / dec are network-free)
    for i, sclass in enumerate(SECRET_CLASSES):
        for rep in range(3 if thorough else 1):
            keys.append(make_key(rng, 'bitcoin', WTS[(i + rep) % 3], (i + rep) % 2 == 1, True, True, i % 2 == 0, sclass,
                                 i + rep, i))
            keys[-1]['conv'] = True          # with both encodings and the views of the public point
    # every extended private version (family x witness type x multisig) with a secret that has leading zero bytes
    n = 0
    for fam, nets in FAMILIES:
        for wt in WTS:
            if not defined(nets[0], wt):
                continue
            for ms in (False, True):
                keys.append(make_key(rng, nets[n % len(nets)], wt, ms, True, True, True, ('lz1', 'lz2', 'lz3')[n % 3],
                                     n, n))
                keys[-1]['lite'] = True
                keys[-1]['litehints'] = True
                n += 1
    # public keys whose x coordinate ends in 01
    for i in range(4 if thorough else 2):
        keys.append(make_key(rng, 'bitcoin', WTS[i % 3], False, i % 2 == 0, True, i % 2 == 1, 'pubtail01', i, i))
    return keys


def _t(label, t0):
    if os.environ.get('VERIF_DEBUG'):
        sys.stderr.write('C12 timing %-10s %.1fs\n' % (label, time.time() - t0))
    return time.time()


def model_check(module, cfg, expect_actions):
    """common.model_check with a large thread stack for the TLC workers: the nested IF chains of Judge plus the big-number
    conversions come close to the JVM's default 1 MB stack while the evaluator still runs interpreted (seen as a
    sporadic StackOverflowError on a loaded machine)."""
    t0 = time.time()
    rc, out = common.run_tlc(module, cfg, extra=['-coverage', '1'], jvm=('-Xmx6g', '-Xss64m'))
    st = common.tlc_stats(out)
    if rc != 0 or 'Model checking completed. No error has been found.' not in out:
        i = out.find('Error:')
        raise common.MachineryError('model check %s/%s failed (rc=%s):\n%s' % (
            module, cfg, rc, out[i:i + 3000] if i >= 0 else out[-4000:]))
    cov = common.tlc_action_coverage(out)
    for a in expect_actions:
        if cov.get(a, (0, 0))[1] == 0:
            raise common.MachineryError('vacuity: action %s of %s never taken (coverage %s)' % (a, module, cov))
    st['coverage'] = {k: v[1] for k, v in cov.items()}
    st['wall_s'] = round(time.time() - t0, 2)
    st['module'] = module
    st['cfg'] = cfg
    return st


def run(replay=None):
    ck = Check(PID)
    t0 = time.time()
    thorough = tier() == 'thorough'
    rng = ck.rng
    ref.selftest()
    ck.rule = ('a case = (format, entry point, hint set) for one abstract key; class = (format, entry point, network '
               'family, witness type, multisig, private, compressed, HD, secret class, hint set). Keys: every defined '
               'network x witness type x multisig with private/public, compressed/uncompressed, HD/plain shapes; '
               'secrets with 0-3 leading zero bytes, 02/03 first byte, 01 last byte, >= 10^77; depths 0/1/5/255; child '
               'numbers 0,1,255,256,2^31-1,2^31,2^31+5,2^32-1; every third key (all in thorough) once more after a history of 1-3 '
               'earlier calls on the same object (observers wif/wif_key/wif_private/wif_public/address/public/as_dict and '
               'network_change to rotating target networks, 8 templates)')
    ck.assumptions = ['TLC evaluates KeyFormats.tla correctly',
                      'secp256k1 point of a secret and sha256d of a Base58Check payload come from harness/ref.py',
                      'version-byte table: SLIP-132 for bitcoin/testnet/litecoin; the library\'s own definitions for '
                      'bitcoinlib_test, dogecoin (xpub/xprv) and litecoin native segwit (Mtub/Mtpv)',
                      'BIP38 content is opaque here (C15): only the envelope (0142, flag byte) and the round trip',
                      'decimal strings shorter than 71 digits are not a supported representation',
                      'hints carry the key\'s true attributes (conflicting hints are outside C12)']

    # ---------------- (M)
    if not os.environ.get('C12_DEV_SKIP_MODEL'):      # development switch (mutation trials): the model does not depend on the code
        ck.model(model_check('MC_KeyFormats', 'MC_KeyFormats_thorough.cfg' if thorough else 'MC_KeyFormats.cfg',
                             expect_actions=['DoOp', 'Choose', 'DoExport', 'DoImport']))

    t0 = _t('model', t0)
    common.fresh_bitcoinlib_env()

    # ---------------- keys
    if replay:
        keys = [replay['case']['key']]
        only = replay['case'].get('fmt')
        thorough = True
    else:
        keys = sample_keys(rng, thorough)
        only = None
    # export after a history: the same keys again, with 1-3 earlier calls on the object (no BIP38: scrypt)
    hists = [[] for _ in keys]
    routes = [NOROUTE for _ in keys]
    if replay:
        hists = [replay['case'].get('hist', [])]
        routes = [replay['case'].get('route', NOROUTE)]
    else:
        targets = list(NETS)
        rng.shuffle(targets)
        base = list(keys)
        for i, k in enumerate(base):
            for rep in range(2 if thorough else 1):
                if thorough or i % 3 == 0:
                    kk = dict(k)
                    kk['lite'] = False
                    keys.append(kk)
                    hists.append(make_history(k, i // (1 if thorough else 3) * (rep + 1) + rep, targets))
                    routes.append(NOROUTE)
        # public-only objects by every route x every point class; all public exports and views of them
        for c in routed_cases(rng, thorough):
            if 'child_of' in c:
                c = child_case(c['child_of'], rng)
                if c is None:
                    continue
            c['key']['conv'] = True
            keys.append(c['key'])
            hists.append([])
            routes.append(c['route'])
        # binary fields that read as text
        for c in text_cases(rng, thorough):
            keys.append(c['key'])
            hists.append([])
            routes.append(c['route'])
    nbip = 0
    plan = []
    for i, k in enumerate(keys):
        # BIP38 (one scrypt evaluation per export / import): plain keys and single-signature HD keys; an uncompressed
        # key has no segwit address to be bound to
        with_bip38 = k['priv'] and (bool(replay) or thorough or i % 23 == 0) and not (k['hd'] and k['ms']) and \
            (k['compressed'] or k['wt'] == 'legacy' or not k['hd'])
        fs = fmts_of(k, with_bip38 and not hists[i], conversions=bool(k.get('conv')) or bool(replay))
        if k.get('textcase'):             # every export of the object; what it cannot express comes back as "undef"
            fs = [f for f in PRIV_FMTS if f != 'bip38' or (routes[i]['r'] == 'ctor' and i % 2 == 0)] + PUB_FMTS
        elif routes[i]['r'] != 'ctor':    # the object is public-only
            fs = PUB_FMTS + CONV_FMTS + VIEW_FMTS
        if k.get('lite'):
            fs = [f for f in fs if f in ('wif', 'xprv', 'xpub', 'bip38')]
        if only:
            fs = [f for f in fs if f == only] or fs
        nbip += 'bip38' in fs
        plan.append(fs)

    # ---------------- (G) pass 1: representations at payload level; pass 2: Base58 strings
    def spec_route(rt):
        return {f: rt[f] for f in ('r', 'fmt', 'ep')}

    gen = common.tlc_eval('KeyFormatsEval', [{'k': 'gen', 'key': spec_key(k), 'route': spec_route(rt), 'hist': hi, 'fmts': fs}
                                              for k, rt, hi, fs in zip(keys, routes, hists, plan)], procs=6)
    t0 = _t('gen', t0)
    want = []
    pairs = set()
    for g, rt in zip(gen, routes):
        for e in g['exp'] + [g['rin']]:
            for payload in ([e['v']] if e['t'] == 'b58c' else []) + ([e['dv']] if e['dv'] else []):
                want.append(payload)
        if rt['r'] != 'ctor':
            pairs.update((route_name(rt), c) for c in g['classes'])
        pairs.update(('xprv', c) for c in g['xcover'])
        pairs.update(('field', c) for c in g['fcover'])
    items = [[p, list(ref.sha256d(bytes(p))[:4])] for p in want]
    chunk = max(25, (len(items) + 11) // 12)      # about a dozen TLC processes
    strs = common.tlc_eval('KeyFormatsEval', [{'k': 'str', 'items': items[i:i + chunk]}
                                               for i in range(0, len(items), chunk)]
                           + [{'k': 'cover', 'pairs': sorted(list(p) for p in pairs)}])
    missing = strs[-1]['exp']
    if missing and not replay:
        raise common.MachineryError('the sampled keys do not cover what the specification requires: %s' % missing)
    strs = [s for r in strs[:-1] for s in r['exp']]
    t0 = _t('str', t0)
    it = iter(strs)
    jobs = []
    keys0 = keys
    keys = []
    for ki, (k, rt, hi, g) in enumerate(zip(keys0, routes, hists, gen)):
        ka = dict(g['after'])         # the key of the exported object (route, history), computed by the specification
        ka['sclass'] = k.get('sclass')
        ka['hist'] = hi
        ka['route'] = rt
        ka['key0'] = k
        keys.append(ka)
        its = []
        exps = [e for e in g['exp'] if e['t'] != 'undef']
        for e in exps:
            spec = {'t': e['t'], 'v': e['v'], 'w': e['w']}
            item = {'fmt': e['fmt'], 'first': exps[0]['fmt']}
            if e['t'] == 'b58c':
                spec = {'t': 'str', 'v': next(it), 'w': []}
            elif e['t'] == 'opaque':
                spec = None
            elif e['t'] == 'hash160':     # the specification built the bytes, the reference primitive hashes them
                item['h160u'] = list(ref.hash160(bytes(e['v'])))
                spec = None
            item['spec'] = spec
            if e['dv']:
                item['devstr'] = next(it)
            its.append(item)
        rin = g['rin']
        if rin['t'] == 'b58c':
            rin = {'t': 'str', 'v': next(it), 'w': []}
        jobs.append({'key': spec_key(ka), 'key0': k, 'route': rt, 'rin': {f: rin[f] for f in ('t', 'v', 'w')}, 'hist': hi,
                     'items': its, 'seed': common.seed() * 1000003 + ki, 'thorough': thorough,
                     'litehints': bool(k.get('litehints')) or rt['r'] != 'ctor' or bool(k.get('textcase'))})

    # ---------------- drive bitcoinlib
    if len(jobs) > 4:
        res = common.pmap(drive, jobs, chunksize=max(1, len(jobs) // (4 * common.NCPU)))
    else:
        res = [drive(j) for j in jobs]

    t0 = _t('drive', t0)
    # ---------------- (V) judge
    recs = []
    owner = []
    for k, rs in zip(keys, res):
        for r in rs:
            r = dict(r)
            r['key'] = spec_key(k)
            r.pop('ncalls')
            recs.append(r)
            owner.append(k)
    verdicts = common.tlc_eval('KeyFormatsEval', recs)

    t0 = _t('judge', t0)

    def hs_name(h):
        return '+'.join(n for n in HINT_NAMES if h[n]) or 'none'

    def kdesc(k):
        return '%s/%s/%s %s %s %s secret-class %s depth %d index %s' % (
            k['network'], k['wt'], 'multisig' if k['ms'] else 'single', 'private' if k['priv'] else 'public',
            'compressed' if k['compressed'] else 'uncompressed', 'HD' if k['hd'] else 'plain', k.get('sclass', '?'),
            k['depth'], bytes(k['index']).hex()) + (
            ' after %s on a key made for %s' % (', '.join(o['op'] + ('(%s)' % o['n'] if o['n'] else '()')
                                                           for o in k['hist']), k['key0']['network'])
            if k.get('hist') else '') + (
            ' [object made by %s%s]' % (route_name(k['route']), ' via ' + k['route']['ep'] if k['route'].get('ep') else '')
            if k.get('route', NOROUTE)['r'] != 'ctor' else '')

    ncalls = 0
    for k, r, v in zip(owner, recs, verdicts):
        fmt = r['fmt']
        base = (fmt, FAMILY_OF[k['network']], k['wt'], k['ms'], k['priv'], k['compressed'], k['hd'], k.get('sclass'),
                tuple((o['op'], FAMILY_OF.get(o['n'])) for o in k.get('hist', [])), route_name(k.get('route', NOROUTE)))
        case = {'key': k['key0'], 'hist': k.get('hist', []), 'route': k.get('route', NOROUTE), 'fmt': fmt}
        shown = to_py(r['spec']) if r['spec']['t'] in ('str', 'bytes', 'int', 'point') else None
        if isinstance(shown, bytes):
            shown = shown.hex()
        ck.case(('export',) + base)
        if v['v'] != 'ok':
            got = to_py(r['code']) if r['code']['ok'] and r['code']['t'] in ('str', 'bytes', 'int', 'point') else r['code']['t']
            ck.violation(v['dev'] or None, 'export %s of key [%s]: clause %s; implementation gave %s, specification %s'
                         % (fmt, kdesc(k), v['v'], str(got.hex() if isinstance(got, bytes) else got)[:180],
                            str(shown)[:180]), case)
        if fmt in ('wif', 'xprv', 'xpub', 'bip38'):
            ck.case(('detect',) + base)
            if v['det'] != 'ok':
                ck.violation(None, 'get_key_format(%s) for %s of key [%s]: clause %s; answered %s'
                             % (str(shown)[:120], fmt, kdesc(k), v['det'], r['det']), case)
        failing = {}
        for f in v['fails']:
            failing[(f['ep'], hs_name(f['h']))] = f
        for g in r['groups']:
            for c in g['calls']:
                ncalls += 1
                name = hs_name(c['h'])
                ck.case((c['ep'], name) + base)
                f = failing.get((c['ep'], name))
                if f:
                    o = g['res']
                    what = 'refused' if not o['ok'] else (
                        'is_private=%s secret=%s pub=%s compressed=%s network=%s witness_type=%s multisig=%s depth=%s '
                        'index=%s' % (o['priv'], bytes(r['pool'][o['sec'] - 1]).hex(), bytes(r['pool'][o['pub'] - 1]).hex(),
                                      o['comp'], o['net'], o['wt'], o['ms'], o['depth'],
                                      bytes(r['pool'][o['index'] - 1]).hex()))
                    ck.violation(f['dev'] or None,
                                 'import of %s %s via %s with hints {%s} of key [%s]: clause %s; implementation: %s'
                                 % (fmt, str(shown)[:120], c['ep'], name, kdesc(k), f['clause'], what), case)
    ck.traces = ncalls
    withhist = [(k, r) for k, r in zip(owner, recs) if k.get('hist')]
    for k, r in list(zip(owner, recs))[:200:40] + withhist[:60:20]:
        ck.sample({'key': kdesc(k), 'fmt': r['fmt'], 'representation': str(to_py(r['spec']) if r['spec']['t'] != 'none'
                                                                        else '')[:120],
                   'imports': sum(len(g['calls']) for g in r['groups'])}, limit=8)
    ck.notes['keys'] = len(keys)
    ck.notes['public_objects_by_route'] = sum(1 for k in keys if k.get('route', NOROUTE)['r'] != 'ctor')
    ck.notes['keys_exported_after_a_history'] = sum(1 for k in keys if k.get('hist'))
    ck.notes['representations'] = len(recs)
    ck.notes['bip38_keys'] = nbip
    return ck.finish()
