"""Transaction.bumpfee / WalletTransaction-free fee bumps judged by spec/FeeBump.tla (section of the C07 check)."""
import itertools
import logging

from harness import common


def run_cases(job):
    logging.disable(logging.CRITICAL)
    from bitcoinlib.transactions import Transaction, TransactionError
    from bitcoinlib.keys import Key
    seed, cases = job
    k = Key(1000003 + seed, network='bitcoinlib_test')
    dest = Key(77, network='bitcoinlib_test').address()
    out = []
    for wt, pay, changes, mode, amount in cases:
        t = Transaction(network='bitcoinlib_test', witness_type='segwit' if wt != 'legacy' else 'legacy')
        fee0 = 2000
        total = sum(pay) + sum(changes) + fee0
        t.add_input(prev_txid=bytes([seed % 250 + 1]) * 32, output_n=0, keys=k, value=total, witness_type=wt)
        order = [(v, False) for v in pay] + [(v, True) for v in changes]
        if seed % 2:
            order = order[::-1]
        for v, ch in order:
            t.add_output(v, k.address() if ch else dest, change=ch)
        t.fee = fee0
        t.sign_and_update()
        pre = {'ins': total, 'outs': [[int(o.value), bool(o.change)] for o in t.outputs]}
        kw = {} if mode == 'default' else ({'fee': fee0 + amount} if mode == 'fee' else {'extra_fee': amount})
        rec = {'pre': pre, 'nums': [int(o.output_n) for o in t.outputs], 'fee': kw.get('fee', -1), 'extra': kw.get('extra_fee', -1), 'refused': False, 'post': pre, 'err': '',
               'case': [wt, list(pay), list(changes), mode, amount, seed]}
        try:
            t.bumpfee(**kw)
            rec['post'] = {'ins': int(sum(i.value for i in t.inputs)), 'outs': [[int(o.value), bool(o.change)] for o in t.outputs]}
            rec['nums'] = [int(o.output_n) for o in t.outputs]
            rec['reported_fee'] = int(t.fee)
            try:
                rec['verified'] = bool(t.verify())
            except Exception:
                rec['verified'] = False
        except TransactionError as e:
            rec['refused'] = True
            rec['err'] = repr(e)[:120]
        except Exception as e:                      # anything but a refusal: reported below
            rec['refused'] = True
            rec['crashed'] = repr(e)[:160]
        out.append(rec)
    return out


def run_section(ck, thorough, replay=None):
    ck.model(common.model_check('MC_FeeBump', 'MC_FeeBump.cfg', expect_actions=['Init'], timeout=600))
    rng = ck.rng
    cases = []
    if replay:
        c = replay['case']['feebump']
        jobs = [(c[5], [(c[0], tuple(c[1]), tuple(c[2]), c[3], c[4])])]
    else:
        vals = [600, 1200, 3000, 7000, 20000]
        for n in (0, 1, 2, 3):
            for changes in itertools.product(vals, repeat=n):
                if n == 3 and not thorough and rng.random() > 0.25:
                    continue
                for mode, amount in (('default', 0), ('extra', 700), ('extra', 3500), ('extra', 12000), ('fee', 2500), ('fee', 9000), ('extra', 40000)):
                    if n >= 2 and not thorough and rng.random() > 0.5:
                        continue
                    cases.append((rng.choice(['legacy', 'segwit', 'p2sh-segwit']), (50000,), changes, mode, amount))
        jobs = [(common.seed() % 1000 + i, cases[i::8]) for i in range(8)]
    results = common.pmap(run_cases, jobs)
    flat = [r for res in results for r in res]
    verdicts = common.tlc_eval('FeeBumpEval', [{k: r[k] for k in ('pre', 'post', 'fee', 'extra', 'refused', 'nums')} for r in flat])
    for r, v in zip(flat, verdicts):
        ck.case(('feebump', len(r['pre']['outs']) - 1, r['case'][3], r['refused'], v['v']))
        case = {'feebump': r['case']}
        desc = 'bumpfee(%s) on outputs %s (fee 2000)' % ({'fee': r['fee']} if r['fee'] >= 0 else ({'extra_fee': r['extra']} if r['extra'] >= 0 else {}), r['pre']['outs'])
        if r.get('crashed'):
            ck.violation(None, 'clause bump-raised-unexpected; %s raised %s' % (desc, r['crashed']), case)
        elif v['v'] != 'ok':
            ck.violation(None, 'clause bump-%s; %s -> %s' % (v['v'], desc, 'refused' if r['refused'] else r['post']['outs']), case)
        elif not r['refused'] and (r.get('reported_fee') != r['post']['ins'] - sum(o[0] for o in r['post']['outs']) or not r.get('verified')):
            ck.violation(None, 'clause bump-reported-fee-or-signature; %s -> %s, reported fee %s, verify() %s' % (
                desc, r['post']['outs'], r.get('reported_fee'), r.get('verified')), case)
    ck.notes['feebump_cases'] = len(flat)
