"""C09 helper: the question/answer loop of harness/c03_oracle.py bound to spec/WalletKeysEval.tla, with one more primitive.

Knows nothing about wallets or BIP32: applies a named reference primitive (harness/ref.py) to the byte strings TLC built.
"""
from harness import common, ref
from harness import c03_oracle


def apply_prim(f, a):
    if f == 'bip39_seed':       # PBKDF2-HMAC-SHA512(NFKD sentence, "mnemonic" + NFKD passphrase, 2048, 64): BIP39 (structure: C14)
        words = bytes(a[0]).decode()
        pw = bytes(a[1]).decode()
        return list(ref.pbkdf2_sha512(ref.nfkd(words).encode(), b'mnemonic' + ref.nfkd(pw).encode()))
    if f == 'sha256':
        return list(ref.sha256(bytes(a[0])))
    return c03_oracle.apply_prim(f, a)


class Oracle9(c03_oracle.Oracle):
    def __init__(self):
        super().__init__(module='WalletKeysEval', cfg='Eval.cfg', max_rounds=12)

    def judge(self, recs, procs=4):
        """As Oracle.judge, with a fixed small number of TLC processes per round (one JVM start costs more CPU than
        a hundred records)."""
        recs = list(recs)
        facts = [[] for _ in recs]
        verdicts = [None] * len(recs)
        pending = list(range(len(recs)))
        rounds = 0
        import time as _t
        while pending:
            rounds += 1
            if rounds > self.max_rounds:
                raise common.MachineryError('oracle loop of %s did not converge in %d rounds' % (self.module, self.max_rounds))
            batch = [dict(recs[i], facts=facts[i]) for i in pending]
            t0 = _t.time()
            out = common.tlc_eval(self.module, batch, cfg=self.cfg, procs=max(1, min(procs, (len(batch) + 79) // 80)))
            t1 = _t.time()
            self.tlc_runs += 1
            nxt, asked = [], []
            for i, o in zip(pending, out):
                if o['v'] == 'need':
                    if not o['need']:
                        raise common.MachineryError('specification asked for nothing')
                    asked.append((i, o['need']))
                    nxt.append(i)
                else:
                    verdicts[i] = o
            self._answer([q for _, qs in asked for q in qs])
            if common.os.environ.get('VERIF_DEBUG'):
                print('DEBUG oracle round %d: %d records, tlc %.1fs, primitives %.1fs' % (rounds, len(batch), t1 - t0, _t.time() - t1))
            for i, qs in asked:
                have = set(c03_oracle._key(x) for x in facts[i])
                new = set()
                for q in qs:
                    k = c03_oracle._key(q)
                    if k in have:
                        raise common.MachineryError('specification asked twice for %r' % (q,))
                    if k in new:
                        continue
                    new.add(k)
                    facts[i].append({'f': q['f'], 'a': q['a'], 'o': self.cache[k]})
            pending = nxt
        self.rounds = max(self.rounds, rounds)
        return verdicts

    def _answer(self, qs):
        todo = {}
        for q in qs:
            k = c03_oracle._key(q)
            if k not in self.cache and k not in todo:
                todo[k] = q
        if not todo:
            return
        items = list(todo.items())
        slow = [(k, q) for k, q in items if q['f'].startswith('ec_')]
        fast = [(k, q) for k, q in items if not q['f'].startswith('ec_')]
        vals = {k: apply_prim(q['f'], q['a']) for k, q in fast}
        if len(slow) > 64:
            import multiprocessing as mp
            with mp.get_context('fork').Pool(min(8, common.NCPU)) as pool:
                res = pool.starmap(apply_prim, [(q['f'], q['a']) for _, q in slow], chunksize=16)
            vals.update({k: v for (k, _), v in zip(slow, res)})
        else:
            vals.update({k: apply_prim(q['f'], q['a']) for k, q in slow})
        for k, q in items:
            self.cache[k] = vals[k]
            self.applications[q['f']] = self.applications.get(q['f'], 0) + 1
