"""C10 helpers that share nothing with bitcoinlib: BIP32 private derivation (HMAC-SHA512 + secp256k1 from harness/ref.py),
a faster evaluation of ECDSA verification (Jacobian coordinates, cross-checked against ref.ecdsa_verify), and the
evaluator of the oracle terms CosignEval.tla asks for (sha256, sha256d, hash160, ecdsa).

Nothing here decides anything: these are the primitives TLC cannot compute; every structural decision (which bytes are
hashed, which signature is checked against which key) is taken by the specification."""
from harness import ref
from harness.common import MachineryError

P, N = ref.P, ref.N


# ------------------------------------------------------------------ secp256k1, Jacobian
def _jdbl(p):
    x, y, z = p
    if not y:
        return (0, 1, 0)
    s = 4 * x * y * y % P
    m = 3 * x * x % P
    x3 = (m * m - 2 * s) % P
    return (x3, (m * (s - x3) - 8 * y * y * y * y) % P, 2 * y * z % P)


def _jadd(p, q):
    if not p[2]:
        return q
    if not q[2]:
        return p
    x1, y1, z1 = p
    x2, y2, z2 = q
    z1z1, z2z2 = z1 * z1 % P, z2 * z2 % P
    u1, u2 = x1 * z2z2 % P, x2 * z1z1 % P
    s1, s2 = y1 * z2 * z2z2 % P, y2 * z1 * z1z1 % P
    if u1 == u2:
        return _jdbl(p) if s1 == s2 else (0, 1, 0)
    h, r = (u2 - u1) % P, (s2 - s1) % P
    hh = h * h % P
    hhh = h * hh % P
    v = u1 * hh % P
    x3 = (r * r - hhh - 2 * v) % P
    return (x3, (r * (v - x3) - s1 * hhh) % P, h * z1 * z2 % P)


def _jmul(k, pt):
    k %= N
    r = (0, 1, 0)
    a = (pt[0], pt[1], 1)
    while k:
        if k & 1:
            r = _jadd(r, a)
        a = _jdbl(a)
        k >>= 1
    return r


def _affine(p):
    if not p[2]:
        return None
    zi = pow(p[2], -1, P)
    return (p[0] * zi * zi % P, p[1] * zi * zi * zi % P)


def ec_mul(k, pt=ref.G):
    return _affine(_jmul(k, pt))


_calls = [0]


def ecdsa_verify(pub_bytes, z, r, s):
    """ECDSA verification; every 16th call is repeated with the plain affine reference implementation."""
    pt = ref.parse_point(pub_bytes)
    if pt is None or not (1 <= r < N and 1 <= s < N):
        res = False
    else:
        w = pow(s, -1, N)
        q = _affine(_jadd(_jmul(z * w % N, ref.G), _jmul(r * w % N, pt)))
        res = q is not None and q[0] % N == r
    _calls[0] += 1
    if _calls[0] % 16 == 1 and res != ref.ecdsa_verify(pt, z, r, s):
        raise MachineryError('c10_ref.ecdsa_verify disagrees with ref.ecdsa_verify')
    return res


# ------------------------------------------------------------------ BIP32 (private derivation only; the harness owns all masters)
def ckd_priv(k, c, i):
    if i >= 0x80000000:
        data = b'\x00' + k.to_bytes(32, 'big') + i.to_bytes(4, 'big')
    else:
        data = ref.ser_point(ec_mul(k)) + i.to_bytes(4, 'big')
    h = ref.hmac512(c, data)
    il = int.from_bytes(h[:32], 'big')
    if il >= N or (il + k) % N == 0:
        raise MachineryError('BIP32: invalid child (probability 2^-127)')
    return (il + k) % N, h[32:]


def parse_path(path):
    out = []
    for part in path.split('/'):
        if part in ('m', 'M', ''):
            continue
        hard = part[-1] in "'hHpP"
        n = int(part[:-1] if hard else part)
        out.append(n + 0x80000000 if hard else n)
    return out


_cache = {}


def derive_pub(master, path):
    """Compressed public key of master (k, c) at an absolute path like m/48'/1'/0'/2'/0/3."""
    k, c = master
    idx = parse_path(path)
    for d in range(len(idx)):
        key = (master, tuple(idx[:d + 1]))
        if key not in _cache:
            _cache[key] = ckd_priv(k, c, idx[d])
        k, c = _cache[key]
    return ref.ser_point(ec_mul(k))


def selftest():
    # BIP32 test vector 1: m/0'/1 and the affine/Jacobian agreement
    seed = bytes.fromhex('000102030405060708090a0b0c0d0e0f')
    h = ref.hmac512(b'Bitcoin seed', seed)
    m = (int.from_bytes(h[:32], 'big'), h[32:])
    if derive_pub(m, "m/0'/1").hex() != '03501e454bf00751f24b1b489aa925215d66af2234e3891c3b21a52bedb3cd711c':
        raise MachineryError('c10_ref: BIP32 test vector 1 (m/0h/1) fails')
    for k in (1, 2, 0xdeadbeef, N - 1):
        if ec_mul(k) != ref.ec_mul(k):
            raise MachineryError('c10_ref: Jacobian multiplication disagrees with ref.ec_mul')


# ------------------------------------------------------------------ oracle terms
def prim(f, args):
    if f == 'sha256' and len(args) == 1:
        return ref.sha256(args[0])
    if f == 'sha256d' and len(args) == 1:
        return ref.sha256d(args[0])
    if f == 'hash160' and len(args) == 1:
        return ref.hash160(args[0])
    if f == 'ecdsa' and len(args) == 4:
        pub, digest, r, s = args
        ok = ecdsa_verify(pub, int.from_bytes(digest, 'big'), int.from_bytes(r, 'big'), int.from_bytes(s, 'big'))
        return b'\x01' if ok else b'\x00'
    raise MachineryError('oracle: unknown primitive %s/%d' % (f, len(args)))


def eval_term(t, facts, memo):
    """Value of a term; every primitive application met on the way is recorded in `facts` as (f, (args...)) -> value."""
    if t['t'] == 'b':
        return bytes(t['b'])
    parts = [eval_term(x, facts, memo) for x in t['s']]
    if t['t'] == 'cat':
        return b''.join(parts)
    if t['t'] == 'h':
        key = (t['f'], tuple(parts))
        if key not in facts:
            if key not in memo:
                memo[key] = prim(t['f'], parts)
            facts[key] = memo[key]
        return facts[key]
    raise MachineryError('oracle: unknown term %r' % (t.get('t'),))


def facts_json(facts):
    return [{'f': f, 'x': [list(a) for a in args], 'y': list(y)} for (f, args), y in facts.items()]
