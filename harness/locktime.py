"""Lock-time setters of Transaction bound to spec/LockTime.tla (section of the C02 check: re-signing).

Sequences of set_locktime_* calls are made on real signed transactions; after every call the serialization, whether the
call raised, whether the object verifies, whether the serialization parsed again verifies and whether it still verifies
with the previous lock fields put back are recorded.  LockTimeEval (TLC) judges every step from the bytes."""
import itertools
import logging
from harness import common
from harness.common import blist

REL = [0, 1, 2, 511, 512, 513, 1023, 1024, 65535, 65536, 33553920, 33554431, 33554432]
ABS = [0, 1, 65535, 499999999, 500000000, 500000001, 1700000000, 0xfffffffe]
LOCKS = [0, 700]
CFGS = [(('sig_pubkey', 'legacy'),), (('sig_pubkey', 'segwit'),), (('sig_pubkey', 'segwit'), ('sig_pubkey', 'p2sh-segwit')),
        (('p2sh_multisig', 'legacy'), ('sig_pubkey', 'legacy')), (('p2sh_multisig', 'segwit'),)]


def hl(n):
    return [n >> 16, n & 0xffff]


def alphabet(nin):
    ops = []
    for i in range(nin):
        for b in REL:
            ops.append(('rel_blocks', i, b, 0))
            ops.append(('rel_time', i, b, 0))
        ops.append(('rel_blocks', i, 144, 700))
        ops.append(('rel_time', i, 5000, 700))
    for a in ABS:
        ops.append(('abs_blocks', 0, a, 0))
        ops.append(('abs_time', 0, a, 0))
    return ops


def gen_sequences(rng, nin, count, thorough):
    al = alphabet(nin)
    seqs = [[a] for a in al]
    # every absolute setter followed by every removal / relative setter and vice versa (pairs), a sample of the rest
    heads = [a for a in al if a[2] not in (2, 513, 1023, 33554431, 65535)]
    pairs = [[a, b] for a in heads for b in heads]
    rng.shuffle(pairs)
    seqs += pairs[:count]
    for _ in range(count // 2):
        seqs.append([rng.choice(al) for _ in range(rng.choice([3, 4, 5]))])
    return seqs


def run_sequences(job):
    import random
    logging.disable(logging.CRITICAL)
    from bitcoinlib.transactions import Transaction
    from bitcoinlib.keys import Key
    from harness import ref
    seed, cfg, seqs, network, version = job
    rng = random.Random(seed)
    out = []
    for steps in seqs:
        t = Transaction(network=network, witness_type='segwit' if any(w != 'legacy' for _, w in cfg) else 'legacy', version=version)
        values = []
        for j, (st, wt) in enumerate(cfg):
            v = rng.choice([100000, 2 ** 32 + 77])
            values.append(v)
            if st == 'sig_pubkey':
                t.add_input(prev_txid=bytes([j + 1]) * 32, output_n=j, keys=Key(rng.randrange(1, ref.N), network=network),
                            script_type='sig_pubkey', value=v, witness_type=wt)
            else:
                ks = [Key(rng.randrange(1, ref.N), network=network) for _ in range(2)]
                t.add_input(prev_txid=bytes([j + 1]) * 32, output_n=j, keys=ks, script_type='p2sh_multisig', sigs_required=2, value=v,
                            witness_type=wt)
        t.add_output(50000, Key(rng.randrange(1, ref.N), network=network).address())
        t.sign_and_update()
        rec = {'cfg': [list(c) for c in cfg], 'network': network, 'version': version, 'raw0': blist(t.raw()), 'verified0': bool(t.verify()),
               'steps': [], 'calls': [list(s) for s in steps]}
        for op, i, a, l in steps:
            before = (t.version, t.locktime, [x.sequence for x in t.inputs])
            raised = ''
            try:
                if op == 'rel_blocks':
                    t.set_locktime_relative_blocks(a, i, l)
                elif op == 'rel_time':
                    t.set_locktime_relative_time(a, i, l)
                elif op == 'abs_blocks':
                    t.set_locktime_blocks(a)
                else:
                    t.set_locktime_time(a)
            except Exception as e:
                raised = repr(e)[:200]
            raw = t.raw()
            try:
                verified = bool(t.verify())
            except Exception:
                verified = False
            valid = []
            for jj, x in enumerate(t.inputs):
                # validity of the signatures of each input, independently: reference ECDSA over the digest (C01 decides the digest)
                try:
                    z = int.from_bytes(t.signature_hash(jj, 1, witness_type=x.witness_type), 'big')
                    pts = [ref.parse_point(k.public_byte) for k in x.keys]
                    signers = {n for sg in x.signatures for n, pt in enumerate(pts) if ref.ecdsa_verify(pt, z, sg.r, sg.s)}
                    valid.append(len(signers) >= x.sigs_required and len(x.signatures) >= x.sigs_required)
                except Exception:
                    valid.append(False)
            reverified = stale = False
            try:
                t2 = Transaction.parse(raw, strict=True, network=network)
                for jj, v in enumerate(values):
                    t2.inputs[jj].value = v
                reverified = bool(t2.verify())
                # the previous lock fields put back: the new signatures must not verify any more
                t2.version, t2.locktime = before[0], before[1]
                t2.version_int = int.from_bytes(before[0], 'big')
                for x, sq in zip(t2.inputs, before[2]):
                    x.sequence = sq
                changed = t2.raw() != raw
                stale = changed and bool(t2.verify())
            except Exception as e:
                raised = raised or ''
            rec['steps'].append({'op': op, 'i': i + 1, 'a': hl(a), 'l': hl(l), 'raised': bool(raised), 'raw': blist(raw), 'verified': verified, 'valid': valid,
                                 'reverified': reverified, 'stale': stale, 'err': raised})
        out.append(rec)
    return out


def run_section(ck, thorough, replay=None):
    ck.model(common.model_check('MC_LockTime', 'MC_LockTime_thorough.cfg' if thorough else 'MC_LockTime.cfg',
                                expect_actions=['Next'], timeout=3000))
    rng = ck.rng
    nets = ['bitcoin', 'testnet', 'litecoin']
    jobs = []
    if replay:
        c = replay['case']['locktime']
        jobs = [(c['seed'], tuple(tuple(x) for x in c['cfg']), [[tuple(s) for s in c['calls']]], c['network'], c['version'])]
    else:
        for ci, cfg in enumerate(CFGS):
            seqs = gen_sequences(rng, len(cfg), 400 if thorough else 60, thorough)
            for part in range(4):
                jobs.append((common.seed() * 100 + ci * 4 + part, cfg, seqs[part::4], nets[(ci + part) % 3], 1 + (ci + part) % 2))
    results = common.pmap(run_sequences, jobs)
    flat = [(job, rec) for job, res in zip(jobs, results) for rec in res]
    verdicts = common.tlc_eval('LockTimeEval', [{'raw0': r['raw0'], 'steps': [{k: s[k] for k in ('op', 'i', 'a', 'l', 'raised', 'raw', 'verified',
                                                                                               'reverified', 'valid')} for s in r['steps']]}
                                                for _, r in flat], timeout=3000)
    for (job, r), v in zip(flat, verdicts):
        ck.traces += 1
        case = {'locktime': {'seed': job[0], 'cfg': r['cfg'], 'calls': r['calls'], 'network': r['network'], 'version': r['version']}}
        desc = 'inputs %s version %d on %s, calls %s' % (r['cfg'], r['version'], r['network'], r['calls'])
        if not r['verified0']:
            ck.violation(None, 'clause correctly-signed-does-not-verify; %s: before any setter call' % desc, case)
        for k, (s, sv) in enumerate(zip(r['steps'], v['steps'])):
            ck.case(('locktime', tuple(map(tuple, r['cfg'])), s['op'], tuple(s['a']), s['raised'], sv['v'], sv['b'], tuple(s['valid'])))
            at = '%s: call %d %s' % (desc, k + 1, r['calls'][k])
            if s['stale']:
                ck.violation(None, 'clause signatures-do-not-commit-to-lock-fields; %s: the transaction still verifies with the previous '
                             'version/locktime/sequences put back' % at, case)
            if sv['v'] != 'ok':
                ck.violation(None, 'clause %s; %s: signatures valid per input %s, verify()=%s, parsed again verify()=%s %s'
                             % (sv['v'], at, s['valid'], s['verified'], s['reverified'], s['err']), case)
            if sv['b']:
                # what the setters establish is not part of the statement of C02: reported, no alarm
                ck.beyond('LockTime: ' + sv['b'], '%s: expected (version, locktime, sequences) %s %s' % (at, sv['exp'], s['err']))
    ck.notes['locktime_traces'] = len(flat)
    if flat:
        ck.sample({'locktime setter calls': flat[len(flat) // 2][1]['calls'], 'inputs': flat[len(flat) // 2][1]['cfg']})
