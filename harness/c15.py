"""C15 - BIP38: keys decrypt only with the right passphrase; new keys use fresh entropy.  Spec: spec/Bip38.tla.

(M) MC_Bip38: the byte-level functions of the specification run as a state machine (Encrypt / Generate / Decrypt)
    over toy primitives; invariants RoundTrip, WrongPassFails, Fresh, ExplicitHonoured, TokenShape.
(G)/(V) Bip38Eval: everything the implementation produced (tokens, intermediate codes, new EC-multiplied keys,
    confirmation codes, decryption results and refusals) is judged by TLC against the specification.  TLC builds every
    byte string that has to be hashed / encrypted / multiplied; harness/c15_oracle.py applies the reference primitive
    (harness/ref.py) and hands the value back - Python holds no BIP38 structure.  The BIP's published vectors go
    through the same specification first (a disagreement there is a machinery failure).
(G)/(V) environment: TLC enumerates the behaviours of spec/Bip38Env.tla (Seed(x) / SaveState / RestoreState on random and
    numpy.random, forked children, interleaved with generation requests; MC_Bip38Env model-checks them); a cover of the
    behaviours that would expose a generator drawing from the ambient state (every way the state repeats x every request
    kind) plus some quiet ones is replayed around the real calls in fresh interpreters, and TLC judges the recorded
    entropy, intermediate codes, encrypted keys, confirmation codes, addresses and private keys (EnvJudge).
(G)/(V) histories of calls: TLC enumerates the histories of spec/Bip38Hist.tla (decrypt / encrypt / intermediate-code calls
    over one family of tokens: same passphrase and owner salt with different lot/sequence, another passphrase on the
    same salt, with and without lot/sequence sharing salt bytes, another salt, a plain key) with the implementations
    WITH MEMORY each exposes (MC_Bip38Hist model-checks them); a cover is replayed, every history in one fresh process,
    and every answer is judged on its own arguments against Bip38.tla: what a call answers must not depend on what the
    process did before.
(V) freshness: histories of generation requests, each recorded in a freshly started interpreter
    (harness/c15_trace.py), are validated by TLC against the entropy ledger of Bip38.tla.
"""
import json
import os
import subprocess
import sys
import time
import unicodedata
from concurrent.futures import ThreadPoolExecutor

from harness import common, ref
from harness.common import Check, tier
from harness import c15_oracle

PID = 'C15'
N = ref.N

# ---- published vectors of BIP38 (text of the BIP; the keys are the "unencrypted (hex)" values) -------------------
K_A = 'CBF4B9F70470856BB4F40F80B87EDB90865997FFEE6DF315AB166D713AF433A5'
K_B = '09C2686880095B1A4C249EE3AC4EEA8A014F11E6F986D0B5025AC1F39AFBD9AE'
VECTORS = [
    dict(pw='TestingOneTwoThree', tok='6PRVWUbkzzsbcVac2qwfssoUJAN1Xhrg6bNk8J7Nzm5H7kxEbn2Nh2ZoGg', priv=K_A, comp=False),
    dict(pw='Satoshi', tok='6PRNFFkZc2NZ6dJqFfhRoFNMR9Lnyj7dYGrzdgXXVMXcxoKTePPX1dWByq', priv=K_B, comp=False),
    dict(pw='\u03d2\u0301\u0000\U00010400\U0001f4a9', tok='6PRW5o9FLp4gJDDVqJQKJFTpMvdsSGJxMYHtHaQBF3ooa8mwD69bapcDQn',
         priv='64EEAB5F9BE2A01A8365A579511EB3373C87C40DA6D2A25F05BDA68FE077B66E', comp=False),
    dict(pw='TestingOneTwoThree', tok='6PYNKZ1EAgYgmQfmNVamxyXVWHzK5s6DGhwP4J5o44cvXdoY7sRzhtpUeo', priv=K_A, comp=True),
    dict(pw='Satoshi', tok='6PYLtMnXvfG3oJde97zRyLYFZCYizPU5T3LwgdYJz1fRhh16bU7u6PPmY7', priv=K_B, comp=True),
    dict(pw='TestingOneTwoThree', tok='6PfQu77ygVyJLZjfvMLyhLMQbYnu5uguoJJ4kMCLqWwPEdfpwANVS76gTX',
         pcode='passphrasepxFy57B9v8HtUsszJYKReoNDV6VHjUSGt8EVJmux9n1J3Ltf1gRxyDGXqnf9qm',
         priv='A43A940577F4E97F5C4D39EB14FF083A98187C64EA7C99EF7CE460833959A519', comp=False),
    dict(pw='Satoshi', tok='6PfLGnQs6VZnrNpmVKfjotbnQuaJK4KZoPFrAjx1JMJUa1Ft8gnf5WxfKd',
         pcode='passphraseoRDGAXTWzbp72eVbtUDdn1rwpgPUGjNZEc6CGBo8i5EC1FPW8wcnLdq4ThKzAS',
         priv='C2C8036DF268F498099350718C4A3EF3984D2BE84618C2650F5171DCC5EB660A', comp=False),
    dict(pw='MOLON LABE', tok='6PgNBNNzDkKdhkT6uJntUXwwzQV8Rr2tZcbkDcuC9DZRsS6AtHts4Ypo1j',
         pcode='passphraseaB8feaLQDENqCgr4gKZpmf4VoaT6qdjJNJiv7fsKvjqavcJxvuR1hy25aTu5sX',
         conf='cfrm38V8aXBn7JWA1ESmFMUn6erxeBGZGAxJPY4e36S9QWkzZKtaVqLNMgnifETYw7BPwWC9aPD',
         priv='44EA95AFBF138356A05EA32110DFD627232D0F2991AD221187BE356F19FA8190', comp=False, lot=263183, seq=1),
    dict(pw='\u039c\u039f\u039b\u03a9\u039d \u039b\u0391\u0392\u0395', tok='6PgGWtx25kUg8QWvwuJAgorN6k9FbE25rv5dMRwu5SKMnfpfVe5mar2ngH',
         pcode='passphrased3z9rQJHSyBkNBwTRPkUGNVEVrUAcfAXDyRU1V28ie6hNFbqDwbFBvsTK7yWVK',
         conf='cfrm38V8G4qq2ywYEFfWLD5Cc6msj9UwsG2Mj4Z6QdGJAFQpdatZLavkgRd1i4iBMdRngDqDs51',
         priv='CA2759AA4ADB0F96C414F36ABEB8DB59342985BE9FA50FAAC228C8E7D90E3006', comp=False, lot=806938, seq=1),
]

NETS_QUICK = ['bitcoin', 'testnet', 'litecoin', 'dogecoin']
NETS_ALL = ['bitcoin', 'testnet', 'litecoin', 'dogecoin', 'signet', 'testnet4', 'litecoin_testnet', 'dogecoin_testnet']
SAME_VERSION = {'testnet': 'signet', 'signet': 'testnet4', 'testnet4': 'litecoin_testnet', 'litecoin_testnet': 'testnet'}

ASCII_PWS = ['TestingOneTwoThree', 'Satoshi', 'a', ' lead and trail ', 'correct horse battery staple ' * 3, 'p\u0000w', '']
# passphrases whose normal forms differ (all given in a form that is NOT NFC)
def _nfd(s):
    return unicodedata.normalize('NFD', s)


UNI_PWS = [_nfd('p\u00e4ssw\u00f6rd'),                          # combining diaereses
           _nfd('\uac01\uac01'),                               # hangul syllables as conjoining jamo
           '\u212b ngstr\u00f6m',                              # singleton (ANGSTROM SIGN), rest precomposed
           '\u1e9b\u0323 q\u0307\u0323',                       # canonical reordering of combining marks
           _nfd('\u1f08\u03b8\u1fc6\u03bd\u03b1\u03b9'),        # polytonic Greek
           'e\u0301\U0001f600\U0001d4b3',                      # combining acute + astral characters
           '\u03d2\u0301\u0000\U00010400\U0001f4a9']          # the passphrase of the BIP's third vector
# passphrases already in NFC (no finding expected) with non-ASCII content
NFC_PWS = ['\u039c\u039f\u039b\u03a9\u039d \u039b\u0391\u0392\u0395', '\ufb01n\u00e9 \U0001f511', '\u5bc6\u7801\u30d1\u30b9']


def A(s):
    return [ord(c) for c in s]


def _hx(h):
    return {'hex': h}


def _b(x):
    return {'hex': x.hex()}


WIF_A = '5KN7MzqK5wt2TP1fQCYyHBtDrXdJuXbUzm4A9rKAteGu3Qi5CVR'
# passphrase classes by the shapes that input-sniffing helpers react to: (passphrase, confusable variants - DIFFERENT
# passphrases, decryption with them must fail -, equivalent forms - the same passphrase, must decrypt).  A passphrase is
# text: 'deadbeef' is eight letters, not four bytes.  bytes arguments are {'hex': ...}.
PW_CLASSES = [
    ('deadbeef', [(_hx('deadbeef'), 'confusable:hex-decoded'), ('DEADBEEF', 'confusable:other-case'), ('deadbeef ', 'confusable:untrimmed')],
     [_b(b'deadbeef')]),
    ('CAFE', [(_hx('cafe'), 'confusable:hex-decoded'), ('cafe', 'confusable:other-case')], []),
    ('123456', [(_hx('123456'), 'confusable:hex-decoded'), ('12 34 56', 'confusable:spaced'), (' 123456', 'confusable:untrimmed')],
     [_b(b'123456')]),
    ('12345', [('012345', 'confusable:zero-padded'), (_hx('012345'), 'confusable:hex-decoded')], []),
    ('abcde', [('ABCDE', 'confusable:other-case'), ('0abcde', 'confusable:zero-padded')], []),
    ('12 34 56', [('123456', 'confusable:unspaced'), (_hx('123456'), 'confusable:hex-decoded')], []),
    ('0xdeadbeef', [('deadbeef', 'confusable:prefix-stripped'), (_hx('deadbeef'), 'confusable:hex-decoded')], []),
    ('11' * 32, [(_hx('11' * 32), 'confusable:hex-decoded'), ('11' * 31, 'wrong')], []),
    (WIF_A, [(WIF_A.lower(), 'confusable:other-case'), (WIF_A[:-1] + 'S', 'wrong')], []),
    (' pass ', [('pass', 'confusable:trimmed'), ('pass ', 'confusable:trimmed')], []),
    ('pass\n', [('pass', 'confusable:trimmed')], []),
    ('abc', [('616263', 'confusable:hex-of-utf8'), ('ABC', 'confusable:other-case')], [_b(b'abc')]),
    ('616263', [('abc', 'confusable:hex-decoded-text'), (_b(b'abc'), 'confusable:hex-decoded')], []),
    ('', [(' ', 'wrong'), (_hx('00'), 'wrong'), ('0', 'wrong')], []),
    (_b(b'\xff\xfe\x00\x80'), [('fffe0080', 'confusable:hex-text'), (_b(b'\xff\xfe\x00'), 'wrong')], []),
    (_b(b'123456'), [(_hx('123456'), 'confusable:hex-decoded')], ['123456']),
    ('x' * 1000, [('x' * 999, 'wrong')], []),
    ('\uff24\uff25\uff21\uff24', [('DEAD', 'confusable:compatibility-form'), (_hx('dead'), 'confusable:hex-decoded')], []),
]


def S(codes):
    try:
        return ''.join(chr(c) for c in codes)
    except Exception:
        return str(codes)


def PJ(x):
    """Passphrase as it travels in jobs / replay files: text as str, a bytes argument as {'hex': ...}."""
    return {'hex': bytes(x).hex()} if isinstance(x, (bytes, bytearray)) else x


def PY(p):
    """Passphrase as it is handed to the implementation."""
    return bytes.fromhex(p['hex']) if isinstance(p, dict) else p


def PREC(p):
    """Passphrase fields of a record for TLC: code points of a text, or the bytes of a bytes argument."""
    if isinstance(p, dict):
        return {'pw': list(bytes.fromhex(p['hex'])), 'pwbytes': True}
    return {'pw': A(p), 'pwbytes': False}


HEXD = set('0123456789abcdefABCDEF')
B58 = set('123456789ABCDEFGHJKLMNPQRSTUVWXYZabcdefghijkmnopqrstuvwxyz')


def pw_class(p):
    """Class of a passphrase by the shapes input-sniffing helpers care about (classification only, no oracle)."""
    if isinstance(p, dict):
        b = bytes.fromhex(p['hex'])
        try:
            return 'bytes:' + pw_class(b.decode('utf-8'))
        except UnicodeDecodeError:
            return 'bytes:not-utf8'
    pw = p
    if pw == '':
        return 'empty'
    if len(pw) >= 200:
        return 'long'
    if pw != pw.strip():
        return 'blank-wrapped'
    if set(pw) <= HEXD:
        kind = 'digits' if pw.isdigit() else 'hex-' + ('lower' if pw == pw.lower() else 'upper' if pw == pw.upper() else 'mixed')
        return kind + ('-even' if len(pw) % 2 == 0 else '-odd') + ('-64' if len(pw) == 64 else '')
    if set(pw) <= HEXD | {' '}:
        return 'hex-spaced'
    if pw[:2] in ('0x', '0X') and set(pw[2:]) <= HEXD:
        return '0x-hex'
    if len(pw) >= 26 and set(pw) <= B58:
        return 'base58-like'
    if all(ord(c) < 128 for c in pw):
        return 'ascii' + ('-ctrl' if any(ord(c) < 32 for c in pw) else '')
    k = 'nfc' if unicodedata.is_normalized('NFC', pw) else 'non-nfc'
    return k + ('-astral' if any(ord(c) > 0xffff for c in pw) else '')


def eff(p):
    """For labelling cases only: the byte string BIP38 feeds to scrypt (the verdict is TLC's, from Bip38.tla)."""
    return bytes.fromhex(p['hex']) if isinstance(p, dict) else unicodedata.normalize('NFC', p).encode('utf-8')


def key_class(h):
    v = int(h, 16)
    return 'one' if v == 1 else 'n-1' if v == N - 1 else 'leading-zeros' if v < 2 ** 200 else 'high' if v >> 255 else 'mid'


def wrong_variant(pw, rng):
    """A different passphrase (one character changed / added / case flipped) that is not an equivalent normal form."""
    if isinstance(pw, dict):
        return PJ(PY(pw) + b'x')
    for _ in range(20):
        how = rng.randrange(4)
        if not pw or how == 0:
            w = pw + rng.choice('xyz ')
        elif how == 1:
            i = rng.randrange(len(pw))
            w = pw[:i] + (pw[i].swapcase() if pw[i].swapcase() != pw[i] else chr(ord(pw[i]) ^ 1)) + pw[i + 1:]
        elif how == 2:
            w = pw[:-1]
        else:
            i = rng.randrange(len(pw))
            w = pw[:i] + pw[i + 1:] + pw[i]
        if unicodedata.normalize('NFC', w) != unicodedata.normalize('NFC', pw) and not any(0xd800 <= ord(c) < 0xe000 for c in w):
            return w
    return pw + '#'


# ---------------------------------------------------------------------------------------------
# drivers (run in worker processes; bitcoinlib imported from the tree under test)
# ---------------------------------------------------------------------------------------------

def _obs_dec(route, tok, pw, net):
    from bitcoinlib.keys import Key, HDKey, bip38_decrypt
    try:
        if route == 'bip38_decrypt':
            import inspect
            if 'network' in inspect.signature(bip38_decrypt).parameters:
                priv, _, comp, d = bip38_decrypt(tok, pw, network=net)
            else:
                priv, _, comp, d = bip38_decrypt(tok, pw)
            return {'ok': True, 'priv': list(priv), 'comp': bool(comp), 'lot': d.get('lot') or 0, 'seq': d.get('sequence') or 0}
        if route == 'Key':
            k = Key(tok, password=pw, network=net)
        elif route == 'HDKey-default':
            k = HDKey(tok, password=pw, network=net)
        else:
            k = HDKey(tok, password=pw, network=net, witness_type=route[len('HDKey-'):])
        if not k.is_private or k.private_byte is None:
            return {'ok': False, 'priv': [], 'comp': False, 'lot': 0, 'seq': 0, 'note': 'no private key in result'}
        return {'ok': True, 'priv': list(k.private_byte), 'comp': bool(k.compressed), 'lot': 0, 'seq': 0}
    except Exception as e:
        return {'ok': False, 'priv': [], 'comp': False, 'lot': 0, 'seq': 0, 'note': '%s: %s' % (type(e).__name__, str(e)[:120])}


def drive_nonec(job):
    """One scenario without EC multiplication: encrypt through a route, then the listed decryption attempts."""
    from bitcoinlib.keys import Key, HDKey
    res = {'enc': None, 'decs': []}
    tok = job.get('tok')
    if job.get('enc_route'):
        try:
            if job['enc_route'] == 'Key':
                k = Key(job['priv'], network=job['net'], compressed=job['comp'])
            else:
                k = HDKey(job['priv'], network=job['net'], compressed=job['comp'], witness_type=job['enc_route'][len('HDKey-'):])
            t = k.encrypt(PY(job['pw']))
            res['enc'] = {'ok': True, 'tok': t}
            tok = tok or t
        except Exception as e:
            res['enc'] = {'ok': False, 'tok': '', 'note': '%s: %s' % (type(e).__name__, str(e)[:120])}
    for d in job['decs']:
        res['decs'].append(_obs_dec(d[0], tok, PY(d[1]), d[2]) if tok else None)
    res['tok'] = tok
    return res


def drive_ec(job):
    """One EC-multiplied scenario: intermediate code, new encrypted key, decryption attempts."""
    from bitcoinlib.keys import bip38_intermediate_password, bip38_create_new_encrypted_wif
    res = {'inter': None, 'new': None, 'decs': [], 'tok': None}
    try:
        kw = {}
        if job['lot'] is not None:
            kw = {'lot': job['lot'], 'sequence': job['seq']}
        code = bip38_intermediate_password(PY(job['pw']), owner_salt=bytes.fromhex(job['salt']), **kw)
        res['inter'] = {'ok': True, 'code': code}
    except Exception as e:
        res['inter'] = {'ok': False, 'code': '', 'note': '%s: %s' % (type(e).__name__, str(e)[:120])}
        return res
    try:
        r = bip38_create_new_encrypted_wif(code, compressed=job['comp'], seed=bytes.fromhex(job['seed']), network=job['net'])
        res['new'] = {'ok': True, 'tok': r['encrypted_wif'], 'conf': r['confirmation_code'], 'pub': r['public_key'],
                      'addr': r['address']}
        res['tok'] = r['encrypted_wif']
    except Exception as e:
        res['new'] = {'ok': False, 'tok': '', 'conf': '', 'pub': '', 'addr': '', 'note': '%s: %s' % (type(e).__name__, str(e)[:120])}
        return res
    for d in job['decs']:
        res['decs'].append(_obs_dec(d[0], res['tok'], PY(d[1]), d[2]))
    return res


def run_trace(job):
    """One history of generation requests in a freshly started interpreter."""
    env = dict(os.environ)
    env.pop('BCL_DATA_DIR', None)
    p = subprocess.run([sys.executable, '-m', 'harness.c15_trace', json.dumps(job)], cwd=common.VERIF, env=env,
                       stdout=subprocess.PIPE, stderr=subprocess.PIPE, timeout=600, text=True)
    if p.returncode != 0:
        raise common.MachineryError('trace driver failed:\n' + p.stderr[-2000:])
    return json.loads(p.stdout[p.stdout.index('{"events"'):])


# ---------------------------------------------------------------------------------------------
# scenario generation
# ---------------------------------------------------------------------------------------------

def scenarios(rng, thorough):
    nonec, ec, traces = [], [], []
    keys = ['%064x' % 1, '%064x' % (N - 1), '%064x' % rng.getrandbits(120), '%064x' % (2 ** 255 + rng.getrandbits(250)),
            K_A.lower(), K_B.lower()] + ['%064x' % rng.randrange(1, N) for _ in range(6 if thorough else 2)]
    nets = NETS_ALL if thorough else NETS_QUICK
    pws = ASCII_PWS + UNI_PWS + NFC_PWS

    def decs_for(pw, net, route='Key', wrong=True):
        d = [[route, pw, net]] + ([[route, wrong_variant(pw, rng), net]] if wrong or thorough else [])
        nfc, nfd = unicodedata.normalize('NFC', pw), unicodedata.normalize('NFD', pw)
        for v in ((nfc, nfd) if thorough else (nfc,)):     # equivalent passphrases (must decrypt as well)
            if v != pw:
                d.append([route, v, net])
        return d

    # published tokens decrypted by the implementation; published keys encrypted by it
    for vi, v in enumerate(VECTORS):
        ec_tok = 'pcode' in v
        decs = decs_for(v['pw'], 'bitcoin', wrong=vi == 0) + ([['bip38_decrypt', v['pw'], 'bitcoin']] if ec_tok else [])
        nonec.append({'priv': v['priv'].lower(), 'comp': v['comp'], 'net': 'bitcoin', 'pw': v['pw'],
                      'enc_route': None if ec_tok else 'Key', 'tok': v['tok'], 'decs': decs, 'origin': 'published vector'})
    # keys x compression x networks x passphrases
    i = 0
    combos = [(net, comp) for net in nets for comp in (True, False)]
    reps = 3 if thorough else 1
    for rep in range(reps):
        for net, comp in combos:
            pw = pws[i % len(pws)]
            key = keys[(i * 5 + rep) % len(keys)]
            i += 1
            decs = decs_for(pw, net)
            if net != 'bitcoin' and (i % 3 == 0):
                decs.append(['Key', pw, 'bitcoin'])                       # right passphrase, wrong network: must fail
            if net in SAME_VERSION and (i % 2 == 0):
                decs.append(['Key', pw, SAME_VERSION[net]])               # another network with the same version byte
            nonec.append({'priv': key, 'comp': comp, 'net': net, 'pw': pw, 'enc_route': 'Key', 'tok': None, 'decs': decs,
                          'origin': 'generated'})
    # every passphrase at least once on bitcoin
    for j, pw in enumerate(pws if thorough else ASCII_PWS[4:6] + UNI_PWS + NFC_PWS):     # (short ASCII shapes: PW_CLASSES below)
        nonec.append({'priv': keys[j % len(keys)], 'comp': bool(j % 2), 'net': 'bitcoin', 'pw': pw, 'enc_route': 'Key', 'tok': None,
                      'decs': decs_for(pw, 'bitcoin', wrong=False), 'origin': 'generated'})
    # passphrase shapes: same key / compression / network throughout, so that the reference scrypt of one case's right
    # passphrase is reused where it is another case's confusable one
    for j, (pw, confusables, equivalents) in enumerate(PW_CLASSES):
        for comp in ((True, False) if thorough else (True,)):
            route = 'Key' if (j % 5 or isinstance(pw, dict)) else 'HDKey-segwit'
            decs = [['Key', pw, 'bitcoin']]
            decs += [['Key', c, 'bitcoin', tag] for c, tag in (confusables if thorough else confusables[:2 if j < 6 else 1])]
            decs += [['Key', e, 'bitcoin'] for e in (equivalents if thorough else equivalents[:1])]
            nonec.append({'priv': K_A.lower(), 'comp': comp, 'net': 'bitcoin', 'pw': pw, 'enc_route': route, 'tok': None, 'decs': decs,
                          'origin': 'generated'})
    # HDKey routes
    hd = [('HDKey-legacy', 'HDKey-legacy'), ('HDKey-legacy', 'HDKey-default'), ('HDKey-segwit', 'HDKey-legacy'),
          ('HDKey-p2sh-segwit', 'HDKey-legacy'), ('Key', 'HDKey-default'), ('Key', 'HDKey-segwit'), ('Key', 'HDKey-legacy'),
          ('Key', 'HDKey-p2sh-segwit')]
    for j, (er, dr) in enumerate(hd * 2 if thorough else hd[1:6]):
        net = nets[j % len(nets)]
        pw = (ASCII_PWS + NFC_PWS)[j % 5]
        nonec.append({'priv': keys[(j + 2) % len(keys)], 'comp': j % 3 != 1, 'net': net, 'pw': pw, 'enc_route': er, 'tok': None,
                      'decs': decs_for(pw, net, dr, wrong=j % 2 == 0), 'origin': 'generated'})
    # EC multiplication
    lots = [None, (100000, 1), (999999, 4095), (rng.randrange(100000, 1000000), rng.randrange(1, 4096)), (567890, 0), None]
    ecnets = ['bitcoin', 'bitcoin', 'litecoin', 'bitcoin', 'testnet', 'bitcoin', 'dogecoin'] if not thorough else nets
    ecpws = ['TestingOneTwoThree', '123456', UNI_PWS[0], 'deadbeef', NFC_PWS[0], ASCII_PWS[3], UNI_PWS[5], 'CAFE', UNI_PWS[1], NFC_PWS[2],
             ' 0x12 ', UNI_PWS[6], 'Satoshi']
    for j in range(39 if thorough else 9):          # (EC-multiplied decryptions are also exercised by the histories)
        pw = ecpws[j % len(ecpws)]
        lot = lots[j % len(lots)]
        net = ecnets[j % len(ecnets)]
        salt = bytes(rng.getrandbits(8) for _ in range(4 if (lot and j % 2) else 8)).hex()
        seed = bytes(rng.getrandbits(8) for _ in range(24)).hex()
        decs = decs_for(pw, net, wrong=j % 2 == 1) + [['bip38_decrypt', pw, net]]
        if set(pw) <= HEXD and len(pw) % 2 == 0:
            decs.append(['Key', _hx(pw), net, 'confusable:hex-decoded'])
        if j % 4 == 0:
            decs.append(['bip38_decrypt', wrong_variant(pw, rng), net])
        ec.append({'pw': pw, 'lot': lot[0] if lot else None, 'seq': lot[1] if lot else None, 'salt': salt, 'seed': seed,
                   'comp': j % 2 == 0, 'net': net, 'decs': decs})
    # freshness histories
    ops = ['intermediate', 'intermediate-lot', 'new', 'key', 'hdkey']
    for t in range(24 if thorough else 5):
        calls = []
        for _ in range(rng.randrange(6, 11) if thorough else rng.randrange(3, 7)):
            op = rng.choice(ops[:3] if rng.random() < 0.7 else ops)
            arg = None
            if op in ops[:3] and rng.random() < 0.3:
                n = 24 if op == 'new' else (rng.choice([4, 8]) if op == 'intermediate-lot' else 8)
                arg = bytes(rng.getrandbits(8) for _ in range(n)).hex()
            calls.append([op, arg])
        # every history asks at least twice for default entropy of each generator
        calls += [['intermediate', None], ['new', None], ['intermediate-lot', None], ['new', None], ['intermediate', None],
                  ['intermediate-lot', None], ['key', None], ['hdkey', None], ['key', None], ['hdkey', None]]
        rng.shuffle(calls)
        traces.append({'calls': calls, 'passphrase': rng.choice(['pw', 'Satoshi', UNI_PWS[0], '123456']), 'network': rng.choice(nets),
                       'compressed': bool(t % 2)})
    return nonec, ec, traces


# ---------------------------------------------------------------------------------------------
# records for TLC
# ---------------------------------------------------------------------------------------------

def dec_relation(pw, right, tag=None):
    if pw == right:
        return 'same'
    if eff(pw) == eff(right):
        return 'bytes-for-text' if isinstance(pw, dict) != isinstance(right, dict) else 'other-normal-form'
    return tag or 'wrong'


def short(p):
    r = repr(PY(p))
    return r if len(r) <= 70 else r[:50] + '...(%d)' % len(PY(p))


def strip(got):
    return {k: v for k, v in got.items() if k != 'note'}


def records_nonec(job, res, ji):
    out = []
    case = {'kind': 'nonec', 'job': job}
    if res['enc'] is not None:
        g = res['enc']
        rec = {'k': 'enc', 'route': job['enc_route'], 'net': job['net'], 'priv': list(bytes.fromhex(job['priv'])), 'comp': job['comp'],
               'got': {'ok': g['ok'], 'tok': A(g['tok'])}}
        rec.update(PREC(job['pw']))
        desc = '%s(%s.., %s, compressed=%s).encrypt(%s) -> %s' % (job['enc_route'], job['priv'][:8], job['net'], job['comp'], short(job['pw']),
                                                                g['tok'] if g['ok'] else 'refused (%s)' % g.get('note'))
        out.append((rec, ('enc', job['enc_route'], job['net'], job['comp'], pw_class(job['pw']), key_class(job['priv'])), desc, case))
    for d, g in zip(job['decs'], res['decs']):
        if g is None:
            continue
        route, pw, net = d[0], d[1], d[2]
        if res['enc'] is not None and res['enc']['ok'] and pw == job['pw'] and net == job['net'] and job['tok'] is None:
            rt = {'k': 'rt', 'priv': list(bytes.fromhex(job['priv'])), 'comp': job['comp'], 'encok': True, 'got': strip(g)}
            out.append((rt, ('round-trip', job['enc_route'], route, net, job['comp'], pw_class(pw)),
                        '%s(%s.., %s, compressed=%s).encrypt(%s) -> %s, then %s(token, password=<the same>, network=%s) -> %s' % (
                            job['enc_route'], job['priv'][:8], job['net'], job['comp'], short(pw), res['tok'], route, net,
                            ('key %s.. compressed=%s' % (bytes(g['priv']).hex()[:8], g['comp'])) if g['ok'] else 'refused (%s)' % g.get('note')),
                        case))
        rec = {'k': 'dec', 'route': route, 'net': net, 'tok': A(res['tok']), 'got': strip(g)}
        rec.update(PREC(pw))
        rel = dec_relation(pw, job['pw'], d[3] if len(d) > 3 else None) + ('' if net == job['net'] else '/other-network')
        desc = '%s(%s, password=%s, network=%s) [%s; token of %s on %s, %s] -> %s' % (
            route, res['tok'], short(pw), net, rel, job['origin'], job['net'], 'code' if job['tok'] is None else 'published',
            ('key %s.. compressed=%s' % (bytes(g['priv']).hex()[:8], g['comp'])) if g['ok'] else 'refused (%s)' % g.get('note'))
        out.append((rec, ('dec', route, net, res['tok'][:3], rel, pw_class(pw)), desc, case))
    return out


def records_ec(job, res, ji):
    out = []
    case = {'kind': 'ec', 'job': job}
    lotseq = [job['lot'], job['seq']] if job['lot'] is not None else []
    g = res['inter']
    rec = {'k': 'inter', 'lotseq': lotseq, 'salt': list(bytes.fromhex(job['salt'])),
           'got': {'ok': g['ok'], 'code': A(g['code'])}}
    rec.update(PREC(job['pw']))
    desc = 'bip38_intermediate_password(%s, lot=%s, sequence=%s, owner_salt=%s) -> %s' % (
        short(job['pw']), job['lot'], job['seq'], job['salt'], g['code'] if g['ok'] else 'refused (%s)' % g.get('note'))
    out.append((rec, ('inter', bool(lotseq), len(job['salt']) // 2, pw_class(job['pw']),
                      (job['seq'] == 0, job['lot'] in (100000, 999999)) if lotseq else None), desc, case))
    if res['new'] is None:
        return out
    g = res['new']
    rec = {'k': 'new', 'inter': A(res['inter']['code']), 'comp': job['comp'], 'seed': list(bytes.fromhex(job['seed'])), 'net': job['net'],
           'got': {'ok': g['ok'], 'tok': A(g['tok']), 'conf': A(g['conf']), 'pub': list(bytes.fromhex(g['pub'])) if g['ok'] else [],
                   'addr': A(g['addr'])}}
    desc = 'bip38_create_new_encrypted_wif(%s, compressed=%s, seed=%s, network=%s) -> %s' % (
        res['inter']['code'], job['comp'], job['seed'], job['net'], (g['tok'] + ' / ' + g['conf'] + ' / ' + g['addr']) if g['ok']
        else 'refused (%s)' % g.get('note'))
    out.append((rec, ('new', bool(lotseq), job['comp'], job['net']), desc, case))
    for d, g in zip(job['decs'], res['decs']):
        route, pw, net = d[0], d[1], d[2]
        rec = {'k': 'dec', 'route': route, 'net': net, 'tok': A(res['tok']), 'got': strip(g)}
        rec.update(PREC(pw))
        rel = dec_relation(pw, job['pw'], d[3] if len(d) > 3 else None)
        desc = '%s(%s, password=%s, network=%s) [%s; EC-multiplied token made by the code for %s, lot/sequence %s] -> %s' % (
            route, res['tok'], short(pw), net, rel, job['net'], lotseq or None,
            ('key %s.. compressed=%s lot=%s sequence=%s' % (bytes(g['priv']).hex()[:8], g['comp'], g['lot'], g['seq'])) if g['ok']
            else 'refused (%s)' % g.get('note'))
        out.append((rec, ('dec', route, net, res['tok'][:3], rel, pw_class(pw), bool(lotseq)), desc, case))
    return out


def show(codes):
    if isinstance(codes, list) and codes and all(isinstance(c, int) and 32 <= c < 127 for c in codes):
        return S(codes)
    if isinstance(codes, list) and codes and all(isinstance(c, int) and 0 <= c < 256 for c in codes):
        return bytes(codes).hex()
    return str(codes)


ENV_L = 4
MECH = {'seed1': 'seed', 'seed2': 'seed', 'restore': 'restore', 'forknew': 'fork'}
GEN_ACTS = ('inter', 'interlot', 'new', 'forknew', 'newx', 'key', 'hdkey')


def env_behaviours():
    """(G) the behaviours of spec/Bip38Env.tla, enumerated by TLC, each with the model's answer whether it would expose a
    generator that draws from the ambient pseudo-random state."""
    out = c15_oracle.tlc_eval_fast('Bip38Eval', [{'k': 'envgen', 'L': ENV_L, 'facts': []}], 'Bip38Eval.cfg')
    behs = sorted((tuple(x['b']), bool(x['exposes']), x['kind']) for x in out[0]['behs'])
    if len(behs) < 100 or not any(e for _, e, _ in behs) or all(e for _, e, _ in behs):
        raise common.MachineryError('Bip38Env: implausible set of behaviours (%d)' % len(behs))
    return behs


def env_jobs(behs, rng, thorough):
    """Behaviours to replay: exposing ones covering every (way the ambient state repeats) x (request kind), scrypt-cheap
    ones preferred, plus some that leave the ambient state alone."""
    cost = lambda b: sum(a in ('inter', 'interlot') for a in b) + 0.5 * any(a in ('new', 'forknew', 'newx') for a in b)
    exposing = [(b, k) for b, e, k in behs if e]
    quiet = [b for b, e, _ in behs if not e]
    rng.shuffle(exposing)
    rng.shuffle(quiet)
    chosen, covered = [], set()
    for b, kind in sorted(exposing, key=lambda x: cost(x[0])):
        # class of an exposing behaviour: (the ways it touches the ambient state, the kind of request the model catches)
        mechs = frozenset(MECH[m] for m in b if m in MECH)
        if (mechs, kind) not in covered and (thorough or len(mechs) == 1):
            covered.add((mechs, kind))
            chosen.append(b)
    exposing = [b for b, _ in exposing]
    chosen += [b for b in exposing if b not in chosen][:30 if thorough else 0]
    chosen += sorted(quiet[:40], key=cost)[:10 if thorough else 3]
    return [{'env': list(b), 'seeds': {'seed1': rng.randrange(1, 2 ** 31), 'seed2': rng.randrange(1, 2 ** 31)},
             'passphrase': rng.choice(['pw', '123456', UNI_PWS[0]]), 'network': rng.choice(NETS_QUICK), 'compressed': bool(i % 2),
             'supplied': bytes(rng.getrandbits(8) for _ in range(24)).hex()} for i, b in enumerate(chosen)]


HIST_L = 3
H_PW = {'P': 'owner passphrase', 'Q': 'other passphrase'}


def hist_behaviours():
    """(G) the histories of spec/Bip38Hist.tla, enumerated by TLC, each with the implementations-with-memory it exposes."""
    out = c15_oracle.tlc_eval_fast('Bip38Eval', [{'k': 'histgen', 'L': HIST_L, 'facts': []}], 'Bip38Eval.cfg')

    def call(c):
        return (c['c'], c['t']['kind'], c['t']['p'], c['t']['s'], c['t']['ls'], c['pw'])
    hs = sorted((tuple(call(c) for c in x['h']), tuple(sorted(x['exposed']))) for x in out[0]['hists'])
    if len(hs) < 300 or not any(e for _, e in hs) or all(e for _, e in hs):
        raise common.MachineryError('Bip38Hist: implausible set of histories (%d)' % len(hs))
    return hs


def hist_select(hs, rng, thorough):
    """A cover: for every implementation with memory several histories that expose it (two calls; thorough: also three),
    plus quiet histories.  Returns abstract histories."""
    impls = sorted({i for _, e in hs for i in e})
    pool = list(hs)
    rng.shuffle(pool)
    chosen, hits = [], {i: 0 for i in impls}
    for want, length in ((2, 2),) + (((5, 2), (8, 3)) if thorough else ((3, 3),)):
        for i in impls:
            for h, e in pool:
                if hits[i] >= want:
                    break
                if i in e and len(h) == length and h not in chosen:
                    chosen.append(h)
                    for k in e:
                        hits[k] += 1
    chosen += [h for h, e in pool if not e][:10 if thorough else 2]
    return chosen


def hist_world(rng):
    """Concrete keys for the names of Bip38Hist: two passphrases, 4-byte salts S and T (the 8-byte salt of the key without
    lot/sequence starts with S), two lots."""
    s4, t4 = bytes(rng.getrandbits(8) for _ in range(4)), bytes(rng.getrandbits(8) for _ in range(4))
    lot_a, lot_b = rng.randrange(100000, 1000000), rng.randrange(100000, 1000000)
    ls = {1: (lot_a, 1), 2: (lot_a, 2), 3: (lot_b, 1)}
    setup = {}
    for p in 'PQ':
        for s, sb in (('S', s4), ('T', t4)):
            for l in range(4):
                if (p, s, l) in {('P', 'S', 0), ('P', 'S', 1), ('P', 'S', 2), ('P', 'S', 3), ('Q', 'S', 1), ('P', 'T', 1)}:
                    salt = sb + bytes(rng.getrandbits(8) for _ in range(4)) if l == 0 else sb
                    setup['ec/%s/%s/%d' % (p, s, l)] = {
                        'kind': 'ec', 'pw': H_PW[p], 'lot': ls[l][0] if l else None, 'seq': ls[l][1] if l else None, 'salt': salt.hex(),
                        'seed': bytes(rng.getrandbits(8) for _ in range(24)).hex(), 'comp': bool(l % 2), 'net': 'bitcoin'}
    setup['plain/P/-/0'] = {'kind': 'plain', 'priv': K_B.lower(), 'comp': True, 'net': 'bitcoin', 'pw': H_PW['P']}
    return setup


def hist_concrete(h, setup, toks, n):
    calls = []
    for i, (c, kind, p, s, l, pw) in enumerate(h):
        name = '%s/%s/%s/%d' % (kind, p, s, l)
        j = setup[name]
        if c == 'dec':
            calls.append({'c': 'dec', 'route': 'bip38_decrypt' if (kind == 'ec' and (n + i) % 2) else 'Key', 'tok': toks[name], 'pw': H_PW[pw],
                          'net': 'bitcoin', 'name': 'dec(%s, %s)' % (name, pw)})
        elif c == 'enc':
            calls.append({'c': 'enc', 'priv': j['priv'], 'comp': j['comp'], 'net': j['net'], 'pw': H_PW[pw], 'name': 'enc(%s, %s)' % (name, pw)})
        else:
            calls.append({'c': 'inter', 'pw': H_PW[pw], 'lot': j['lot'], 'seq': j['seq'], 'salt': j['salt'], 'name': 'inter(%s)' % name})
    return calls


def records_hist(job, res):
    """One record per call of a replayed history, of the same kinds as the single-call scenarios."""
    out = []
    case = {'kind': 'hist', 'job': job}
    story = ' ; '.join(c['name'] for c in job['hist'])
    for i, (c, g) in enumerate(zip(job['hist'], res)):
        if c['c'] == 'dec':
            rec = {'k': 'dec', 'route': c['route'], 'net': c['net'], 'tok': A(c['tok']), 'got': strip(g)}
            what = ('key %s.. compressed=%s' % (bytes(g['priv']).hex()[:8], g['comp'])) if g['ok'] else 'refused (%s)' % g.get('note')
        elif c['c'] == 'enc':
            rec = {'k': 'enc', 'route': 'Key', 'net': c['net'], 'priv': list(bytes.fromhex(c['priv'])), 'comp': c['comp'],
                   'got': {'ok': g['ok'], 'tok': A(g['tok'])}}
            what = g['tok'] if g['ok'] else 'refused (%s)' % g.get('note')
        else:
            rec = {'k': 'inter', 'lotseq': [c['lot'], c['seq']], 'salt': list(bytes.fromhex(c['salt'])), 'got': {'ok': g['ok'], 'code': A(g['code'])}}
            what = g['code'] if g['ok'] else 'refused (%s)' % g.get('note')
        rec.update(PREC(c['pw']))
        out.append((rec, ('history', i + 1, len(job['hist']), c['name'], job['hist'][i - 1]['name'] if i else None),
                    'call %d of the history [%s] in one process: %s -> %s' % (i + 1, story, c['name'], what), case))
    return out


def run_histories(fut, rng_seed, thorough, replay_job):
    """Set-up of the tokens in one process, then every selected history in its own fresh process."""
    import random as _r
    rng = _r.Random(rng_seed)
    if replay_job:
        jobs = [replay_job]
        setup_recs = []
    else:
        hs = fut.result()
        chosen = hist_select(hs, rng, thorough)
        setup = hist_world(rng)
        sres = run_trace({'setup': setup})['events']
        toks, setup_recs = {}, []
        for name, j in setup.items():
            if j['kind'] == 'ec':
                if not (sres[name]['inter']['ok'] and sres[name]['new'] and sres[name]['new']['ok']):
                    raise common.MachineryError('history set-up: the implementation refused to create %s: %s' % (name, sres[name]))
                toks[name] = sres[name]['tok']
                setup_recs += records_ec(dict(j, decs=[]), sres[name], 0)
            else:
                toks[name] = sres[name]['enc']['tok']
                setup_recs += records_nonec(dict(j, decs=[], tok=None, enc_route='Key', origin='history set-up'), sres[name], 0)
        jobs = [{'hist': hist_concrete(h, setup, toks, n), 'abstract': [list(c) for c in h]} for n, h in enumerate(chosen)]
    with ThreadPoolExecutor(max_workers=6) as tp:
        res = list(tp.map(lambda j: run_trace(j)['events'], jobs))
    return jobs, res, setup_recs


def run(replay=None):
    ck = Check(PID)
    thorough = tier() == 'thorough'
    rng = ck.rng
    ck.rule = ('one case = one call of the implementation (Key/HDKey.encrypt, Key/HDKey(token, password, network), bip38_decrypt, '
               'bip38_intermediate_password, bip38_create_new_encrypted_wif) judged by TLC against Bip38.tla, or one generation '
               'request of a recorded history, one call of a replayed history of calls of Bip38Hist (class = position, call, previous call) '
               'or one request of a replayed behaviour of Bip38Env (Seed / SaveState / RestoreState / fork on the ambient '
               'pseudo-random generators around the requests; class = the behaviour); class = (call kind, route, network, token prefix / compression, relation of the '
               'passphrase to the right one [same, other normal form, wrong], passphrase class [ascii, empty, nfc, non-nfc, astral], '
               'key class, lot/sequence class)')
    ck.assumptions = ['the reference primitives of harness/ref.py (hashlib sha256/ripemd160/scrypt, pure-Python secp256k1 and AES, '
                      'unicodedata NFC) compute the standard functions (self-tested against published vectors at start)',
                      'TLC evaluates Bip38.tla / Bip38Eval.tla correctly; the specification reproduces all nine published BIP38 '
                      'vectors including intermediate and confirmation codes (checked at every run)',
                      'MC_Bip38 uses toy primitives with the algebraic laws of the real ones; collisions of real hashes (2^-32 for the '
                      '4-byte address hash) are outside the model',
                      'well-formed tokens only (corrupted checksums belong to C11); private keys in 1..n-1 (C04)']
    ref.selftest()
    t0 = time.time()
    timing = {}
    bg = ThreadPoolExecutor(max_workers=7)
    fut_model = bg.submit(c15_oracle.model_check_graph, 'MC_Bip38', 'MC_Bip38_thorough.cfg' if thorough else 'MC_Bip38.cfg',
                          ['Encrypt', 'Gen', 'GenerateExplicit', 'DecryptAct'], 16 if thorough else 4)
    fut_jvm = bg.submit(c15_oracle.prepare_jvm, 'Bip38Eval', 'Bip38Eval.cfg')
    fut_envmodel = bg.submit(common.model_check, 'MC_Bip38Env', 'MC_Bip38Env_thorough.cfg' if thorough else 'MC_Bip38Env.cfg',
                             None, 2, 1800, ['Step'])
    fut_behs = bg.submit(env_behaviours)
    fut_histmodel = bg.submit(common.model_check, 'MC_Bip38Hist', 'MC_Bip38Hist_thorough.cfg' if thorough else 'MC_Bip38Hist.cfg',
                              None, 4, 1800, ['Dec', 'Enc', 'Inter'])
    fut_hists = bg.submit(hist_behaviours)

    # ---------------- drive the implementation
    if replay:
        kind, job = replay['case']['kind'], replay['case']['job']
        nonec = [job] if kind == 'nonec' else []
        ec = [job] if kind == 'ec' else []
        traces = [job] if kind == 'trace' else []
        envs = [job] if kind == 'env' else []
        behs = []
        hist_replay = job if kind == 'hist' else None
    else:
        nonec, ec, traces = scenarios(rng, thorough)
        behs = fut_behs.result()
        envs = env_jobs(behs, rng, thorough)
        hist_replay = None
    with ThreadPoolExecutor(max_workers=8) as tp:
        fut_hist = tp.submit(run_histories, fut_hists, rng.getrandbits(64), thorough, hist_replay) if (hist_replay or not replay) else None
        fut_traces = [tp.submit(run_trace, t) for t in traces + envs]
        jobs = [('ec', j) for j in ec] + [('nonec', j) for j in nonec]         # longest jobs first
        results = common.pmap(_drive, jobs, procs=min(common.NCPU, 12)) if jobs else []
        trace_res = [f.result() for f in fut_traces]
        hist_jobs, hist_res, hist_setup_recs = fut_hist.result() if fut_hist else ([], [], [])
    timing['drive_s'] = round(time.time() - t0, 1)
    recs = []
    for ji, ((kind, job), res) in enumerate(zip(jobs, results)):
        recs += records_nonec(job, res, ji) if kind == 'nonec' else records_ec(job, res, ji)
    recs += hist_setup_recs
    for job, res in zip(hist_jobs, hist_res):
        recs += records_hist(job, res)
    env_res = trace_res[len(traces):]
    trace_res = trace_res[:len(traces)]
    for job, tr in zip(envs, env_res):      # replayed behaviours of Bip38Env: environment actions around the real requests
        case = {'kind': 'env', 'job': job}
        for e in tr['events']:
            if e.get('refused'):
                ck.violation(None, 'clause generation-request-refused; %s in %s' % (e['desc'], ' ; '.join(tr['desc'])), case)
        evs = [{k: e[k] for k in ('op', 'explicit', 'arg', 'out', 'code', 'outs')} for e in tr['events'] if not e.get('refused')]
        recs.append(({'k': 'env', 'events': evs}, ('env',) + tuple(job['env']), tr['desc'], case))
    ntrace_events = 0
    for job, tr in zip(traces, trace_res):
        case = {'kind': 'trace', 'job': job}
        refused = [d for d in tr['desc'] if ' RAISED ' in d]
        for d in refused:
            ck.violation(None, 'clause generation-request-refused; %s' % d, case)
        recs.append(({'k': 'trace', 'events': tr['events']}, None, tr['desc'], case))
        ntrace_events += len(tr['events'])
        for n in tr['news']:        # what the generator reported (seed, token, codes, address) must be what the specification builds
            rec = {'k': 'new', 'inter': A(n['inter']), 'comp': n['comp'], 'seed': list(bytes.fromhex(n['seed'])), 'net': n['net'],
                   'got': {'ok': True, 'tok': A(n['got']['tok']), 'conf': A(n['got']['conf']), 'pub': list(bytes.fromhex(n['got']['pub'])),
                           'addr': A(n['got']['addr'])}}
            recs.append((rec, ('new-in-history', n['comp'], n['net']),
                         'bip38_create_new_encrypted_wif(%s, compressed=%s, seed=%s (as reported), network=%s) -> %s' % (
                             n['inter'], n['comp'], n['seed'], n['net'], n['got']['tok']), case))

    # ---------------- the specification against the published vectors (in the background), then the verdicts
    fut_jvm.result()
    vrecs = [{'k': 'vector', 'tok': A(v['tok']), 'pw': A(v['pw']), 'pwbytes': False, 'priv': list(bytes.fromhex(v['priv'])), 'comp': v['comp'],
              'lot': v.get('lot', 0), 'seq': v.get('seq', 0), 'pcode': A(v.get('pcode', '')), 'conf': A(v.get('conf', ''))}
             for v in VECTORS]
    # binding canaries (no implementation involved): observations that MUST be rejected, with the right clause
    v0 = VECTORS[0]
    x24, y24, k32 = list(range(24)), list(range(1, 25)), list(range(32))

    def ev(op, out, arg=None):
        return {'op': op, 'explicit': arg is not None, 'arg': arg or [], 'out': out, 'code': []}
    canaries = [
        ({'k': 'trace', 'events': [ev('key', k32), ev('hdkey', k32 + k32), ev('key', k32)]}, 'entropy-reused', 3, []),
        ({'k': 'trace', 'events': [ev('new', x24, arg=x24), ev('new', y24, arg=x24)]}, 'explicit-entropy-not-honoured', 2, []),
        ({'k': 'trace', 'events': [ev('new', x24), ev('new', y24), ev('new', x24)]}, 'ok', 0, ['generator-entropy-drawn-once-per-process']),
        ({'k': 'trace', 'events': [ev('new', x24), ev('new', y24), ev('new', y24)]}, 'entropy-reused', 3, []),
        ({'k': 'env', 'events': [dict(ev('new', x24), outs=[[1, 2], [3]]), dict(ev('key', k32), outs=[k32]), dict(ev('new', x24), outs=[[5], [6]])]},
         'entropy-reused', 3, []),
        ({'k': 'env', 'events': [dict(ev('new', x24), outs=[[1, 2], [3]]), dict(ev('new', y24), outs=[[7], [3]])]},
         'same-output-for-separate-requests', 2, []),
        ({'k': 'env', 'events': [dict(ev('new', x24, arg=x24), outs=[[1], [3]]), dict(ev('new', x24, arg=x24), outs=[[1], [3]]),
                                 dict(ev('new', y24), outs=[[8], [9]])]}, 'ok', 0, []),
        ({'k': 'dec', 'route': 'Key', 'net': 'bitcoin', 'tok': A(v0['tok']), 'pw': A(v0['pw'] + 'x'), 'pwbytes': False,
          'got': {'ok': True, 'priv': list(bytes.fromhex(v0['priv'])), 'comp': False, 'lot': 0, 'seq': 0}},
         'decrypt-must-fail-but-returned-a-key', 0, []),
        ({'k': 'dec', 'route': 'Key', 'net': 'bitcoin', 'tok': A(v0['tok']), 'pw': A(v0['pw']), 'pwbytes': False,
          'got': {'ok': True, 'priv': list(bytes.fromhex(v0['priv'])), 'comp': True, 'lot': 0, 'seq': 0}}, 'decrypt-wrong-key', 0, []),
        ({'k': 'enc', 'route': 'Key', 'net': 'bitcoin', 'priv': list(bytes.fromhex(v0['priv'])), 'comp': False, 'pw': A(v0['pw']), 'pwbytes': False,
          'got': {'ok': True, 'tok': A(v0['tok'][:-1] + 'h')}}, 'encrypt-token', 0, []),
    ]
    voracle = c15_oracle.Oracle()
    fut_vec = bg.submit(voracle.judge, vrecs + [c[0] for c in canaries])
    oracle = c15_oracle.Oracle()
    uniq, order = {}, []          # identical observations (same call, same answer - e.g. in several histories) are judged once
    for r, _, _, _ in recs:
        k = json.dumps(r, sort_keys=True)
        if k not in uniq:
            uniq[k] = len(order)
            order.append(r)
    uverdicts = oracle.judge(order)
    verdicts = [uverdicts[uniq[json.dumps(r, sort_keys=True)]] for r, _, _, _ in recs]
    ck.notes['records'] = {'observed': len(recs), 'distinct_judged': len(order)}
    timing['judge_s'] = round(time.time() - t0 - timing['drive_s'], 1)

    retry = []          # spec -> code: where the code's token is not the specified one, the specified token is decrypted too
    for (rec, klass, desc, case), o in zip(recs, verdicts):
        if rec['k'] == 'env':
            ck.traces += 1
            ck.case(klass)
            if o['v'] != 'ok':
                ck.violation(None, 'clause env-%s; request %d of the behaviour [%s] handed out entropy / a code / a key / an address that an '
                             'earlier request of this process had handed out' % (o['v'], o['at'], ' ; '.join(desc)), case)
            continue
        if rec['k'] == 'trace':
            ck.traces += 1
            for e in rec['events']:
                ck.case(('history', e['op'], e['explicit']))
            for d in o['devs']:
                ck.violation(d, 'clause history-%s; one process: %s' % (d, '; '.join(desc)), case)
            if o['v'] != 'ok':
                ck.violation(None, 'clause history-%s; request %d of one process: %s' % (o['v'], o['at'], '; '.join(desc)), case)
            continue
        ck.case(klass)
        ck.traces += 1
        if o['v'] != 'ok':
            ck.violation(o['dev'] or None, '%s: clause %s; specification expects %s' % (desc, o['v'], show(o['exp']) or 'an error'), case)
            if rec['k'] == 'enc' and o['exp'] and case['kind'] == 'nonec':
                j = case['job']
                retry.append({'priv': j['priv'], 'comp': j['comp'], 'net': j['net'], 'pw': j['pw'], 'enc_route': None, 'tok': S(o['exp']),
                              'decs': [['Key', j['pw'], j['net']], ['Key', j['pw'] if isinstance(j['pw'], dict) else unicodedata.normalize('NFC', j['pw']), j['net']],
                                       ['Key', wrong_variant(j['pw'], rng), j['net']]], 'origin': 'specification'})
    if retry and not replay:
        retry = retry[:40 if thorough else 4]
        res2 = common.pmap(_drive, [('nonec', j) for j in retry], procs=min(common.NCPU, 12))
        recs2 = []
        for j, r in zip(retry, res2):
            recs2 += records_nonec(j, r, 0)
        for (rec, klass, desc, case), o in zip(recs2, oracle.judge([r for r, _, _, _ in recs2])):
            ck.case(klass + ('spec-token',))
            ck.traces += 1
            if o['v'] != 'ok':
                ck.violation(o['dev'] or None, '%s: clause %s; specification expects %s' % (desc, o['v'], show(o['exp']) or 'an error'), case)
        recs += recs2

    timing['retry_s'] = round(time.time() - t0 - timing['drive_s'] - timing['judge_s'], 1)
    vres = fut_vec.result()
    for v, o in zip(VECTORS, vres):
        if o['v'] != 'ok':
            raise common.MachineryError('Bip38.tla disagrees with published vector %s (%s); specification gives %s' % (
                v['tok'], o['v'], show(o['exp'])))
    for (rec, want, at, devs), o in zip(canaries, vres[len(VECTORS):]):
        if (o['v'], o['at'], list(o['devs'])) != (want, at, devs) or o['dev']:
            raise common.MachineryError('binding canary %s: expected verdict %s at %s %s, TLC answered %s' % (
                json.dumps(rec)[:200], want, at, devs, {k: o[k] for k in ('v', 'dev', 'at', 'devs')}))
    ck.notes['binding_canaries_rejected_as_expected'] = len(canaries)
    ck.model(fut_model.result())
    ck.model(fut_envmodel.result())
    ck.model(fut_histmodel.result())
    bg.shutdown()
    timing['wait_model_s'] = round(time.time() - t0 - timing['drive_s'] - timing['judge_s'] - timing['retry_s'], 1)
    timing['round_s'] = oracle.round_times
    ck.notes['timing'] = timing
    for r, _, d, _ in recs[:2] + recs[len(recs) // 3:len(recs) // 3 + 2] + recs[-3:]:
        ck.sample({'case': d if isinstance(d, str) else d[:4], 'record_kind': r['k']}, limit=8)
    ck.notes['environment'] = {'behaviours_enumerated_by_tlc': len(behs), 'of_which_expose_an_ambient_generator': sum(e for _, e, _ in behs),
                               'replayed': len(envs), 'replayed_exposing': sum(1 for j in envs if tuple(j['env']) in set(b for b, e, _ in behs if e)),
                               'replayed_behaviours': [' '.join(j['env']) for j in envs]}
    ck.notes['histories_of_calls'] = {'replayed': len(hist_jobs), 'calls': sum(len(j['hist']) for j in hist_jobs),
                                      'replayed_histories': [' ; '.join(c['name'] for c in j['hist']) for j in hist_jobs][:40]}
    ck.notes['scenarios'] = {'without_ec_multiplication': len(nonec), 'ec_multiplied': len(ec), 'histories': len(traces),
                             'history_requests': ntrace_events, 'spec_tokens_decrypted_by_code': len(retry)}
    ck.notes['oracle'] = {'question_rounds_max': oracle.rounds, 'tlc_batches': oracle.tlc_runs,
                          'reference_primitive_applications': oracle.applications}
    ck.notes['published_vectors_reproduced_by_spec'] = len(VECTORS)
    return ck.finish()


def _drive(kj):
    kind, job = kj
    return drive_nonec(job) if kind == 'nonec' else drive_ec(job)
