"""C09 helper: multisig wallets (BIP45 / BIP48 paths).  One family = a 2-of-3 wallet holding one private cosigner key
and two account public keys; requests go to the main wallet, the cosigner wallets' key trees are read at the end, and
a second wallet made from the same keys (given in another order) must list the same addresses.
Which key lies where is decided by spec/WalletKeys.tla (FullPath / RelPath with ms = TRUE); script and address of the
multisig keys themselves belong to C10.
"""
import logging
import os
import random
import tempfile

from harness import common, c09


def obs_plain(hk, address=''):
    """Observation of an HDKey object that is not stored in a wallet (an input of the run)."""
    priv = bool(hk.is_private)
    ci = hk.child_index
    P = list(bytes.fromhex(hk.public_hex))
    k = list(bytes.fromhex(hk.private_hex)) if priv else []
    return {'priv': priv, 'k': k, 'P': P, 'c': list(hk.chain), 'depth': int(hk.depth), 'fp': list(hk.parent_fingerprint),
            'idx': list(ci.to_bytes(4, 'big')) if 0 <= ci < 2 ** 32 else [], 'kdb': k, 'Pdb': P, 'addr': c09.codes(address)}


def family(job):
    logging.disable(logging.CRITICAL)
    shm = '/dev/shm' if os.path.isdir('/dev/shm') and os.access('/dev/shm', os.W_OK) else os.environ['BCL_DATA_DIR']
    d = tempfile.mkdtemp(prefix='verif_c09_', dir=shm)
    try:
        return _family(job, d)
    except common.MachineryError:
        raise
    except Exception as e:
        import traceback
        return {'job': job, 'kind': 'multisig', 'traces': [], 'keys': [], 'desc': {}, 'setup_error': None, 'problems': [],
                'fatal': '%r %s' % (e, traceback.format_exc()[-600:])}
    finally:
        import shutil
        shutil.rmtree(d, True)


def _family(job, d):
    from bitcoinlib.wallets import Wallet
    from bitcoinlib.keys import HDKey
    seedn, net, wt, nops = job['seed'], job['net'], job['wt'], job['nops']
    rng = random.Random(seedn)
    name = 'ms%d' % seedn

    def uri(n):
        return 'sqlite:///' + os.path.join(d, n + '.sqlite')
    res = {'job': job, 'kind': 'multisig', 'traces': [], 'keys': [], 'desc': {}, 'setup_error': None, 'problems': [], 'objects': []}
    seeds = [bytes(rng.getrandbits(8) for _ in range(32)) for _ in range(3)]
    hks = [HDKey.from_seed(s, network=net, witness_type=wt, multisig=True) for s in seeds]
    mine = rng.randrange(3)                                  # the cosigner whose private key this wallet holds
    given = [hks[i] if i == mine else hks[i].public_master(witness_type=wt, multisig=True) for i in range(3)]
    snaps = [c09.obj_snapshot(g) for g in given]          # the cosigner key objects are used for two wallets
    order = list(range(3))
    rng.shuffle(order)
    try:
        w = Wallet.create(name, keys=[given[i] for i in order], sigs_required=2, network=net, witness_type=wt, db_uri=uri(name))
    except Exception as e:
        res['setup_error'] = 'Wallet.create(multisig 2-of-3, %s, %s): %r' % (net, wt, e)
        return res
    cfg = {'net': net, 'wt': wt, 'acct': 0, 'ms': True, 'cos': int(w.cosigner_id), 'watch': False, 'kwt': wt}
    for i in range(3):
        res['objects'].append(c09.object_record('Wallet.create(keys=[cosigner key objects], sigs_required=2, witness_type=%s)' % wt, snaps[i], given[i]))
    drv = c09.Driver(w, name, uri(name), cfg, rng)
    drv.gentle = bool(job.get('gentle'))
    drv.ooo = bool(job.get('ooo'))
    for i in range(nops):
        drv.step(drv.pick_ms(), rng.randrange(0, 420))
    w = drv.w
    # a second wallet from the same keys, given in another order: same cosigner position, same addresses
    restored = []
    leafs = [c09.row_of(k) for k in w.keys() if k.depth == w.key_depth]
    try:
        order2 = order[::-1]
        w2 = Wallet.create(name + 'r', keys=[given[i] for i in order2], sigs_required=2, network=net, witness_type=wt, db_uri=uri(name + 'r'))
        for (n_, t_, acct, ch), top in c09.chain_tops(leafs):
            for i in range(top + 1):
                w2.key_for_path([], change=ch, address_index=i)
        restored.append({'kind': 'multisig', 'net': net, 'wt': wt, 'acct': 0, 'keys': c09.restored_rows(w2)})
        for i in range(3):
            res['objects'].append(c09.object_record('two multisig wallets made from it and their histories', snaps[i], given[i]))
    except Exception as e:
        res['problems'].append('second wallet from the same cosigner keys raised %r' % e)
    rows, _ = c09.table_of(name, uri(name), material=False)
    trace = {'k': 'trace', 'cfg': cfg, 'events': drv.events, 'keys': rows, 'restored': restored, 'cotrees': []}
    res['traces'].append(trace)
    res['desc']['full'] = drv.desc
    # the cosigner wallets: every one holds the key of every position at the documented path
    wf = Wallet(name, db_uri=uri(name))
    cos = [(int(c.cosigner_id), c.name, bool(c.main_key.is_private)) for c in wf.cosigner]
    byp = {bytes.fromhex(g.public_hex): g for g in given}
    try:
        wf.session.close()
    except Exception:
        pass
    for cid, cname, priv in cos:
        crows, cobs = c09.table_of(cname, uri(name))
        trace['cotrees'].append({'watch': not priv, 'keys': crows})
        rootrow = [r for r in crows if r['parent'] == 0][0]
        if priv:
            root = {'root': 'seed', 'seed': list(seeds[mine])}
        else:
            g = byp.get(bytes(cobs[rootrow['id']]['P']))
            if g is None:
                res['problems'].append('cosigner wallet %d holds an account key that was not given to the wallet' % cid)
                continue
            root = {'root': 'pub', 'parent': obs_plain(g)}
        res['keys'] += [dict(x, wallet='cosigner', exported=False, noaddr=True) for x in
                        c09.key_records(crows, cobs, root, rng, job.get('nleaf'))]
    res['material'] = {'kind': 'multisig', 'own_cosigner': cfg['cos']}
    return res
