"""C02, hash types: verification is sound and complete for witness signatures of EVERY hash type.

A signature made over the digest of hash type ht (the digest itself is C01's subject and is taken from the library here) is
put into a serialized transaction; the parsed transaction must verify (completeness), and after one field is tampered with it
must verify exactly when SigHash!CommitsHT says a signature of that hash type does not commit to the field (soundness - a
signature that commits to the output must not survive a change of the output - and no over-rejection).  The table comes
from TLC (SigHashCommitsEval); MC_SigHash proves it exact for the specification's digest."""
import random

from harness import common, ref

HTS = [1, 2, 3, 0x81, 0x82, 0x83]
FIELDS = ['out.same', 'out.other', 'own.seq', 'own.amount', 'other.seq', 'other.outpoint']


def sig_over(priv, z_bytes, ht):
    """strict-DER, low-S signature of the reference implementation over digest z, with hash type byte ht"""
    from harness.c19 import der_sig
    return der_sig(priv, z_bytes)[:-1] + bytes([ht])


def cases(job):
    seed, n = job
    rng = random.Random(seed)
    from bitcoinlib.transactions import Transaction
    from bitcoinlib.keys import Key
    out = []
    for c in range(n):
        net = rng.choice(['bitcoin', 'testnet', 'litecoin'])
        wts = [rng.choice(['segwit', 'p2sh-segwit']) for _ in range(2)]
        privs = [rng.randrange(1, ref.N) for _ in range(2)]
        vals = [rng.choice([100000, 2 ** 32 + 5]) for _ in range(2)]
        t = Transaction(network=net, witness_type='segwit')
        for j in range(2):
            t.add_input(prev_txid=bytes([0x31 + j, c % 251]) * 16, output_n=j, keys=Key(privs[j], network=net).public(), value=vals[j],
                        witness_type=wts[j], sequence=rng.choice([0xffffffff, 0xfffffffd, 7]))
        nout = rng.choice([2, 2, 3])
        for j in range(nout):
            t.add_output(20000 + j, Key(rng.randrange(1, ref.N), network=net).address())
        for j in range(2):
            t.sign([Key(privs[j], network=net)], index_n=j)
        raw = t.raw()

        def fresh(rawx):
            x = Transaction.parse(rawx, strict=False, network=net)
            for j in range(2):
                x.inputs[j].value = vals[j]
            return x
        base = fresh(raw)
        olds = [base.inputs[j].signatures[0].as_der_encoded() for j in range(2)]
        for n_ in range(2):
            o = 1 - n_
            for ht in HTS:
                rec = {'net': net, 'wts': wts, 'n': n_, 'ht': ht, 'nout': nout, 'seed': seed, 'c': c, 'results': {}, 'error': None}
                try:
                    z = base.signature_hash(n_, ht, witness_type=base.inputs[n_].witness_type)
                    zo = base.signature_hash(o, 0x82, witness_type=base.inputs[o].witness_type)
                    new = sig_over(privs[n_], z, ht)
                    newo = sig_over(privs[o], zo, 0x82)
                    raw3 = raw.replace(bytes([len(olds[n_])]) + olds[n_], bytes([len(new)]) + new, 1)
                    raw3 = raw3.replace(bytes([len(olds[o])]) + olds[o], bytes([len(newo)]) + newo, 1)
                    if raw3.count(new) != 1 or raw3.count(newo) != 1:
                        rec['error'] = 'harness: signature substitution failed'
                        out.append(rec)
                        continue
                    rec['results']['untouched'] = bool(fresh(raw3).verify())
                    for f in FIELDS:
                        x = fresh(raw3)
                        whole = True
                        if f == 'out.same':
                            x.outputs[n_].value += 1
                        elif f == 'out.other':
                            x.outputs[(n_ + 1) % nout].value += 1
                        elif f == 'own.seq':
                            x.inputs[n_].sequence ^= 1
                        elif f == 'own.amount':
                            x.inputs[n_].value += 1
                        elif f == 'other.seq':
                            x.inputs[o].sequence ^= 1
                            whole = False
                        elif f == 'other.outpoint':
                            x.inputs[o].output_n = (x.inputs[o].output_n_int + 1).to_bytes(4, 'big')
                            x.inputs[o].output_n_int += 1
                            whole = False
                        if whole:
                            # the other input's signature (NONE|ANYONECANPAY) commits to none of these fields
                            rec['results'][f] = bool(x.verify())
                        else:
                            # the other input's own signature commits to its outpoint and sequence: input n is judged alone
                            inp = x.inputs[n_]
                            rec['results'][f] = bool(inp.verify(x.signature_hash(n_, inp.hash_type, inp.witness_type)))
                except Exception as e:
                    rec['error'] = repr(e)[:200]
                out.append(rec)
    return out


def run_section(ck, thorough, replay=None):
    table = common.tlc_eval('SigHashCommitsEval', [{'hts': HTS}])[0]['table']
    commits = {f: {ht: bool(table[f][i]) for i, ht in enumerate(HTS)} for f in FIELDS}
    # the table must discriminate (vacuity): some field is committed by one hash type and not by another
    if not any(len(set(commits[f].values())) == 2 for f in FIELDS):
        raise common.MachineryError('SigHash!CommitsHT does not distinguish the hash types')
    if replay:
        jobs = [(replay['case']['ht_case']['seed'], replay['case']['ht_case']['c'] + 1)]
    else:
        jobs = [(common.seed() * 100 + k, 10 if thorough else 2) for k in range(16)]
    for job, recs in zip(jobs, common.pmap(cases, jobs)):
        for r in recs:
            if replay and r['c'] != replay['case']['ht_case']['c']:
                continue
            where = 'witness input %d of %s on %s (%d outputs), signature with hash type 0x%02x over the digest of that type' % (
                r['n'], r['wts'], r['net'], r['nout'], r['ht'])
            case = {'ht_case': {'seed': r['seed'], 'c': r['c']}}
            ck.traces += 1
            if r['error']:
                if r['error'].startswith('harness'):
                    raise common.MachineryError(r['error'])
                ck.violation(None, 'clause hash-type-raised; %s: %s' % (where, r['error']), case)
                continue
            ck.case(('hash-type', r['ht'], tuple(r['wts']), 'untouched', r['results']['untouched']))
            if not r['results']['untouched']:
                ck.violation(None, 'clause correctly-signed-does-not-verify; %s: verify() = False' % where, case)
                continue
            for f in FIELDS:
                exp = not commits[f][r['ht']]
                got = r['results'][f]
                ck.count()
                ck.case(('hash-type', r['ht'], f, got))
                if got and not exp:
                    ck.violation(None, 'clause verified-although-a-committed-field-changed; %s: still verifies after %s was changed '
                                 '(SigHash!CommitsHT: committed)' % (where, f), case)
                elif exp and not got:
                    ck.violation(None, 'clause valid-signature-rejected; %s: no longer verifies after %s was changed, to which a signature '
                                 'of this hash type does not commit' % (where, f), case)
    ck.notes['hash_type_commitment_table'] = {f: {'0x%02x' % h: v for h, v in commits[f].items()} for f in FIELDS}
