"""C14 - BIP39 mnemonic sentences (every bundled word list) against spec/Bip39.tla.

(M) MC_Bip39: bounded model of the sentence codec for an ARBITRARY hash (round trip, full length with leading zeros,
    checksum = low bits of the last word, substitutions never keep the payload, accepted <=> image of the encoder).
(G) Bip39Eval gen_*: TLC computes the expected word indices of every entropy, the payload of every (substituted)
    sentence and the byte strings PBKDF2 / HMAC are applied to; harness/ref.py applies SHA-256, PBKDF2, HMAC, NFKD.
(V) Bip39Eval: what Mnemonic.to_mnemonic / to_entropy / to_seed / generate and HDKey.from_passphrase answered is
    judged by TLC (sentences built from the SPEC's indices are fed to the decoders, so the two directions are
    independent).  Word lists enter as index <-> word tables read from the bundled files, whose SHA-256 must equal the
    digest pinned in the specification; English is checked against the Trezor vectors pinned in the specification.
"""
import glob
import os
import time

from harness import common, ref
from harness.common import Check, tier

PID = 'C14'
LENS = (16, 20, 24, 28, 32)
IDEO = '\u3000'


def cps(s):
    return [ord(c) for c in s]


def load_tables():
    """index <-> word tables of the bundled lists (transport only; authenticity is decided by TLC via the digest)."""
    d = os.path.join(common.REPO, 'bitcoinlib', 'wordlist')
    tables = {}
    for fn in sorted(glob.glob(os.path.join(d, '*.txt'))):
        lang = os.path.basename(fn)[:-4]
        raw = open(fn, 'rb').read()
        try:
            text = raw.decode('utf8')
        except UnicodeDecodeError:
            text = raw.decode('utf8', 'replace')
        words = [w.strip() for w in text.split('\n')]
        while words and words[-1] == '':
            words.pop()
        index = {}
        for i, w in enumerate(words):
            index.setdefault(w, i)
        tables[lang] = {'words': words, 'index': index, 'digest': ref.sha256(raw).hex(),
                        'nfkd': all(ref.nfkd(w) == w for w in words)}
    return tables


# ------------------------------------------------------------------------------------------------ driver (workers)

def _drive(job):
    """Run a list of calls against bitcoinlib; any exception = refused."""
    from bitcoinlib.mnemonic import Mnemonic
    from bitcoinlib.keys import HDKey
    out = []
    for c in job:
        r = {'refused': False, 'text': '', 'got': '', 'err': ''}
        try:
            if c['op'] == 'enc':
                arg = bytes.fromhex(c['ent']) if c['form'] == 'bytes' else c['ent']
                m = Mnemonic(c['lang'])
                s = m.to_mnemonic(arg) if c['cc'] else m.to_mnemonic(arg, check_on_curve=False)
                r['text'] = s if isinstance(s, str) else '<%r>' % (s,)
            elif c['op'] == 'dec':
                e = Mnemonic(c['lang']).to_entropy(c['text'])
                r['got'] = bytes(e).hex()
            elif c['op'] == 'seed':
                if c['api'] == 'to_seed':
                    sd = Mnemonic(c['lang']).to_seed(c['text'], c['praw']) if c['praw'] is not None else \
                        Mnemonic(c['lang']).to_seed(c['text'])
                    r['got'] = bytes(sd).hex()
                else:
                    k = HDKey.from_passphrase(c['text'], c['praw']) if c['praw'] is not None else \
                        HDKey.from_passphrase(c['text'])
                    r['got'] = (bytes(k.private_byte) + bytes(k.chain)).hex()
            elif c['op'] == 'generated':
                s = Mnemonic(c['lang']).generate(c['strength'])
                r['text'] = s if isinstance(s, str) else '<%r>' % (s,)
        except Exception as e:       # noqa - refusal, whatever the type
            r['refused'] = True
            r['err'] = repr(e)[:120]
        out.append(r)
    return out


# ------------------------------------------------------------------------------------------------ inputs

def patterns(L, rng):
    """Entropy patterns of L bytes: name -> bytes (input generator only)."""
    nb = 8 * L
    p = {
        'zero': bytes(L), 'ones': b'\xff' * L, 'lzbyte1': b'\x00' + b'\xff' * (L - 1),
        'lzbyte2': b'\x00\x00' + b'\x01' * (L - 2), 'lzbyte5': bytes(5) + b'\x9c' * (L - 5),
        'highbit': b'\x80' + bytes(L - 1), 'lowbit': bytes(L - 1) + b'\x01', 'aa': b'\xaa' * L, '55': b'\x55' * L,
        '7f': b'\x7f' * L, '80': b'\x80' * L, 'trailzero': b'\xff' * (L - 3) + bytes(3),
        'count': bytes((37 * i + L) % 256 for i in range(L)),
    }
    for k in (1, 7, 9, 10, 11, 12, 21, 22, 23, 33, 44):       # exactly k leading zero bits (inside / across words)
        p['lzbits%d' % k] = ((1 << (nb - k)) - 1).to_bytes(L, 'big')
    for j in range(3):
        p['rand%d' % j] = bytes(rng.randrange(256) for _ in range(L))
    if L == 32:
        p['n-1'] = (ref.N - 1).to_bytes(32, 'big')
        p['n'] = ref.N.to_bytes(32, 'big')
        p['n+1'] = (ref.N + 1).to_bytes(32, 'big')
    return p


HEXLIKE = [b'0000000000000000', b'1234567890abcdef', b'ABCDEF0123456789', b'0' * 20, b'deadbeefdeadbeefdead',
           b'a' * 24, b'1' * 28, b'a' * 32, b'0' * 32, b'f' * 32, b'00000000000000000000000000000001']

PASSES = ['', 'TREZOR', 'p\u00e4ssw\u00f6rd', 'pa\u0308sswo\u0308rd', '\uff34\uff32\uff25\uff3a\uff2f\uff32', 'a\u3000b',
          '\u334d\u30ac\u30d0\u30f4\u30a1\u3071\u3070\u3050\u309e\u3061\u3062\u5341\u4eba\u5341\u8272',
          '\ufb01\u212b\u01c6', 'correct horse \U0001f600', '\u00c5ngstr\u00f6m\u2460']
# (none, ASCII, NFC, NFKD, full-width, ideographic space, the kana passphrase of the Trezor Japanese vectors,
#  ligature / Angstrom sign / digraph, emoji (4-byte UTF-8), precomposed + circled digit)


WS = [' ', '\t', '\n', '\r\n', '\u00a0', '\u3000', '\u2003', '\u200b']
# (space, tab, newline, CR LF, no-break space, ideographic space, em space, zero width space)
SFORMS = ('nfc', 'ideo', 'nfc+ideo', 'nbsp', 'fullw')     # texts whose NFKD form is the sentence


def pass_family(rng, nrandom):
    """Passphrases as users type them: (kind, text).  BIP39: the salt is "mnemonic" + UTF-8(NFKD(passphrase)) -
    nothing trimmed, folded or collapsed."""
    fam = []
    c = 'hunter2'
    for i, ws in enumerate(WS):
        fam += [('ws-lead%d' % i, ws + c), ('ws-trail%d' % i, c + ws), ('ws-both%d' % i, ws + c + ws),
                ('ws-inner%d' % i, 'hun' + ws + 'ter2'), ('ws-only%d' % i, ws), ('ws-only-two%d' % i, ws + ws)]
    fam += [('ws-trail-two', c + '  '), ('ws-inner-two', 'hun  ter2'), ('ws-lead-mixed', ' \t\n' + c),
            ('ws-trail-mixed', c + ' \u3000\n'), ('ws-unicode-lead', '\u3000\u79d8\u5bc6'),
            ('ws-after-nfkd-lead', '\u00a8abc'), ('ws-after-nfkd-trail', 'abc\u00b4'), ('ws-after-nfkd-only', '\u2017')]
    fam += [('case', x) for x in ('Password', 'password', 'PASSWORD', 'pASSWORD', '\u01c5', '\u00df', 'SS', '\u0130i', '\u03a3\u03c3\u03c2')]
    fam += [('combining', x) for x in ('e\u0301', '\u00e9', '\u1e9b\u0323', 'q\u0307\u0323', 'q\u0323\u0307', '\ud55c\uae00',
                                       '\u1112\u1161\u11ab', 'a\u0308\u0301\u0328', '\u0301lone')]
    fam += [('compat', x) for x in ('\u3300', '\u00bd', '\ufb03', 'x\u00b2', '\u2167', '\u2126', '\uff76\uff9e', '\u2460', '\u2122',
                                    '\u1d2e', '\ufdfa', '\u2002a\u2003b')]
    fam += [('long', 'a' * 129), ('long', 'correct horse battery staple ' * 10), ('long', '\u00e9' * 300),
            ('long', ''.join(chr(rng.choice([rng.randrange(33, 127), rng.randrange(0xa1, 0x250), rng.randrange(0x3041, 0x3097)]))
                             for _ in range(1000)))]
    alphabet = 'abcXYZ019 \t\n\u00a0\u3000\u00e9e\u0301\uff21\u212b\ufb01\u01c5\U0001f600\u00a8-_'
    for _ in range(nrandom):
        fam.append(('random', ''.join(rng.choice(alphabet) for _ in range(rng.randrange(1, 13)))))
    return fam


def build_ops(tables, rng, thorough):
    langs = sorted(tables)
    ops = []

    def add(**kw):
        ops.append(kw)

    for li, lang in enumerate(langs):
        for L in LENS:
            for name, ent in patterns(L, rng).items():
                for cc in (False, True):
                    add(op='enc', lang=lang, ent=ent.hex(), cc=cc, form='bytes', pat=name)
                if name in ('zero', 'lzbyte1', 'rand0', 'ones'):
                    add(op='enc', lang=lang, ent=ent.hex(), cc=False, form='hex', pat=name)
                add(op='dec', lang=lang, ent=ent.hex(), pos=0, w=0, sform='nfkd', pat=name)
            # every single-bit entropy (slicing: each bit lands in the right word)
            for b in range(8 * L):
                if thorough or (b + L // 4) % len(langs) == li:
                    ent = (1 << b).to_bytes(L, 'big')
                    add(op='enc', lang=lang, ent=ent.hex(), cc=False, form='bytes', pat='bit')
                    if thorough or b % 2 == L // 4 % 2:
                        add(op='dec', lang=lang, ent=ent.hex(), pos=0, w=0, sform='nfkd', pat='bit')
    for lang in (langs if thorough else [l for l in langs if l in ('english', 'japanese')] or langs[:1]):
        for ent in HEXLIKE:
            for cc in (False, True):
                add(op='enc', lang=lang, ent=ent.hex(), cc=cc, form='bytes', pat='hexlike')
    # sentence texts that ARE the sentence after NFKD (NFC, ideographic / no-break space between the words, full-width letters)
    for li, lang in enumerate(langs):
        for L in ((16, 32) if thorough else (LENS[li % len(LENS)],)):
            ent = bytes(rng.randrange(256) for _ in range(L))
            for sform in SFORMS:
                add(op='dec', lang=lang, ent=ent.hex(), pos=0, w=0, sform=sform, pat='form')

    # ---- single-word substitutions
    base = {}
    for lang in langs:
        for L in LENS:
            base[(lang, L)] = bytes(rng.randrange(256) for _ in range(L)).hex()
    nw = {L: (8 * L + L // 4) // 11 for L in LENS}
    full = []          # (lang, L, pos): all 2047 substitutions
    if thorough:
        full += [('english' if 'english' in tables else langs[0], 16, p) for p in range(1, 13)]
        l24 = langs[rng.randrange(len(langs))]
        full += [(l24, 32, p) for p in range(1 + rng.randrange(3), 25, 3)]
        full += [(lang, L, nw[L]) for lang in langs for L in LENS]
    else:
        e = 'english' if 'english' in tables else langs[0]
        r1 = langs[rng.randrange(len(langs))]
        L1 = LENS[rng.randrange(len(LENS))]
        # last word of a 12-word sentence (127 other words carry a matching checksum) + one random position elsewhere
        full += [(e, 16, 12)]
        p1 = rng.randrange(1, nw[L1])
        for w in rng.sample(range(2048), 512):
            add(op='dec', lang=r1, ent=base[(r1, L1)], pos=p1, w=w, sform='nfkd', pat='subst-all')
    for lang, L, pos in sorted(set(full)):
        for w in range(2048):
            add(op='dec', lang=lang, ent=base[(lang, L)], pos=pos, w=w, sform='nfkd', pat='subst-all')   # w = original: the unchanged sentence
    for lang in langs:
        for L in LENS:
            for _ in range(120 if thorough else 12):
                add(op='dec', lang=lang, ent=base[(lang, L)], pos=rng.randrange(1, nw[L] + 1), w=rng.randrange(2048),
                    sform='nfkd', pat='subst-rand')
            for pos in range(1, nw[L] + 1):
                if not thorough and (pos + L // 4 + langs.index(lang)) % 2:
                    continue
                for flip in (1, 1024) + ((2, 32, 512) if thorough else ()):
                    add(op='dec', lang=lang, ent=base[(lang, L)], pos=pos, w=-flip, sform='nfkd', pat='subst-flip')  # w<0: xor
    # ---- words outside the list
    for li, lang in enumerate(langs):
        other = tables[langs[(li + 1) % len(langs)]]['words']
        foreign = [w for w in other if w not in tables[lang]['index']]
        for L in LENS:
            aliens = ['xyzzy', '#cap', '#cut', foreign[rng.randrange(len(foreign))] if foreign else 'qqq']
            for a in aliens:
                add(op='dec', lang=lang, ent=base[(lang, L)], pos=rng.randrange(1, nw[L] + 1), alien=a, sform='nfkd', pat='alien')
            # a sentence that stays valid if the unknown word were read as word 0 / word 2047
            add(op='dec', lang=lang, ent=bytes(L).hex(), pos=rng.randrange(1, nw[L]), alien='xyzzy', sform='nfkd', pat='alien0')
            add(op='dec', lang=lang, ent=(b'\xff' * L).hex(), pos=rng.randrange(1, nw[L]), alien='xyzzy', sform='nfkd', pat='alien0')

    # ---- seeds
    fam = pass_family(rng, 60 if thorough else 24)
    e = 'english' if 'english' in tables else langs[0]
    for li, lang in enumerate(langs):
        for L in (LENS if thorough else (LENS[(li + 2) % len(LENS)],)):
            ent = base[(lang, L)]
            for api in ('to_seed', 'from_passphrase'):
                for pi, pw in enumerate(PASSES):
                    add(op='seed', api=api, lang=lang, ent=ent, pos=0, w=0, sform='nfkd', praw=pw, pat='pass%d' % pi)
                add(op='seed', api=api, lang=lang, ent=ent, pos=0, w=0, sform='nfkd', praw=None, pat='nopass')
                # the whole passphrase family on the English list (and on all lists: thorough), a rotating part elsewhere
                part = fam if (lang == e and L == (LENS if thorough else (LENS[(li + 2) % len(LENS)],))[0]) or thorough \
                    else [fam[i] for i in range(li % 7, len(fam), 7)]
                for kind, pw in part:
                    add(op='seed', api=api, lang=lang, ent=ent, pos=0, w=0, sform='nfkd', praw=pw, pat=kind)
                for si, sform in enumerate(SFORMS):
                    for pi in ((0, 1, 2, 6) if thorough else ((li + si) % len(PASSES),)):
                        add(op='seed', api=api, lang=lang, ent=ent, pos=0, w=0, sform=sform, praw=PASSES[pi], pat='form-' + sform)
                # invalid sentences must not yield a seed (validation is the default)
                add(op='seed', api=api, lang=lang, ent=ent, pos=nw[L], w=-1, sform='nfkd', praw='TREZOR', pat='badcs')
                add(op='seed', api=api, lang=lang, ent=ent, pos=1 + li % nw[L], alien='xyzzy', sform='nfkd', praw='', pat='alien')
    # ---- generate()
    for lang in langs:
        for strength in (128, 160, 192, 224, 256):
            for _ in range(3 if thorough else 1):
                add(op='generated', lang=lang, strength=strength, pat='gen')
    return ops


def sentence_words(op, idx, tables):
    """Words and list positions of the sentence an op feeds to the library: the words at the spec's indices (first and
    last word of a list as pinned in the spec, the others from the bundled file), one word substituted."""
    t = tables[op['lang']]
    idx = list(idx)
    pos = op.get('pos', 0)
    if pos and 'alien' not in op:
        idx[pos - 1] = op['w'] if op['w'] >= 0 else idx[pos - 1] ^ (-op['w'])
    words = [t['sw'][i] for i in idx]
    if pos and 'alien' in op:
        a = op['alien']
        if a == '#cap':
            a = words[pos - 1][:1].upper() + words[pos - 1][1:]
            if a == words[pos - 1]:
                a = words[pos - 1] + 'x'
        elif a == '#cut':
            a = words[pos - 1][:-1] or 'x'
        words[pos - 1] = a
        idx[pos - 1] = t['sindex'].get(ref.nfkd(a), -1)
    return words, idx


def sentence_text(op, idx, tables):
    """... as text, in the form the op asks for (input generator)."""
    words, idx = sentence_words(op, idx, tables)
    text = ' '.join(words)
    sf = op.get('sform', 'nfkd')
    if 'nfc' in sf:
        text = ref.nfc(text)
    if 'ideo' in sf:
        text = text.replace(' ', IDEO)
    if 'nbsp' in sf:
        text = text.replace(' ', '\u00a0')
    if 'fullw' in sf:
        text = ''.join(chr(ord(ch) + 0xfee0) if 'a' <= ch <= 'z' else ch for ch in text)
    return text, idx


def tokens(text, t):
    """Abstraction of a sentence text: list positions of the space separated words of its NFKD form (-1 = not in list)."""
    return [t['sindex'].get(w, -1) for w in ref.nfkd(text).split(' ')]


def lenclass(n):
    return n


# ------------------------------------------------------------------------------------------------ the check

def run(replay=None):
    common.fresh_bitcoinlib_env()
    ref.selftest()
    ck = Check(PID)
    thorough = tier() == 'thorough'
    rng = ck.rng
    ck.rule = ('a case = one call of to_mnemonic / to_entropy / to_seed / from_passphrase / generate judged by TLC; class = '
               '(call, language, entropy length, entropy pattern or substitution kind / passphrase kind, flag); entropy '
               'patterns: zero, ones, 1/2/5 leading zero bytes, 1..44 leading zero bits, every single bit, alternating, '
               'n-1/n/n+1, random, bytes spelling hex; substitutions: all 2047 words at chosen positions, random, bit flips, '
               'words outside the list; sentence texts: NFKD, NFC, ideographic / no-break space, full-width letters; passphrases: none, ASCII, '
               'NFC, NFKD, full-width, kana, ligatures, emoji, leading / trailing / inner / only white space of 8 kinds (also white '
               'space that only NFKD produces), upper / lower case, combining sequences in both orders, Hangul, compatibility '
               'characters, long (129..1000 characters), random; word lists: 2048 letter-only NFKD words, pinned first / last word, '
               'order, digest')
    ck.assumptions = ['TLC evaluates Bip39.tla correctly', 'SHA-256, HMAC-SHA512, PBKDF2 of hashlib (OpenSSL) and NFKD/NFC of '
                      'unicodedata are the primitives (ref.py, self-tested against published vectors)',
                      'word lists other than English are pinned by digest to the bundled files of the pinned snapshot '
                      '(no independent copy available offline); English digest + Trezor vectors are independent',
                      'word counts outside 12..24 and sentences with irregular white space are outside C14']
    # ---------------- (M)
    ck.model(common.model_check('MC_Bip39', 'MC_Bip39_thorough.cfg' if thorough else 'MC_Bip39.cfg',
                                expect_actions=['Encode', 'Substitute']))

    timing = {'model': round(time.time() - ck.t0, 1)}
    tables = load_tables()
    if replay:
        ops = [dict(replay['case']['op'])]
    else:
        ops = build_ops(tables, rng, thorough)
    ops = [o for o in ops if o['lang'] in tables]

    # ---------------- (G) stage 1: expected indices of every entropy
    ents = sorted({o['ent'] for o in ops if 'ent' in o})
    a1 = [{'k': 'gen_vectors'}, {'k': 'gen_facts'}] + [{'k': 'gen_enc', 'ent': list(bytes.fromhex(e)), 'h': [ref.sha256(bytes.fromhex(e))[0]]}
                                   for e in ents]
    tm = time.time()
    g1 = common.tlc_eval('Bip39Eval', a1, procs=2 if len(a1) < 4000 else common.NCPU)
    timing['gen1'] = round(time.time() - tm, 1)
    vectors = g1[0]['exp']
    facts = g1[1]['exp']
    exp_idx = {e: g['exp']['idx'] for e, g in zip(ents, g1[2:])}
    unhex = {e: bytes(g['exp']['unhex']) for e, g in zip(ents, g1[2:])}
    # the words the specification speaks of: the bundled list, its first and last word as pinned in the spec
    for lang, t in tables.items():
        sw = (t['words'] + ['\u2047missing'] * 2048)[:2048]
        if lang in facts:
            sw[0] = ''.join(map(chr, facts[lang]['first']))
            sw[2047] = ''.join(map(chr, facts[lang]['last']))
        t['sw'] = sw
        t['sindex'] = dict(t['index'])
        for i in (2047, 0):
            t['sindex'][sw[i]] = i

    # ---------------- drive bitcoinlib
    calls = []
    for o in ops:
        c = {'op': o['op'], 'lang': o['lang']}
        if o['op'] == 'enc':
            c.update(ent=o['ent'], cc=o['cc'], form=o['form'])
        elif o['op'] in ('dec', 'seed'):
            o['text'], o['idx'] = sentence_text(o, exp_idx[o['ent']], tables)
            c['text'] = o['text']
            if o['op'] == 'seed':
                c.update(api=o['api'], praw=o['praw'])
        else:
            c['strength'] = o['strength']
        calls.append(c)
    nchunks = max(1, min(len(calls), 8 * common.NCPU))
    tm = time.time()
    res_chunks = common.pmap(_drive, [calls[i::nchunks] for i in range(nchunks)])
    timing['drive'] = round(time.time() - tm, 1)
    results = [None] * len(calls)
    for i, rc in enumerate(res_chunks):
        for j, r in enumerate(rc):
            results[i + j * nchunks] = r

    # ---------------- (G) stage 2: payload of every sentence fed / returned, KDF terms, deviation predictions
    for o, r in zip(ops, results):
        t = tables[o['lang']]
        if o['op'] == 'generated':
            o['idx'] = tokens(r['text'], t) if not r['refused'] else []
    idxs = sorted({tuple(o['idx']) for o in ops if 'idx' in o})
    en = tables.get('english')
    v1text = ' '.join(vectors[0]['words'])
    seed_ops = [o for o in ops if o['op'] == 'seed']
    uh = sorted({u for u in unhex.values() if u and len(u) % 4 == 0})
    a2 = ([{'k': 'gen_dec', 'idx': list(i)} for i in idxs] +
          [{'k': 'gen_seed', 's': cps(ref.nfkd(v1text)), 'p': cps(ref.nfkd('TREZOR')), 'praw': cps('TREZOR')}] +
          [{'k': 'gen_seed', 's': cps(ref.nfkd(o['text'])), 'p': cps(ref.nfkd(o['praw'] or '')), 'praw': cps(o['praw'] or '')}
           for o in seed_ops] +
          [{'k': 'gen_enc', 'ent': list(u), 'h': [ref.sha256(u)[0]]} for u in uh])
    tm = time.time()
    g2 = common.tlc_eval('Bip39Eval', a2, procs=6 if len(a2) < 20000 else common.NCPU)
    timing['gen2'] = round(time.time() - tm, 1)
    payload = {i: bytes(g['exp']['ent']) for i, g in zip(idxs, g2[:len(idxs)])}
    hd = {i: [ref.sha256(p)[0]] if p else [0] for i, p in payload.items()}
    kdf_cache = {}

    def kdf(term):
        if term['prim'] != 'pbkdf2-hmac-sha512':
            raise common.MachineryError('unknown primitive %r' % term['prim'])
        key = (bytes(term['pw']), bytes(term['salt']), term['iters'], term['dklen'])
        if key not in kdf_cache:
            kdf_cache[key] = ref.pbkdf2_sha512(*key)
        return kdf_cache[key]

    gs = g2[len(idxs):len(idxs) + 1 + len(seed_ops)]
    selftest_seed = kdf(gs[0]['exp']['term'])
    for o, g in zip(seed_ops, gs[1:]):
        o['exp'] = kdf(g['exp']['term'])
        o['devexp'] = kdf(g['exp']['dev'])
        mk = bytes(g['exp']['mkey'])
        o['I'] = ref.hmac512(mk, o['exp'])
        o['devI'] = ref.hmac512(mk, o['devexp'])
    dev_idx = {u: g['exp']['idx'] for u, g in zip(uh, g2[len(idxs) + 1 + len(seed_ops):])}

    # ---------------- (V) judge
    recs = []      # (record, class, description, op)

    def words_cps(t, idx):
        return [cps(t['sw'][i]) for i in idx]

    if not replay:
        for lang, t in sorted(tables.items()):
            recs.append(({'k': 'table', 'lang': lang, 'digest': t['digest'], 'words': [cps(w) for w in t['words']],
                          'nfkd': [cps(ref.nfkd(w)) for w in t['words']]}, ('table', lang), 'word list %s' % lang, None))
        for i, v in enumerate(vectors):
            e = bytes(v['ent'])
            recs.append(({'k': 'vector', 'i': i + 1, 'h': [ref.sha256(e)[0]],
                          'widx': [en['sindex'].get(w, -1) for w in v['words']] if en else []},
                         ('vector', i), 'Trezor vector %d (%s)' % (i + 1, e.hex()), None))
        recs.append(({'k': 'selftest', 'seed': list(selftest_seed)}, ('selftest',), 'term evaluator self test', None))
    for o, r in zip(ops, results):
        t = tables[o['lang']]
        lang = o['lang']
        if o['op'] == 'enc':
            e = bytes.fromhex(o['ent'])
            u = unhex[o['ent']]
            di = dev_idx.get(u, [])
            rec = {'k': 'enc', 'lang': lang, 'ent': list(e), 'h': [ref.sha256(e)[0]], 'curvecheck': o['cc'],
                   'refused': r['refused'], 'got': cps(r['text']), 'gotidx': tokens(r['text'], t) if not r['refused'] else [],
                   'widx': exp_idx[o['ent']], 'words': words_cps(t, exp_idx[o['ent']]), 'h2': [ref.sha256(u)[0]] if u else [0], 'devidx': di,
                   'devwords': words_cps(t, di)}
            klass = ('enc', lang, len(e), o['pat'], o['cc'], o['form'])
            desc = 'Mnemonic(%s).to_mnemonic(%s %s%s) -> %s' % (lang, o['form'], o['ent'], '' if o['cc'] else ', check_on_curve=False',
                                                              ('refused ' + r['err']) if r['refused'] else repr(r['text'])[:160])
        elif o['op'] == 'dec':
            i = tuple(o['idx'])
            rec = {'k': 'dec', 'lang': lang, 'idx': o['idx'], 'hd': hd[i], 'refused': r['refused'],
                   'got': list(bytes.fromhex(r['got'])) if not r['refused'] else []}
            kind = 'alien' if -1 in o['idx'] else ('same' if o['idx'] == exp_idx[o['ent']] else
                                                    ('last' if o.get('pos') == len(o['idx']) else 'inner'))
            klass = ('dec', lang, len(o['idx']), o['pat'] if o['pat'] not in ('bit', 'subst-all', 'subst-rand') else o['pat'] + kind,
                     kind, o.get('sform'), r['refused'])
            desc = 'Mnemonic(%s).to_entropy(%r) [entropy %s, word %s replaced] -> %s' % (
                lang, o['text'][:200], o['ent'], o.get('pos', 0), ('refused ' + r['err']) if r['refused'] else r['got'])
        elif o['op'] == 'seed':
            i = tuple(o['idx'])
            nonenglish = bool(en) and any(w not in en['sindex'] for w in ref.nfkd(o['text']).split(' '))
            rec = {'k': 'seed', 'api': o['api'], 'lang': lang, 'idx': o['idx'], 'hd': hd[i], 'refused': r['refused'],
                   'got': list(bytes.fromhex(r['got'])) if not r['refused'] else [], 'exp': list(o['exp']),
                   'devexp': list(o['devexp']), 'I': list(o['I']), 'devI': list(o['devI']),
                   'p': cps(ref.nfkd(o['praw'] or '')), 'praw': cps(o['praw'] or ''), 'nonenglish': nonenglish}
            klass = ('seed', o['api'], lang, len(o['idx']), o['pat'], o['sform'])
            desc = '%s(%r, password=%r) [%s] -> %s' % (
                'Mnemonic(%s).to_seed' % lang if o['api'] == 'to_seed' else 'HDKey.from_passphrase', o['text'][:160], o['praw'], lang,
                ('refused ' + r['err']) if r['refused'] else r['got'][:32] + '..')
        else:
            i = tuple(o['idx'])
            rec = {'k': 'generated', 'lang': lang, 'idx': o['idx'], 'hd': hd[i],
                   'nwords': (o['strength'] + o['strength'] // 32) // 11}
            klass = ('generated', lang, o['strength'])
            desc = 'Mnemonic(%s).generate(%d) -> %s' % (lang, o['strength'], ('refused ' + r['err']) if r['refused'] else repr(r['text'])[:200])
            o = dict(o, text=r['text'])
        recs.append((rec, klass, desc, {k: v for k, v in o.items() if k not in ('exp', 'devexp', 'I', 'devI', 'idx')}))

    timing['kdf'] = round(time.time() - tm - timing['gen2'], 1)
    tm = time.time()
    verdicts = common.tlc_eval('Bip39Eval', [r for r, _, _, _ in recs], procs=10 if len(recs) < 30000 else common.NCPU)
    timing['judge'] = round(time.time() - tm, 1)
    ck.notes['timing_s'] = timing
    if os.environ.get('VERIF_DEBUG'):
        print('DEBUG timing', timing)
    nvalid_mut = 0
    for (rec, klass, desc, op), v in zip(recs, verdicts):
        ck.case(klass)
        if rec['k'] == 'dec' and not rec['refused'] and klass[4] in ('last', 'inner'):
            nvalid_mut += 1
        if v['v'].startswith('machinery'):
            raise common.MachineryError('%s: %s' % (desc, v['v']))
        if v['v'] != 'ok':
            key = v['dev'] or None
            ck.violation(key, '%s: clause %s; specification expects %s' % (desc, v['v'], _short(v['exp'])),
                         {'op': op} if op else {'record': rec})
    ck.traces = len(recs)
    for r, _, d, _ in recs[10:12] + recs[len(recs) // 2:len(recs) // 2 + 2] + recs[-2:]:
        ck.sample({'case': d, 'record': {k: (v if not isinstance(v, list) or len(v) < 30 else v[:30] + ['...'])
                                         for k, v in r.items()}}, limit=6)
    ck.notes['languages'] = sorted(tables)
    ck.notes['calls'] = {k: sum(1 for o in ops if o['op'] == k) for k in ('enc', 'dec', 'seed', 'generated')}
    ck.notes['distinct_entropies'] = len(ents)
    ck.notes['substituted_sentences_accepted_with_matching_checksum'] = nvalid_mut
    return ck.finish()


def _short(x):
    if isinstance(x, list) and x and all(isinstance(b, int) for b in x):
        if len(x) in (16, 20, 24, 28, 32, 64) and all(0 <= b < 256 for b in x):
            return bytes(x).hex()
        return str(x)[:200]
    return str(x)[:200]
