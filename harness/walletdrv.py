"""Shared driver of C07 / C08: seeded wallet histories executed on real wallets (network bitcoinlib_test, offline),
recorded as traces for spec/WalletLedgerEval.tla.

Every event = one API call with its arguments and what it returned, plus what the live Wallet object and a freshly
opened Wallet on the same sqlite file report afterwards (balance, utxos, per-key balances).
"""
import hashlib
import logging
import os
import random
import tempfile

from harness import common

WALLET_KINDS = [('hd', 'legacy'), ('hd', 'segwit'), ('hd', 'p2sh-segwit'), ('single', 'legacy'), ('single', 'segwit'),
                ('multisig', 'legacy'), ('multisig', 'segwit'), ('multisig', 'p2sh-segwit')]
VALUES = [999, 1000, 1001, 20000, 20000, 150000, 1000000, 3000000, 40000000]


def txnum(table, txid):
    if txid not in table:
        table[txid] = len(table) + 1
    return table[txid]


def observe(w, table, name, db_uri, accounts=()):
    from bitcoinlib.wallets import Wallet

    def read(x):
        ut = x.utxos()
        keys = x.keys()
        ids = [k.id for k in keys]
        accts = []
        for a in accounts:
            accts.append([a, int(x.balance(account_id=a)),
                          [[txnum(table, u['txid']), u['output_n'], u['value']] for u in x.utxos(account_id=a)]])
        return {'balance': int(x.balance()), 'utxos': [[txnum(table, u['txid']), u['output_n'], u['value']] for u in ut],
                'acct': int(x.default_account_id or 0), 'accts': accts,
                'keybal': [[k.id, int(k.balance)] for k in keys],
                'wkbal': [[i, int(x.key(i).balance())] for i in ids[:12]]}
    live = read(w)
    f = Wallet(name, db_uri=db_uri)
    fresh = read(f)
    try:
        f.session.close()
    except Exception:
        pass
    return live, fresh


def keys_snapshot(w, single):
    return [[k.id, 1 if single else int(k.change or 0), int(k.account_id or 0)] for k in w.keys() if k.address]


def wallet_history(job):
    """Worker: one wallet, one seeded history."""
    logging.disable(logging.CRITICAL)
    from bitcoinlib.wallets import Wallet, WalletError
    from bitcoinlib.keys import HDKey, Key
    from bitcoinlib.transactions import TransactionError, Transaction
    EXT = [Key(900001 + i, network='bitcoinlib_test').address() for i in range(3)]
    seed, kind, nops = job
    # the library draws change amounts and output orders from the global generators: seeded, so that a history replays
    import random as _random
    import numpy as _numpy
    _random.seed(seed)
    _numpy.random.seed(seed % 2 ** 32)
    # the service layer orders equal-priority providers with random.random() at every call, and the number of calls depends on
    # cache expiry (wall-clock time): it gets a generator of its own, so that the wallet's draws do not depend on timing
    import bitcoinlib.services.services as _services
    _services.random = random.Random(seed)
    scheme, wt = kind
    rng = random.Random(seed)
    d = tempfile.mkdtemp(prefix='w_', dir=os.environ['BCL_DATA_DIR'])
    db_uri = 'sqlite:///' + os.path.join(d, 'wallet.sqlite')
    name = 'w%d' % seed
    network = 'bitcoinlib_test'
    try:
        if scheme == 'hd':
            w = Wallet.create(name, network=network, witness_type=wt, db_uri=db_uri)
        elif scheme == 'single':
            w = Wallet.create(name, keys=HDKey(network=network).private_hex, network=network, witness_type=wt, scheme='single', db_uri=db_uri)
        else:
            k1 = HDKey(network=network, witness_type=wt, multisig=True)
            k2 = HDKey(network=network, witness_type=wt, multisig=True)
            w = Wallet.create(name, keys=[k1, k2], sigs_required=2, cosigner_id=0, network=network, witness_type=wt, db_uri=db_uri)
    except Exception as e:
        return {'seed': seed, 'kind': kind, 'events': [], 'desc': [], 'setup_error': repr(e)}
    single = scheme == 'single'
    net = w.network
    co = None
    if scheme == 'multisig':
        try:
            co = Wallet.create(name + '_co', keys=[k1, k2], sigs_required=2, cosigner_id=0, network=network, witness_type=wt, db_uri=db_uri)
        except Exception as e:
            return {'seed': seed, 'kind': kind, 'events': [], 'desc': [], 'setup_error': 'co-wallet: %r' % e}
    accounts = []
    if scheme == 'hd' and rng.random() < 0.45:
        try:
            w.new_account()
            accounts = [0, 1]
        except Exception as e:
            return {'seed': seed, 'kind': kind, 'events': [], 'desc': [], 'setup_error': 'second account: %r' % e}
    # another wallet in the same database file, with a funded key: nothing of it may ever be spent by w
    foreign = None
    try:
        wo = Wallet.create(name + '_other', network=network, witness_type=wt if scheme != 'multisig' else 'segwit', db_uri=db_uri)
        fk = wo.get_key()
        ftx = hashlib.sha256(b'foreign-%d' % seed).hexdigest()
        wo.utxo_add(fk.address, 5000000, ftx, 0, confirmations=10)
        foreign = (ftx, 0, fk.key_id, 5000000, fk.address)
    except Exception as e:
        return {'seed': seed, 'kind': kind, 'events': [], 'desc': [], 'setup_error': 'second wallet: %r' % e}
    table = {}
    events, desc = [], []
    reports = []        # outputs ever reported to the wallet: [txid, n, value, key_id, address]
    stored = []         # txids of stored (sent) transactions
    notes = []          # observations outside the listed properties
    sent_objs = {}      # txid -> (the WalletTransaction object that was pushed, its projection)
    unsent = []         # WalletTransaction objects created but not broadcast
    replace = []        # broadcast transactions signalling replace-by-fee, to be replaced
    imports = []        # unsent transactions to be imported again (raw / object / dictionary) and sent
    spent_outpoints = []    # (txid, n, value) of outputs spent by transactions this wallet has sent
    fake = [0]

    def newtxid():
        fake[0] += 1
        return hashlib.sha256(b'%d-%d' % (seed, fake[0])).hexdigest()

    def own_keys():
        return [k for k in w.keys(depth=w.key_depth) if k.address]

    def record(ev, text):
        ev['keys'] = keys_snapshot(w, single)
        try:
            ev['live'], ev['fresh'] = observe(w, table, name, db_uri, accounts)
        except Exception as e:
            ev['live'] = ev['fresh'] = {'balance': -1, 'utxos': [], 'keybal': [], 'wkbal': [], 'acct': 0, 'accts': []}
            text += ' [observation raised %r]' % e
        events.append(ev)
        desc.append(text)

    def txresult(t, recips):
        """Project a WalletTransaction: inputs, outputs (own key / recipient index), fee, vsize."""
        addr2key = {k.address: k.id for k in w.keys() if k.address}
        ins = [[txnum(table, i.prev_txid.hex()), i.output_n_int, int(i.value)] for i in t.inputs]
        # outputs -> recipients: exact (address, amount) matches first, then "rest" recipients (amount 0) by address;
        # everything else is change (own key id) or a stranger (0)
        rid_of = {}
        left = list(enumerate(recips))
        for oi, o in enumerate(t.outputs):
            for pos, (ri, (addr, amount)) in enumerate(left):
                if addr == o.address and amount == o.value and amount != 0:
                    rid_of[oi] = ri + 1
                    del left[pos]
                    break
        for oi, o in enumerate(t.outputs):
            if oi in rid_of:
                continue
            for pos, (ri, (addr, amount)) in enumerate(left):
                if addr == o.address and amount == 0:
                    rid_of[oi] = ri + 1
                    del left[pos]
                    break
        outs = [[int(o.value), addr2key.get(o.address, 0), rid_of.get(oi, 0)] for oi, o in enumerate(t.outputs)]
        try:
            full = len(t.raw())
            stripped = len(t.raw(witness_type='legacy'))
            vsize = (3 * stripped + full + 3) // 4
        except Exception:
            vsize = 0
        return {'ins': ins, 'outs': outs, 'fee': int(t.fee if t.fee is not None else -1), 'vsize': vsize}

    def do_tx(kind_):
        acct = rng.choice(accounts) if accounts else 0
        # own addresses used as recipients are of the sending account: the library files a transaction, with all its
        # outputs, under ONE account, so a payment between two accounts of a wallet is outside what this driver exercises
        keys = [k for k in own_keys() if not accounts or int(k.account_id or 0) == acct]
        akw = {'account_id': acct} if accounts else {}
        spendable = w.utxos(**akw)
        fee = rng.choice([None, None, 2000, 5000, 100000, 'low', 'high'])
        minconf = rng.choice([0, 1, 1, 2, 5])
        broadcast = rng.random() < 0.6
        if force[0] in ('spend_most', 'spend_most_unsent'):
            kind_, fee, minconf, broadcast = 'send_to', rng.choice([2000, 5000, 100000]), 0, force[0] == 'spend_most'
        if force[0] == 'send_minconf':
            kind_, fee, minconf, nchange = 'send_to', None, rng.choice([4, 5]), 0
        if force[0] in ('spend_one', 'spend_one_replace'):
            kind_, fee, minconf, broadcast = 'send_to', 2000, 0, True
        inkeys = []
        nchange = rng.choice([1, 1, 0, 2, 3])
        if force[0] == 'spend_one_bcast':
            kind_, fee, minconf, broadcast, nchange = 'send_to', 2000, 0, True, 1
        total = sum(u['value'] for u in spendable)
        explicit = []
        tainted = False
        rbf = rng.random() < 0.3 or force[0] in ('spend_one', 'spend_one_replace')
        q = {'fee': fee if isinstance(fee, int) else -1, 'minconf': minconf, 'inkeys': inkeys, 'sweep': kind_ == 'sweep', 'explicit': explicit,
             'above': -1, 'acct': acct, 'named': isinstance(fee, str),
             'feemin': net.fee_min if net.fee_min < 2000000 else 0, 'feemax': net.fee_max if net.fee_max < 2000000 else 0}
        t = None
        err = None
        try:
            if kind_ == 'send_to':
                amount = rng.choice([600, 1500, 19000, 20000, 100000, 500000, max(1000, total // 2), max(1000, total - 3000), total, total + 1000])
                if force[0] in ('spend_most', 'spend_most_unsent'):
                    amount = max(1000, total - fee - rng.choice([0, 100, 900, 1500, 30000]))
                if force[0] == 'send_minconf':
                    amount = rng.choice([160000, 200000, 250000])
                if force[0] in ('spend_one', 'spend_one_replace', 'spend_one_bcast'):
                    amount = 100000
                to = rng.choice(EXT + [rng.choice(keys).address]) if keys else EXT[0]
                if rng.random() < 0.2 and keys:
                    k = rng.choice(keys)
                    inkeys.append(k.id)
                recips = [(to, amount)]
                t = w.send_to(to, amount, input_key_id=inkeys[0] if inkeys else None, fee=fee, min_confirms=minconf,
                              broadcast=broadcast, number_of_change_outputs=nchange, replace_by_fee=rbf, **akw)
            elif kind_ == 'send_inputs':
                # explicit input list: some unspent outputs of the wallet, sometimes with an output the wallet has already
                # spent or with the same outpoint twice (min_confirms is documented as ignored for explicit inputs)
                pool = [(u['txid'], u['output_n'], u['value']) for u in spendable]
                rng.shuffle(pool)
                arr = pool[:rng.choice([1, 1, 2, 3])]
                mode = rng.random()
                if mode < 0.25 and spent_outpoints:
                    arr.append(rng.choice(spent_outpoints))
                    tainted = True          # no fee bump / import of a transaction that is already wrong
                elif mode < 0.40 and arr:
                    arr.append(arr[0])
                elif mode < 0.52 and foreign:
                    # the documented long form (txid, output_n, key_id, value[, signatures, unlocking_script, address]) naming an
                    # output and a key of the OTHER wallet in this database
                    arr.append(foreign)
                    tainted = True
                rng.shuffle(arr)
                explicit.extend([[txnum(table, a[0]), a[1]] for a in arr])
                q['minconf'] = minconf = 0
                have = sum(a[3] if len(a) == 5 else a[2] for a in arr)
                amount = rng.choice([600, 20000, max(1000, have // 2), max(1000, have - 3000), have + 5000])
                recips = [(rng.choice(EXT), amount)]
                if not arr:
                    raise WalletError('driver: nothing to list')
                long_form = rng.random() < 0.4
                def spell(txid):
                    # the ways a transaction id can be written: hexadecimal text in either case, bytes
                    r = rng.random()
                    return txid if r < 0.55 else (txid.upper() if r < 0.7 else bytes.fromhex(txid))
                def spec_in(a):
                    if len(a) == 5:         # the foreign output: with or without its address
                        return (a[0], a[1], a[2], a[3]) if rng.random() < 0.5 else (a[0], a[1], a[2], a[3], None, b'', a[4])
                    if long_form:
                        kid = next((x[3] for x in reports if x[0] == a[0] and x[1] == a[1]), None)
                        return (spell(a[0]), a[1], kid, a[2]) if kid else (spell(a[0]), a[1])
                    if rng.random() < 0.15:
                        from bitcoinlib.transactions import Input
                        return Input(prev_txid=a[0], output_n=a[1], network=w.network.name)
                    return (spell(a[0]), a[1])
                t = w.send(recips, input_arr=[spec_in(a) for a in arr], fee=fee, broadcast=broadcast, number_of_change_outputs=nchange, **akw)
            elif kind_ == 'send':
                n = rng.randrange(2, 4)
                recips = []
                for i in range(n):
                    recips.append((rng.choice(EXT + ([rng.choice(keys).address] if keys else [])), rng.choice([700, 5000, 20000, 20000, 300000])))
                t = w.send(recips, fee=fee, min_confirms=minconf, broadcast=broadcast, number_of_change_outputs=nchange, replace_by_fee=rbf, **akw)
            else:
                if rng.random() < 0.5:
                    recips = [(EXT[0], 0)]
                    t = w.sweep(EXT[0], min_confirms=minconf, fee=fee if fee != 'low' else None, broadcast=broadcast,
                                max_utxos=rng.choice([999, 999, 2]), **akw)
                else:
                    recips = [(EXT[1], rng.choice([1500, 20000])), (EXT[2], 0)]
                    t = w.sweep([recips[0], recips[1]], min_confirms=minconf, fee=fee if isinstance(fee, int) else None,
                                broadcast=broadcast, **akw)
        except (WalletError, TransactionError, ValueError) as e:
            err = repr(e)[:120]
        q['recips'] = [[0, int(a)] for _, a in recips]
        ev = {'op': 'tx', 'q': q, 'created': False, 'stored': False, 'tnum': 0, 'kind': kind_,
              'x': {'ins': [], 'outs': [], 'fee': 0, 'vsize': 0}}
        text = '%s%s(%s, fee=%r, min_confirms=%d, broadcast=%s, change_outputs=%d%s)' % (
            ('[account %d] ' % acct) if accounts else '', kind_, [(a[:8], v) for a, v in recips], fee, minconf, broadcast, nchange, ((', input_key_id=%s' % inkeys) if inkeys else '') +
            ((', input_arr=%s' % ['tx%d:%d' % (a, b) for a, b in explicit]) if explicit else ''))
        if t is not None and err is None:
            ev['created'] = True
            ev['x'] = txresult(t, recips)
            ev['pushed'] = bool(t.pushed)
            ev['verified'] = bool(t.verified)
            ev['tx_error'] = str(t.error)[:80] if t.error else ''
            if t.pushed:
                ev['stored'] = True
                ev['tnum'] = txnum(table, t.txid)
                stored.append(t.txid)
                sent_objs[t.txid] = (t, ev['x'])
                spent_outpoints.extend((i.prev_txid.hex(), i.output_n_int, int(i.value)) for i in t.inputs)
                ev['raw'] = t.raw_hex()
                if rbf and kind_ in ('send_to', 'send') and (rng.random() < 0.6 if not force[0] else force[0] == 'spend_one_replace'):
                    replace.append((t, recips))
            elif tainted:
                pass
            elif not broadcast and kind_ != 'sweep' and (rng.random() < 0.35 or force[0] == 'spend_most_unsent'):
                unsent.append((t, recips))
            elif not broadcast and rng.random() < 0.5 and acct == 0:
                # (transaction_import has no account argument: a transaction of another account would be filed under the default one)
                imports.append((t, recips))
            text += ' -> inputs %s outputs %s fee %s%s' % (ev['x']['ins'], ev['x']['outs'], ev['x']['fee'], ' PUSHED' if t.pushed else '')
        else:
            text += ' -> refused: %s' % err
        record(ev, text)
        def bump_args(t):
            # default formula, a new total fee, or an extra fee (small, moderate, larger than the change)
            mode = rng.choice(['default', 'default', 'fee', 'extra'])
            step = rng.choice([int(t.vsize or 200) + 1, 700, 5000, 60000])
            if mode == 'fee':
                return {'fee': int(t.fee) + step}, int(t.fee) + step
            if mode == 'extra':
                return {'extra_fee': step}, int(t.fee) + step
            return {}, -1
        while unsent:               # bump the fee of the transaction just created (not broadcast): same request, new transaction
            t, recips = unsent.pop()
            kw, want = bump_args(t)
            # an input added by the bump is selected with bumpfee's own default (min_confirms=1), not with the request's
            q2 = dict(q, fee=want, feemin=0, feemax=0, explicit=[], inkeys=[], above=int(t.fee), minconf=min(q['minconf'], 1), named=False)
            ev = {'op': 'tx', 'q': q2, 'created': False, 'stored': False, 'tnum': 0, 'kind': 'bumpfee', 'x': {'ins': [], 'outs': [], 'fee': 0, 'vsize': 0}}
            try:
                t.bumpfee(**kw)
                ev['created'] = True
                ev['x'] = txresult(t, recips)
                text = 'bumpfee(%s) of that transaction -> inputs %s outputs %s fee %s' % (kw, ev['x']['ins'], ev['x']['outs'], ev['x']['fee'])
            except (WalletError, TransactionError) as e:
                text = 'bumpfee(%s) refused: %r' % (kw, e)
            record(ev, text)
        while imports:              # the unsent transaction comes back (signed elsewhere) and is imported, then sent
            t, recips = imports.pop()
            route = rng.choice(['raw', 'object', 'dict'])
            q2 = dict(q, fee=-1, feemin=0, feemax=0, explicit=[[txnum(table, i.prev_txid.hex()), i.output_n_int] for i in t.inputs], minconf=0, named=False)
            ev = {'op': 'tx', 'q': q2, 'created': False, 'stored': False, 'tnum': 0, 'kind': 'import_' + route,
                  'x': {'ins': [], 'outs': [], 'fee': 0, 'vsize': 0}}
            try:
                if route == 'raw':
                    rt = w.transaction_import_raw(t.raw_hex())
                elif route == 'object':
                    rt = w.transaction_import(Transaction.parse_hex(t.raw_hex(), network=w.network.name) if rng.random() < 0.5 else t)
                else:
                    rt = w.transaction_import(t.as_dict())
                ev['created'] = True
                ev['x'] = txresult(rt, recips)
                same = rt.txid == t.txid
                rt.send()
                if rt.pushed:
                    ev['stored'] = True
                    ev['tnum'] = txnum(table, rt.txid)
                    stored.append(rt.txid)
                    spent_outpoints.extend((i.prev_txid.hex(), i.output_n_int, int(i.value)) for i in rt.inputs)
                    ev['raw'] = rt.raw_hex()
                text = 'transaction_import (%s) of that transaction -> inputs %s outputs %s fee %s%s%s' % (
                    route, ev['x']['ins'], ev['x']['outs'], ev['x']['fee'], ' PUSHED' if rt.pushed else ' not pushed: %s' % rt.error,
                    '' if same else ' TXID DIFFERS')
                ev['same_txid'] = same
            except (WalletError, TransactionError, ValueError, KeyError) as e:
                text = 'transaction_import (%s) refused: %r' % (route, e)
            record(ev, text)
        while replace:              # replace-by-fee of the transaction just broadcast: the old one leaves the wallet, the new one is stored
            t, recips = replace.pop()
            kw, want = bump_args(t)
            old_txid, old_tnum = t.txid, txnum(table, t.txid)
            q2 = dict(q, fee=want, feemin=0, feemax=0, explicit=[], inkeys=[], above=int(t.fee), minconf=min(q['minconf'], 1), named=False)
            err = None
            if rng.random() < 0.3:
                # probe outside the listed properties: the same bump on the transaction as the wallet reloads it (not broadcast,
                # nothing is written): is the replacement signed?
                try:
                    t2 = w.transaction(old_txid)
                    t2.bumpfee(**kw)
                    if t2.txid != old_txid and not t2.verify():
                        notes.append('bumpfee(%s) on the transaction as reloaded with Wallet.transaction(): the replacement does not verify' % kw)
                except (WalletError, TransactionError):
                    pass
            try:
                t.bumpfee(broadcast=True, **kw)
            except (WalletError, TransactionError) as e:
                err = repr(e)[:120]
            gone = w.transaction(old_txid) is None
            if gone:
                stored.remove(old_txid)
                # removal and replacement happen inside one library call: there is no observation between the two events
                record({'op': 'delete', 'tnum': old_tnum, 'noobs': True},
                       'bumpfee(%s, broadcast=True): transaction tx%d removed from the wallet' % (kw, old_tnum))
            ev = {'op': 'tx', 'q': q2, 'created': False, 'stored': False, 'tnum': 0, 'kind': 'rbf', 'x': {'ins': [], 'outs': [], 'fee': 0, 'vsize': 0}}
            if err is None and t.txid != old_txid:
                ev['created'] = True
                ev['x'] = txresult(t, recips)
                if t.pushed:
                    ev['stored'] = True
                    ev['tnum'] = txnum(table, t.txid)
                    stored.append(t.txid)
                    ev['raw'] = t.raw_hex()
                text = 'replacement -> inputs %s outputs %s fee %s%s' % (ev['x']['ins'], ev['x']['outs'], ev['x']['fee'], ' PUSHED' if t.pushed else '')
            else:
                text = 'replacement refused: %s' % err
            record(ev, text)

    # some histories follow a scenario (a lagging provider re-reporting outputs the wallet has spent; a fee bump of an
    # unsent transaction that used up its inputs), the others are free random walks
    plan = []
    sc = rng.random()
    if sc < 0.25:
        plan = ['key', 'add', 'add', 'add', 'spend_most', 'update_all', 'tx', 'tx']
    elif sc < 0.40:
        plan = ['key', 'add', 'add', 'spend_most_unsent', 'tx']
    elif sc < 0.52:
        # the funding transaction of a spent output is deleted and the output is reported again
        plan = ['key', 'add', 'add', 'spend_most', 'delete_funding', 'update_all', 'tx']
    elif sc < 0.70:
        plan = ['key', 'add_old', 'add_old', 'add_young', 'send_minconf', 'send_minconf']
    elif sc < 0.80:
        # one funding transaction with several outputs, all spent by one broadcast transaction; nothing is left to spend
        plan = ['key', 'add', 'add_same', 'add_same', 'spend_most', 'tx', 'tx', 'tx']
    elif sc < 0.88:
        # sibling outputs of one funding transaction spent one by one with replaceable transactions, the second one replaced
        plan = ['key', 'add_sib', 'add_same', 'add_same', 'spend_one', 'spend_one_replace', 'tx', 'tx']
    elif sc < 0.94 and co is not None:
        # another wallet with the same keys in the same database spends an output
        plan = ['key', 'add', 'add', 'co_spend', 'tx', 'tx']
    if co is not None and rng.random() < 0.2:
        plan = ['key', 'add', 'add', 'co_spend', 'tx', 'co_spend', 'tx']
    if rng.random() < 0.12:
        # a sent transaction is learnt to be confirmed, pushed once more, and the unconfirmed transactions are pruned
        plan = ['key', 'add_old', 'add_old', 'spend_one_bcast', 'confirm_own', 'resend', 'prune', 'tx', 'tx']
    if accounts and rng.random() < 0.5:
        # funded keys whose ids alternate between the accounts: account 0, account 1, account 0 again
        plan = ['key_a0', 'add_last', 'key_a1', 'add_last', 'key_a0', 'add_last', 'key_a1', 'add_last']
    force = [None]
    last_key = [None]
    for step in range(nops):
        # the library draws from the process-wide generators (provider order at every service call - whose number depends on
        # cache expiry, i.e. on wall-clock time -, number and size of random change outputs): one fixed state per step makes a
        # history replay the same way whatever the machine load
        _random.seed(seed * 1000 + step)
        _numpy.random.seed((seed * 1000 + step) % 2 ** 32)
        r = rng.random()
        forced = plan[step] if step < len(plan) else None
        if forced in ('key', 'key_a0', 'key_a1'):
            r = 0.0
        elif forced == 'add_last':
            r = 0.2
        elif forced in ('add', 'add_old', 'add_young', 'add_same', 'add_sib'):
            r = 0.2
        elif forced == 'update_all':
            r = 0.40
        elif forced == 'delete_funding':
            r = 0.75
        elif forced == 'co_spend':
            r = 0.97
        elif forced in ('tx', 'spend_most', 'spend_most_unsent', 'send_minconf', 'spend_one', 'spend_one_replace', 'spend_one_bcast'):
            r = 0.5
        elif forced == 'confirm_own':
            r = 0.81
        elif forced == 'resend':
            r = 0.85
        elif forced == 'prune':
            r = 0.88
        force[0] = forced
        try:
            keys = own_keys()
            if step == 0 or r < 0.10:
                if single:
                    k = w.get_key()
                else:
                    if forced in ('key_a0', 'key_a1'):
                        k = w.new_key(account_id=int(forced[-1]))
                    elif accounts:
                        k = rng.choice([w.new_key, w.get_key, w.new_key_change])(account_id=rng.choice(accounts))
                    else:
                        k = rng.choice([w.new_key, w.get_key, w.new_key_change])()
                last_key[0] = k
                record({'op': 'key'}, 'key %d%s' % (k.key_id, (' (account %d)' % k.account_id) if accounts else ''))
            elif (r < 0.34 or step in (1, 2)) and keys:
                k = rng.choice(keys)
                if forced == 'add_last' and last_key[0] is not None:
                    k = next((x for x in keys if x.id == last_key[0].key_id), k)
                # a transaction is filed under one account; a transaction the wallet made itself has no further outputs to report
                same_acct = [x for x in reports if x[6] == int(k.account_id or 0) and x[0] not in sent_objs]
                if same_acct and rng.random() < 0.3:
                    txid, n = rng.choice(same_acct)[0], rng.randrange(0, 3)       # another output of a known transaction
                else:
                    txid, n = newtxid(), rng.choice([0, 0, 1, 5])
                if any(x[0] == txid and x[1] == n for x in reports):
                    continue
                v = rng.choice(VALUES)
                conf = rng.choice([0, 1, 3, 10])
                if force[0] == 'add_same' and same_acct:
                    # several outputs of one funding transaction
                    txid, n, conf = same_acct[0][0], max(x[1] for x in reports if x[0] == same_acct[0][0]) + 1, same_acct[0][5]
                    v = rng.choice([150000, 1000000, 20000])
                if force[0] in ('add_sib', 'add_same') and plan and plan[1] == 'add_sib':
                    v, conf = 150000, 10
                    if force[0] == 'add_sib':
                        txid, n = newtxid(), 0
                if force[0] == 'add_old':
                    txid, n, v, conf = newtxid(), 0, 150000, 10
                elif force[0] == 'add_young':
                    txid, n, v, conf = newtxid(), 0, rng.choice([3000000, 40000000]), rng.choice([1, 2, 3])
                for x in reports:                   # confirmations belong to the transaction: one count per txid
                    if x[0] == txid:
                        conf = x[5]
                if accounts:
                    # utxo_add has no account argument and files the output under the default account
                    w.utxos_update(account_id=int(k.account_id), rescan_all=False, utxos=[
                        {'address': k.address, 'script': '', 'confirmations': conf, 'output_n': n, 'txid': txid, 'value': v}])
                else:
                    w.utxo_add(k.address, v, txid, n, confirmations=conf)
                reports.append([txid, n, v, k.id, k.address, conf, int(k.account_id or 0)])
                record({'op': 'utxo_add', 'rep': [[txnum(table, txid), n, v, k.id, conf]]}, 'utxo_add(key %d, %d, tx%d:%d, conf=%d)' % (k.id, v, txnum(table, txid), n, conf))
            elif r < 0.42 and reports:
                ua = rng.choice(accounts) if accounts else 0
                sub = [x for x in reports if (rng.random() < 0.7 or force[0] == 'update_all') and x[6] == ua]
                rescan = rng.random() < 0.6
                ul = [{'address': x[4], 'txid': x[0], 'confirmations': x[5], 'output_n': x[1], 'input_n': 0, 'block_height': None, 'fee': None,
                       'size': 0, 'value': x[2], 'script': '', 'date': None} for x in sub]
                if not ul:
                    continue
                if accounts:
                    w.utxos_update(account_id=ua, utxos=ul, rescan_all=rescan)
                else:
                    w.utxos_update(utxos=ul, rescan_all=rescan)
                record({'op': 'utxos_update', 'rescan': rescan, 'acct': ua, 'rep': [[txnum(table, x[0]), x[1], x[2], x[3], x[5]] for x in sub]},
                       'utxos_update(%s%d reported outputs, rescan_all=%s)' % (('account %d, ' % ua) if accounts else '', len(sub), rescan))
            elif r < 0.74:
                do_tx(rng.choice(['send_to', 'send_to', 'send', 'sweep', 'send_inputs']))
            elif r < 0.80 and (stored or reports):
                # a sent transaction, or (less often) a funding transaction whose outputs may be reported again later
                funding = sorted(x for x in {y[0] for y in reports} if w.transaction(x) is not None)
                if not stored and not funding:
                    continue
                txid = rng.choice(stored) if stored and (rng.random() < 0.6 or not funding) and force[0] != 'delete_funding' else rng.choice(funding or stored)
                w.transaction_delete(txid)
                if txid in stored:
                    stored.remove(txid)
                record({'op': 'delete', 'tnum': txnum(table, txid)}, 'transaction_delete(tx%d)' % txnum(table, txid))
            elif 0.80 <= r < 0.84 and stored and forced != 'co_spend':
                # the wallet learns that a transaction it sent is confirmed: an output of it that pays an own key is reported
                cands = [(txid, i, o) for txid in stored if txid in sent_objs for i, o in enumerate(sent_objs[txid][1]['outs']) if o[1]]
                if not cands:
                    continue
                txid, n, o = rng.choice(cands)
                kk = w.key(o[1])
                conf = rng.choice([1, 2, 6])
                for x in reports:
                    if x[0] == txid:
                        conf = x[5] or conf
                if accounts:
                    w.utxos_update(account_id=int(kk.account_id), rescan_all=False, utxos=[
                        {'address': kk.address, 'script': '', 'confirmations': conf, 'output_n': n, 'txid': txid, 'value': o[0]}])
                else:
                    w.utxo_add(kk.address, o[0], txid, n, confirmations=conf)
                if not any(x[0] == txid and x[1] == n for x in reports):
                    reports.append([txid, n, o[0], o[1], kk.address, conf, int(kk.account_id or 0)])
                for x in reports:
                    if x[0] == txid:
                        x[5] = conf
                record({'op': 'utxo_add', 'rep': [[txnum(table, txid), n, o[0], o[1], conf]]},
                       'utxo_add(key %d, %d, tx%d:%d, conf=%d)  [own transaction reported as confirmed]' % (o[1], o[0], txnum(table, txid), n, conf))
            elif 0.84 <= r < 0.87 and stored and forced != 'co_spend':
                # the same transaction object is pushed once more
                cands = [txid for txid in stored if txid in sent_objs and w.transaction(txid) is not None]
                if not cands:
                    continue
                txid = rng.choice(cands)
                t, x = sent_objs[txid]
                t.send()
                record({'op': 'resend', 'tnum': txnum(table, txid), 'x': x}, 'tx%d.send() again (pushed=%s)' % (txnum(table, txid), t.pushed))
            elif 0.87 <= r < 0.89 and not accounts and forced != 'co_spend':
                w.transactions_remove_unconfirmed()
                for txid in list(stored):
                    if w.transaction(txid) is None:
                        stored.remove(txid)
                record({'op': 'remove_unconfirmed'}, 'transactions_remove_unconfirmed()')
            elif forced == 'co_spend' and co is not None and reports:
                # the co-wallet (same keys, same database) learns of one of the outputs and spends it: broadcast by IT
                x = rng.choice([y for y in reports if not any(sp[0] == y[0] and sp[1] == y[1] for sp in spent_outpoints)] or reports)
                have = {k.address for k in co.keys() if k.address}
                for _ in range(12):                 # the co-wallet derives the same addresses: create keys until it has this one
                    if x[4] in have:
                        break
                    have.add(co.new_key().address)
                    have.add(co.new_key_change().address)
                if x[4] not in have:
                    continue
                co.utxos_update(utxos=[{'address': x[4], 'script': '', 'confirmations': x[5], 'output_n': x[1], 'txid': x[0], 'value': x[2]}],
                                rescan_all=False)
                try:
                    t = co.send_to(EXT[0], max(600, x[2] // 2), fee=2000, min_confirms=0, broadcast=True)
                except (WalletError, TransactionError):
                    continue
                if not t.pushed:
                    continue
                ins = [[txnum(table, i.prev_txid.hex()), i.output_n_int] for i in t.inputs]
                spent_outpoints.extend((i.prev_txid.hex(), i.output_n_int, int(i.value)) for i in t.inputs)
                record({'op': 'co_spend', 'ins': ins},
                       'the co-wallet broadcasts a transaction spending %s (pushed=%s)' % (['tx%d:%d' % tuple(i) for i in ins], t.pushed))
                follow = rng.random()
                if follow < 0.6:
                    # this wallet files the co-wallet's transaction too ...
                    try:
                        rt = w.transaction_import(t)
                        rt.send()
                    except WalletError:
                        rt = None           # (the co-wallet spent an output this wallet does not know: refused)
                    except AttributeError as e:
                        # (same situation, met as a crash inside transaction_create instead of a WalletError: nothing was
                        # written, the books are unchanged - an observation outside C08)
                        rt = None
                        notes.append('transaction_import of a transaction spending an output this wallet has no key for raised %r '
                                     'instead of WalletError' % e)
                    if rt is not None and rt.pushed:
                        stored.append(rt.txid)
                        x = txresult(rt, [(EXT[0], 0)])
                        # (not a candidate for the re-push step: its change pays an address of the co-wallet that this wallet
                        # may derive only later - storing it again then discovers that output, which the recorded projection
                        # of the transaction cannot say)
                        record({'op': 'adopt', 'tnum': txnum(table, rt.txid), 'x': x},
                               'transaction_import + send of the co-wallet\'s transaction tx%d' % txnum(table, rt.txid))
                if follow < 0.45 or follow > 0.85:
                    # ... and the co-wallet deletes its copy
                    co.transaction_delete(t.txid)
                    record({'op': 'co_delete'}, 'the co-wallet deletes its copy of tx%d' % txnum(table, t.txid))
            elif r < 0.93:
                try:
                    w.session.close()
                except Exception:
                    pass
                w = Wallet(name, db_uri=db_uri)
                record({'op': 'reopen'}, 'close + reopen')
            else:
                record({'op': 'observe'}, 'observe')
        except Exception as e:
            import traceback
            desc.append('DRIVER/LIBRARY EXCEPTION at step %d: %r %s' % (step, e, traceback.format_exc()[-1500:]))
            break
    # stored transactions reload identically
    reload_problems = []
    try:
        f = Wallet(name, db_uri=db_uri)
        for ev in events:
            if ev.get('stored') and ev.get('raw'):
                txid = next(k for k, v in table.items() if v == ev['tnum'])
                if txid not in stored:
                    continue
                t2 = f.transaction(txid)
                if t2 is None:
                    reload_problems.append('tx%d not found after reopening' % ev['tnum'])
                    continue
                got = txresult(t2, [])
                if t2.txid != txid or t2.raw_hex() != ev['raw'] or [i[:3] for i in got['ins']] != [i[:3] for i in ev['x']['ins']] or \
                        [o[0] for o in got['outs']] != [o[0] for o in ev['x']['outs']]:
                    reload_problems.append('tx%d reloads differently: raw equal %s, inputs %s vs %s, output values %s vs %s' % (
                        ev['tnum'], t2.raw_hex() == ev['raw'], got['ins'], ev['x']['ins'], [o[0] for o in got['outs']], [o[0] for o in ev['x']['outs']]))
    except Exception as e:
        reload_problems.append('reload raised %r' % e)
    for ev in events:
        ev.pop('raw', None)
    return {'seed': seed, 'kind': kind, 'events': events, 'desc': desc, 'reload': reload_problems, 'setup_error': None, 'notes': notes}


def collect(nhist, nops=(6, 14)):
    jobs = []
    base = common.seed() % 1000000
    for i in range(nhist):
        jobs.append((base + i, WALLET_KINDS[i % len(WALLET_KINDS)], nops[0] + i % (nops[1] - nops[0])))
    traces = common.pmap(wallet_history, jobs, chunksize=2)
    verdicts = common.tlc_eval('WalletLedgerEval', [{'events': t['events']} for t in traces], timeout=3000)
    return jobs, traces, verdicts
