"""C05 - address <-> locking script mapping against spec/AddrScript.tla.

(M) MC_AddrScript: destination -> address -> (decode under the transaction's network, refuse foreign addresses)
    -> locking script -> reported address; invariants DecodeInverse / CrossNetwork / ClassifyInverse / RoundTrip /
    ClassifySound / DamagedNonStandard over all networks, witness versions and program sizes of the bound.
(G) AddrScriptEval "build": TLC builds every address string and every (intact or damaged) script the implementation
    is driven with; the harness only names abstract cases (network, destination kind, witness version, payload atoms,
    route) and applies the primitives TLC asks for (harness/ref.py: sha256d, hash160).
(V) AddrScriptEval "fwd"/"rev": everything the implementation answered (lock_script, script_type, address,
    public_hash, refusal) is judged by TLC, in both directions.  Python transports values, TLC decides.
"""
import json
import os
import time

from harness import common, ref
from harness.common import Check, tier

PID = 'C05'
NETS = ['bitcoin', 'testnet', 'testnet4', 'signet', 'regtest', 'litecoin', 'litecoin_legacy', 'litecoin_testnet',
        'dogecoin', 'dogecoin_testnet', 'bitcoinlib_test']
JVM_ENV = {'JAVA_TOOL_OPTIONS': '-Xss48m'}       # the Bech32 folds recurse deeper than the default 1 MB thread stack
OBJ_ROUTES = ('parse', 'parse_nw', 'obj', 'obj_data', 'hdkey', 'tx_obj', 'tx_hdkey', 'akey', 'tx_akey')
HASH_TYPES = ('p2pkh', 'p2sh', 'p2wpkh', 'p2wsh', 'p2tr', 'p2sh_p2wpkh', 'p2sh_p2wsh')
KEY_ROUTES = ('hdkey', 'tx_hdkey', 'akey', 'tx_akey')
# scripts that reach an Output by parsing: a raw transaction (one dummy input, the scripts as outputs) / a raw block
PARSE_ROUTES = ('p_str', 'p_bytes', 'p_bio', 'p_hex', 'p_bytes2', 'p_bio2', 'blk', 'blk_bytes', 'blk_bio')
REV_ROUTES = ('lock', 'lock_ns', 'parse_out', 'tx_lock') + PARSE_ROUTES
ANY_ROUTES = ('tx_hash', 'tx_pubkey')      # add_output without a script type: the library chooses among candidates


def _vi(n):
    return bytes([n]) if n < 253 else b'\xfd' + n.to_bytes(2, 'little')


def raw_transaction(scripts):
    """Input generator only (wire format is C06's subject): version 1, one input without script, the given locking
    scripts as outputs of 1000 units each, locktime 0."""
    r = (1).to_bytes(4, 'little') + _vi(1) + bytes(range(32)) + bytes(4) + _vi(0) + b'\xff' * 4 + _vi(len(scripts))
    for sc in scripts:
        r += (1000).to_bytes(8, 'little') + _vi(len(sc)) + sc
    return r + bytes(4)


def raw_block(rawtx):
    return ((1).to_bytes(4, 'little') + bytes(32) + bytes(32) + (1600000000).to_bytes(4, 'little') +
            (0x1d00ffff).to_bytes(4, 'little') + bytes(4) + _vi(1) + rawtx)


def parse_outputs(route, raw, network):
    """Parse raw through one public entry point, network named (str) or left to the default (None); list of Outputs."""
    from io import BytesIO
    from bitcoinlib.transactions import Transaction
    from bitcoinlib.blocks import Block
    kw = {} if network is None else {'network': network}
    if route == 'p_str':
        return Transaction.parse(raw.hex(), **kw).outputs
    if route == 'p_bytes':
        return Transaction.parse(raw, **kw).outputs
    if route == 'p_bio':
        return Transaction.parse(BytesIO(raw), **kw).outputs
    if route == 'p_hex':
        return Transaction.parse_hex(raw.hex(), **kw).outputs
    if route == 'p_bytes2':
        return Transaction.parse_bytes(raw, **kw).outputs
    if route == 'p_bio2':
        return Transaction.parse_bytesio(BytesIO(raw), **kw).outputs
    blk = raw_block(raw)
    if route == 'blk':
        b = Block.parse(blk, parse_transactions=True, **kw)
    elif route == 'blk_bytes':
        b = Block.parse_bytes(blk, parse_transactions=True, **kw)
    else:
        b = Block.parse_bytesio(BytesIO(blk), parse_transactions=True, **kw)
    return b.transactions[0].outputs


def drive_parsers(jobs, keys, built):
    """All scripts of one (parse route, network, named / default) go into one raw transaction that is parsed once.
    Returns job index -> Output object, or None where parsing failed."""
    groups = {}
    for i, j in enumerate(jobs):
        if j['route'] in PARSE_ROUTES:
            groups.setdefault((j['route'], j['y'], bool(j.get('dflt'))), []).append(i)
    res = {}
    for (route, y, dflt), idx in groups.items():
        raw = raw_transaction([bytes(built[keys[i]]['script']) for i in idx])
        try:
            outs = list(parse_outputs(route, raw, None if dflt else y))
        except Exception:
            outs = []
        for n, i in enumerate(idx):
            res[i] = outs[n] if n < len(outs) else None
    return res
     # akey: the key's Address object (key.address_obj) is handed over


_FRESH_ADDR = {}
_PUBS = {}


def make_key(job, network):
    """The HD key object of a key job: master / child / public-only variant, single-sig or multisig (co-signer) key."""
    from bitcoinlib.keys import HDKey
    k = HDKey.from_seed(bytes.fromhex(job['seed']), witness_type=job['wt'] or 'segwit', multisig=bool(job.get('ms')),
                        network=network)
    var = job.get('variant') or 'master'
    if var in ('child', 'child_public'):
        k = k.subkey_for_path("m/45'/0/3")
    if var in ('public', 'child_public'):
        k = k.public()
    return k

# "prior calls": what a caller may have done with the same object before handing it to Output / add_output.  All of
# them are queries (or, for netchange, a documented setter applied before); the destination an object stands for
# depends only on the key, its witness type and its network - never on which query was asked last.
KEY_PRIORS = {
    'addr_p2wpkh_bech32': lambda k: k.address(script_type='p2wpkh', encoding='bech32'),
    'addr_p2pkh_base58': lambda k: k.address(script_type='p2pkh', encoding='base58'),
    'addr_p2sh_p2wpkh': lambda k: k.address(script_type='p2sh_p2wpkh', encoding='base58'),
    'addr_p2sh_base58': lambda k: k.address(script_type='p2sh', encoding='base58'),
    'addr_prefix_6f': lambda k: k.address(prefix=b'\x6f', encoding='base58'),
    'addr_default': lambda k: k.address(),
    'address_obj': lambda k: k.address_obj,
    'wif': lambda k: k.wif(),
    'wif_private': lambda k: k.wif_private(),
    'wif_public': lambda k: k.wif_public(),
    'public': lambda k: k.public(),
    'as_dict': lambda k: k.as_dict(),
    'hash160': lambda k: k.hash160,
    'public_hex': lambda k: (k.public_hex, k.public_uncompressed_hex),
    # asking for the uncompressed address (driven only once its finding is listed, see run())
    'addr_uncompressed': lambda k: k.address_uncompressed(),
    'addr_compressed_false': lambda k: k.address(compressed=False, encoding='base58'),
}
UNCOMPRESSED_PRIORS = ('addr_uncompressed', 'addr_compressed_false')
UNCOMPRESSED_KEY = 'uncompressed-address-query-switches-key'
ADDR_PRIORS = {
    'as_dict': lambda a: a.as_dict(),
    'as_json': lambda a: a.as_json(),
    'with_prefix': lambda a: a.with_prefix(a.prefix),
    'hashed_data': lambda a: (a.hashed_data, a.data),
    'repr': lambda a: repr(a),
}


def apply_priors(table, obj, names):
    """Earlier calls on the object; what they return or whether they refuse does not matter here."""
    for n in names:
        if n.startswith('netchange:'):
            obj.network_change(n.split(':', 1)[1])
            continue
        try:
            table[n](obj)
        except common.MachineryError:
            raise
        except Exception:
            pass
NOOBS = {'ok': False, 'lock': [], 'type': '', 'addr': [], 'hash': [], 'witver': 0, 'nw': '', 'addr2': [], 'addr3': [],
         'rtok': False, 'rtlock': []}


def codes(s):
    return [ord(c) for c in s]


def text(cs):
    return ''.join(chr(c) for c in cs)


def lib_type(dk, wv, n):
    """script_type argument by which a caller of the library names a destination kind (an input, not an oracle).
    The library names every witness program of version >= 1 'p2tr' + witver."""
    if dk == 'pkh':
        return 'p2pkh'
    if dk == 'sh':
        return 'p2sh'
    if wv == 0:
        return 'p2wpkh' if n < 26 else 'p2wsh'
    return 'p2tr'


# ------------------------------------------------------------------------------------------------ build (spec -> inputs)

def _facts_for(needs, known):
    for n in needs:
        key = (n['f'], bytes(n['x']))
        if key in known:
            continue
        if n['f'] == 'sha256d4':
            known[key] = ref.sha256d(key[1])[:4]
        elif n['f'] == 'hash160':
            known[key] = ref.hash160(key[1])
        elif n['f'] == 'sha256':
            known[key] = ref.sha256(key[1])
        else:
            raise common.MachineryError('specification asked for unknown primitive %r' % n['f'])


def _fact_list(known, relevant):
    return [{'f': f, 'x': list(x), 'y': list(known[(f, x)])} for (f, x) in relevant if (f, x) in known]


def build_all(reqs):
    """reqs: dict key -> build record (without facts).  Iterates TLC 'build' evaluations until the specification has
    all primitive values it asked for.  Returns key -> exp record (+ 'facts': the facts that build used)."""
    known = {}
    asked = {k: [] for k in reqs}         # per build: the (f, x) pairs the spec asked for so far
    done = {}
    pending = list(reqs)
    for _round in range(5):
        if not pending:
            break
        recs = []
        for k in pending:
            r = dict(reqs[k])
            r['k'] = 'build'
            r['facts'] = _fact_list(known, asked[k])
            recs.append(r)
        outs = common.tlc_eval('AddrScriptEval', recs, env=JVM_ENV, procs=max(1, min(6, common.NCPU, len(recs) // 250)))
        nxt = []
        for k, o in zip(pending, outs):
            if o['v'] != 'ok':
                raise common.MachineryError('build %r: %s' % (reqs[k], o['v']))
            e = o['exp']
            if e['need']:
                _facts_for(e['need'], known)
                asked[k] += [(n['f'], bytes(n['x'])) for n in e['need']]
                nxt.append(k)
            else:
                e['facts'] = _fact_list(known, asked[k])
                done[k] = e
        pending = nxt
    if pending:
        raise common.MachineryError('build did not converge for %r' % (reqs[pending[0]],))
    return done


def build_key(job):
    """Which build does a job need?  (hashable key, build record)"""
    r = job['route']
    p = list(bytes.fromhex(job['p']))
    if r in ANY_ROUTES:
        cands = job['cands']
        key = ('cands', job['y'], json.dumps(cands))
        return key, {'what': 'cands', 'x': job['y'], 'y': job['y'], 'dk': '', 'wv': 0, 'p': [], 'mut': '', 'wt': '',
                     'ms': False, 'pub': [], 'st': '',
                     'cands': [{'dk': c[0], 'wv': c[1], 'p': list(bytes.fromhex(c[2]))} for c in cands]}
    if r in REV_ROUTES:
        key = ('script', job['y'], job['dk'], job['wv'], job['p'], job['mut'])
        return key, {'what': 'script', 'x': job['y'], 'y': job['y'], 'dk': job['dk'], 'wv': job['wv'], 'p': p,
                     'mut': job['mut'], 'wt': '', 'ms': False, 'pub': [], 'st': ''}
    if r in KEY_ROUTES:
        key = ('key', job['x'], job['wt'], bool(job.get('ms')), job['pub'])
        return key, {'what': 'key', 'x': job['x'], 'y': job['y'], 'dk': '', 'wv': 0, 'p': p, 'mut': '', 'wt': job['wt'],
                     'ms': bool(job.get('ms')), 'pub': list(bytes.fromhex(job['pub'])), 'st': ''}
    if r == 'hash':
        key = ('hash', job['x'], job['st'], job['wv'], job['p'])
        return key, {'what': 'hash', 'x': job['x'], 'y': job['y'], 'dk': '', 'wv': job['wv'], 'p': p, 'mut': '', 'wt': '',
                     'ms': False, 'pub': [], 'st': job['st']}
    if r == 'pubkey':
        key = ('data', job['x'], job['st'], job['pub'])
        return key, {'what': 'data', 'x': job['x'], 'y': job['y'], 'dk': '', 'wv': 0, 'p': [], 'mut': '', 'wt': '',
                     'ms': False, 'pub': list(bytes.fromhex(job['pub'])), 'st': job['st']}
    if r == 'obj_data':
        key = ('data', job['x'], job['st'], job['data'])
        return key, {'what': 'data', 'x': job['x'], 'y': job['y'], 'dk': '', 'wv': 0, 'p': [], 'mut': '', 'wt': '',
                     'ms': False, 'pub': list(bytes.fromhex(job['data'])), 'st': job['st']}
    key = ('addr', job['x'], job['dk'], job['wv'], job['p'])
    return key, {'what': 'addr', 'x': job['x'], 'y': job['y'], 'dk': job['dk'], 'wv': job['wv'], 'p': p, 'mut': '',
                 'wt': '', 'ms': False, 'pub': [], 'st': ''}


# ------------------------------------------------------------------------------------------------ drive (code under test)

def _observe(make, nw=None):
    """Observe an output; nw: the network the caller named (the way back - paying to the reported address - is asked on
    that network; without it on the network the output reports)."""
    from bitcoinlib.transactions import Output  # noqa
    try:
        o = make()
    except Exception:
        return dict(NOOBS)
    obs = {'ok': True}
    try:
        obs['lock'] = list(o.lock_script)
        obs['type'] = o.script_type or ''
        obs['hash'] = list(o.public_hash or b'')
        obs['witver'] = int(o.witver or 0)
        obs['nw'] = o.network.name
    except Exception:
        return dict(NOOBS)
    try:
        obs['addr'] = codes(o.address or '')
    except Exception:
        obs['addr'] = []          # asking the output for its address failed: no address is reported
    # the other views of the address, and the way back: paying to the reported address in the same network
    try:
        ao = o.address_obj
        obs['addr2'] = codes((ao.address if ao else '') or '')
    except Exception:
        obs['addr2'] = []
    try:
        obs['addr3'] = codes(o.as_dict().get('address') or '')
    except Exception:
        obs['addr3'] = []
    obs['rtok'], obs['rtlock'] = False, []
    if obs['addr']:
        try:
            obs['rtlock'] = list(Output(1000, address=text(obs['addr']), network=nw or obs['nw']).lock_script)
            obs['rtok'] = True
        except Exception:
            pass
    return obs


def new_tx(job):
    """The transaction an output is added to: network y, witness type legacy / segwit / left to the default."""
    from bitcoinlib.transactions import Transaction
    kw = {'witness_type': job['txwt']} if job.get('txwt') else {}
    return Transaction(network=job['y'], **kw)


def drive(job, b, parsed=None):
    """Run one job against bitcoinlib; returns the record to be judged."""
    from bitcoinlib.transactions import Output, Transaction
    from bitcoinlib.keys import Address, HDKey
    r = job['route']
    y = job['y']
    p = bytes.fromhex(job['p'])
    if r in ANY_ROUTES:
        def mk():
            t = new_tx(job)
            if r == 'tx_hash':
                t.add_output(1000, public_hash=p)
            else:
                t.add_output(1000, public_key=bytes.fromhex(job['pub']))
            return t.outputs[-1]
        return {'k': 'any', 'route': r, 'y': y, 'cands': [{'dk': c[0], 'wv': c[1], 'p': list(bytes.fromhex(c[2]))}
                                                            for c in job['cands']],
                'obs': _observe(mk, y), 'facts': b['facts']}
    if r in REV_ROUTES:
        s = bytes(b['script'])
        if r in PARSE_ROUTES:
            obs = _observe(lambda: parsed if parsed is not None else 1 // 0, y)
        elif r == 'parse_out':
            from io import BytesIO
            raw = (1000).to_bytes(8, 'little') + bytes([len(s)]) + s
            kw = {} if job.get('dflt') else {'network': y}
            obs = _observe(lambda: Output.parse(BytesIO(raw), **kw), y)
        elif r == 'tx_lock':
            def mk():
                t = new_tx(job)
                t.add_output(1000, lock_script=s)
                return t.outputs[-1]
            obs = _observe(mk, y)
        else:
            obs = _observe(lambda: Output(1000, lock_script=s, network=y, strict=(r == 'lock')), y)
        return {'k': 'rev', 'route': r, 'y': y, 's': list(s), 'strict': r != 'lock_ns', 'obs': obs, 'facts': b['facts']}

    a0 = text(b['addr'])
    if r == 'pubkey' and job['st'] == 'p2tr':
        a0 = ''       # a P2TR output from a public key needs the taproot tweak: outside what this specification builds
    isk = r in KEY_ROUTES or r in ('obj_data', 'hash', 'pubkey')
    prior = list(job.get('prior') or [])
    rec = {'k': 'fwd', 'route': r, 'x': job['x'], 'y': y, 'dk': b['dk'] if isk else job['dk'],
           'wv': b['wv'] if isk else job['wv'], 'p': b['p'] if isk else list(p), 'st': job.get('st', ''),
           'a0': codes(a0), 'hasobj': r in OBJ_ROUTES, 'objok': True, 'oa': [], 'facts': [], 'prior': prior,
           'pu': list(bytes.fromhex(job.get('pu', ''))), 'ot': '', 'h': list(p)}
    st = job.get('st') or None
    if r == 'str':
        rec['obs'] = _observe(lambda: Output(1000, address=a0, network=y), y)
    elif r == 'tx':
        def mk():
            t = new_tx(job)
            t.add_output(1000, a0)
            return t.outputs[-1]
        rec['obs'] = _observe(mk, y)
    elif r in OBJ_ROUTES:
        try:
            if r == 'parse':
                obj = Address.parse(a0)
                oa = obj.address
                apply_priors(ADDR_PRIORS, obj, prior)
            elif r == 'parse_nw':
                obj = Address.parse(a0, network=job['x'])
                oa = obj.address
                apply_priors(ADDR_PRIORS, obj, prior)
            elif r in ('obj', 'tx_obj'):
                kw = {'witver': job['wv']} if job['dk'] == 'wit' and job['wv'] >= 1 else {}
                obj = Address(hashed_data=p, script_type=st, network=job['x'], **kw)
                oa = obj.address
                apply_priors(ADDR_PRIORS, obj, prior)
            elif r == 'obj_data':
                obj = Address(data=bytes.fromhex(job['data']), script_type=st, network=job['x'])
                oa = obj.address
                apply_priors(ADDR_PRIORS, obj, prior)
            else:
                # the object handed over has a history (prior calls); its own address is asked from a second, fresh
                # object of the same key so that the question itself is not one more prior call
                obj = make_key(job, job.get('x0') or job['x'])
                if ref.hash160(obj.public_byte) != p:
                    raise common.MachineryError('HD key derivation is not deterministic')
                ck_ = (job['seed'], job['wt'], bool(job.get('ms')), job.get('variant'), job['x'])
                if ck_ not in _FRESH_ADDR:
                    _FRESH_ADDR[ck_] = make_key(job, job['x']).address()
                oa = _FRESH_ADDR[ck_]
                apply_priors(KEY_PRIORS, obj, prior)
                if r in ('akey', 'tx_akey'):
                    obj = obj.address_obj
            rec['ot'] = str(getattr(obj, 'script_type', '') or '')
        except common.MachineryError:
            raise
        except Exception:
            rec['objok'] = False
            rec['obs'] = dict(NOOBS)
            return rec
        rec['oa'] = codes(oa)
        if r in ('tx_obj', 'tx_hdkey', 'tx_akey'):
            def mk():
                t = new_tx(job)
                t.add_output(1000, obj)
                return t.outputs[-1]
            rec['obs'] = _observe(mk, y)
        else:
            rec['obs'] = _observe(lambda: Output(1000, address=obj, network=y), y)
    elif r == 'hash':
        kw = {'witver': job['wv']} if job['wv'] >= 0 else {}      # -1: the witness version argument is left out
        if job.get('enc'):
            kw['encoding'] = job['enc']
        rec['obs'] = _observe(lambda: Output(1000, public_hash=p, script_type=st, network=y, **kw), y)
    elif r == 'pubkey':
        pub = bytes.fromhex(job['pub'])
        if prior:
            k = HDKey.from_seed(bytes.fromhex(job['seed']), network=job['x'])
            apply_priors(KEY_PRIORS, k, prior)
            pub = k.public_byte
        kw = {'encoding': job['enc']} if job.get('enc') else {}
        rec['obs'] = _observe(lambda: Output(1000, public_key=pub, script_type=st, network=y, **kw), y)
    else:
        raise common.MachineryError('unknown route %r' % r)
    return rec


# ------------------------------------------------------------------------------------------------ case enumeration

def payload(rng, n, style):
    if style == 'zero':
        return bytes(n)
    if style == 'lead0':
        return bytes(3) + bytes(rng.randrange(256) for _ in range(n - 3)) if n > 3 else bytes(n)
    if style == 'ff':
        return b'\xff' * n
    if style == 'key':              # a real compressed public key (only used as a 33-byte payload atom)
        return ref.pubkey(rng.randrange(1, ref.N))
    if style == 'hextext':          # bytes that read as ASCII hexadecimal text (a class of its own, see below)
        return bytes(rng.choice(b'0123456789abcdefABCDEF') for _ in range(n))
    if style == 'embedded':         # looks like "version opcode, length, program" (a class of its own, see below)
        return bytes([0x52, n - 2]) + bytes(rng.randrange(256) for _ in range(n - 2))
    b = bytes(rng.randrange(256) for _ in range(n))
    if n in (33, 65) and b[0] in (2, 3, 4):
        b = b'\x55' + b[1:]         # key-shaped payloads are a class of their own (style 'key'), not a random accident
    if all(c in b'0123456789abcdefABCDEF \t\n\r\x0b\x0c' for c in b):
        b = bytes([b[0] | 0x80]) + b[1:]               # same for the 'hextext' class
    if n >= 2 and n not in (20, 32, 40) and b[1] == n - 2:
        b = b[:1] + bytes([(n + 7) % 256]) + b[2:]     # same for the 'embedded' shape
    return b


TXWT = ['', 'legacy', 'segwit']        # witness type of the transaction an output is added to ('' = not given)


def enumerate_jobs(rng, thorough, nets, allow_uncompressed=False):
    jobs = []
    STD = [('pkh', 0, 20), ('sh', 0, 20), ('wit', 0, 20), ('wit', 0, 32), ('wit', 1, 32)]
    UNK = [('wit', v, 32) for v in range(2, 17)] + [('wit', v, 20) for v in range(1, 17)]
    UNK_ODD = [('wit', v, n) for v in (1, 2, 16) for n in (2, 19, 21, 31, 33, 40)]
    if thorough:
        UNK_ODD = [('wit', v, n) for v in range(1, 17) for n in (2, 3, 19, 21, 31, 33, 39, 40)]
    styles = ['rand', 'lead0'] + (['zero', 'ff', 'rand'] if thorough else [])

    def others(x, k):
        o = [n for n in nets if n != x]
        rng.shuffle(o)
        return [x] + o[:k]

    def job(route, x, y, d, p, **kw):
        j = {'route': route, 'x': x, 'y': y, 'dk': d[0], 'wv': d[1], 'p': p.hex(), 'st': '', 'mut': '', 'wt': ''}
        j.update(kw)
        jobs.append(j)

    sweep = set(nets if thorough else nets[:1] + nets[7:9])   # networks with the full witness-version sweep
    for x in nets:
        # -- address strings (every transaction network for the standard kinds: the cross-network matrix)
        for d in STD:
            for sty in styles:
                p = payload(rng, d[2], sty)
                for y in nets:
                    if sty == styles[0] or thorough or y == x or x in sweep:
                        job('str', x, y, d, p)
            p = payload(rng, d[2], 'rand')
            # an Address object of network x handed to an output / transaction of every network y (ordered pairs)
            for y in nets:
                job('obj', x, y, d, p, st=lib_type(d[0], d[1], d[2]))
                for txwt in (TXWT[1:] if y == x or thorough else [rng.choice(TXWT)]):
                    job('tx_obj', x, y, d, p, st=lib_type(d[0], d[1], d[2]), txwt=txwt)
            for txwt in TXWT:
                job('tx', x, x, d, p, txwt=txwt)
            for y in others(x, 2 if not thorough else 10):
                if y != x:
                    job('tx', x, y, d, p, txwt=rng.choice(TXWT))
                job('parse', x, y, d, p)
                if y == x:
                    job('obj', x, y, d, p, st=lib_type(d[0], d[1], d[2]), prior=[rng.choice(sorted(ADDR_PRIORS))])
                    job('parse', x, y, d, p, prior=[rng.choice(sorted(ADDR_PRIORS)), rng.choice(sorted(ADDR_PRIORS))])
                if thorough or y == x or rng.random() < 0.5:
                    job('parse_nw', x, y, d, p)
        for d in STD:
            p = payload(rng, d[2], 'hextext')
            job('str', x, x, d, p)
            job('obj', x, x, d, p, st=lib_type(d[0], d[1], d[2]))
            job('parse', x, x, d, p)
        # -- Address objects made from data (a public key / a script) and a script type
        for st in ('p2pkh', 'p2sh', 'p2wpkh', 'p2wsh', 'p2sh_p2wpkh', 'p2sh_p2wsh'):
            data = payload(rng, 33, 'key') if 'pkh' in st or rng.random() < 0.5 else b'\x52' + payload(rng, 70, 'rand') + b'\xae'
            jobs.append({'route': 'obj_data', 'x': x, 'y': x, 'dk': '', 'wv': 0, 'p': '', 'st': st, 'mut': '', 'wt': '',
                         'data': data.hex()})
        for d in UNK + UNK_ODD:
            if x not in sweep and d[1] not in (1, 2, 16):
                continue
            p = payload(rng, d[2], 'rand')
            for y in others(x, 2 if not thorough else 4):
                job('str', x, y, d, p)
            if d[2] in (20, 32) and (thorough or d[1] in (1, 2, 3, 16)):
                job('parse', x, x, d, p)
                job('obj', x, x, d, p, st='p2tr')
        # -- HD keys
        for wt, ms in [(w, m) for w in ('legacy', 'segwit', 'p2sh-segwit') for m in (False, True)]:
            seed = payload(rng, 32, 'rand')

            def kjob(route, y, prior, x0='', variant='master'):
                jobs.append({'route': route, 'x': x, 'y': y, 'dk': '', 'wv': 0, 'p': '', 'st': '', 'mut': '', 'wt': wt,
                             'ms': ms, 'variant': variant, 'seed': seed.hex(), 'prior': prior, 'x0': x0,
                             'txwt': rng.choice(TXWT) if route.startswith('tx_') else ''})
            if not ms:
                for txwt in TXWT[1:]:
                    kjob('tx_hdkey', x, [])
                    jobs[-1]['txwt'] = txwt
            # an HD key of network x handed to an output / transaction of every network y (ordered pairs)
            for y in (nets if not ms or thorough else others(x, 2)):
                kjob('hdkey', y, [])
                if y != x and not ms:
                    kjob('tx_hdkey', y, [])
            # every kind of key object (master / child / public-only), directly, through a transaction, and through the
            # Address object the key owns
            for var in ('master', 'child', 'public', 'child_public'):
                kjob('tx_hdkey', x, [], variant=var)
                if var != 'master':
                    kjob('hdkey', x, [], variant=var)
                if var in ('master', 'child_public') or thorough:
                    kjob('akey', x, [], variant=var)
                    kjob('tx_akey', x, [], variant=var)
            if ms and not (thorough or x in sweep):
                kjob('hdkey', x, [rng.choice(['addr_default', 'wif', 'public', 'as_dict'])])
                continue
            # -- the same key object with a history of one or two earlier calls
            singles = [n for n in KEY_PRIORS if allow_uncompressed or n not in UNCOMPRESSED_PRIORS]
            for n in singles:
                if thorough or x in sweep or (n.startswith('addr_') and (n in UNCOMPRESSED_PRIORS or rng.random() < 0.5)):
                    kjob('hdkey' if rng.random() < 0.6 else 'tx_hdkey', x, [n])
            for _ in range(12 if thorough else 3 if x in sweep else 1):
                kjob('hdkey' if rng.random() < 0.5 else 'tx_hdkey', x, [rng.choice(singles), rng.choice(singles)])
            x0 = rng.choice([n for n in nets if n != x])
            kjob('hdkey', x, ['netchange:' + x])
            kjob('hdkey', x, ['netchange:' + x], x0=x0)
            kjob('tx_hdkey', x, ['addr_default', 'netchange:' + x], x0=x0)
    for y in nets:
        # -- hash + script_type, public key + script_type (address network = transaction network)
        # every script type Output can be asked to build from a bare hash: both sizes, witness version argument left out
        # or given, encoding inferred or given (the encoding that goes with the type).  Which of them is a destination,
        # and which one, is the specification's business (HashPlan).
        def hjob(st, n, wv, enc, style='rand'):
            jobs.append({'route': 'hash', 'x': y, 'y': y, 'dk': '', 'wv': wv, 'p': payload(rng, n, style).hex(), 'st': st,
                         'mut': '', 'wt': '', 'enc': enc})
        for st in HASH_TYPES:
            given = 'bech32' if st in ('p2wpkh', 'p2wsh', 'p2tr') else 'base58'
            for n in (20, 32):
                hjob(st, n, -1, '')
                hjob(st, n, -1 if rng.random() < 0.5 else 0, given)
            if thorough or y in sweep:
                hjob(st, 20 if st in ('p2pkh', 'p2sh', 'p2wpkh', 'p2sh_p2wpkh') else 32, -1, '', 'hextext')
                for n in (19, 21, 31, 33):
                    hjob(st, n, -1, '')
        for v in range(0, 17):
            if thorough or y in sweep or v in (0, 1, 2, 16):
                hjob('p2tr', 32, v, '' if v % 2 else 'bech32')
                hjob('p2tr', 20, v, '')
        for st in HASH_TYPES:
            seed = payload(rng, 32, 'rand')
            for enc in ('', 'bech32' if st in ('p2wpkh', 'p2wsh', 'p2tr') else 'base58'):
                jobs.append({'route': 'pubkey', 'x': y, 'y': y, 'dk': '', 'wv': 0, 'p': '', 'st': st, 'mut': '', 'wt': '',
                             'seed': seed.hex(), 'enc': enc})
            if st in ('p2pkh', 'p2wpkh'):
                jobs.append({'route': 'pubkey', 'x': y, 'y': y, 'dk': '', 'wv': 0, 'p': '', 'st': st, 'mut': '', 'wt': '',
                             'seed': seed.hex(), 'prior': [rng.choice(['addr_p2pkh_base58', 'addr_p2wpkh_bech32', 'wif',
                                                                       'public', 'as_dict'])]})
        # -- add_output by raw script / untyped hash / untyped key, for each witness type of the transaction
        futures = [('wit', v, n) for v in (range(1, 17) if y in sweep or thorough else (2, 16)) for n in (20, 32)
                   if (v, n) != (1, 32)]
        pay = {d: payload(rng, d[2], 'rand') for d in STD + futures}
        for txwt in TXWT[1:] + ([''] if thorough else []):
            for d in STD + [f for f in futures if f[1] in (2, 16)]:
                job('tx_lock', y, y, d, pay[d], mut='none', txwt=txwt)
            for n in (20, 32):
                h = payload(rng, n, 'rand').hex()
                cands = [['pkh', 0, h], ['sh', 0, h], ['wit', 0, h]] if n == 20 else [['wit', 0, h], ['wit', 1, h]]
                jobs.append({'route': 'tx_hash', 'x': y, 'y': y, 'dk': '', 'wv': 0, 'p': h, 'st': '', 'mut': '', 'wt': '',
                             'txwt': txwt, 'cands': cands})
            jobs.append({'route': 'tx_pubkey', 'x': y, 'y': y, 'dk': '', 'wv': 0, 'p': '', 'st': '', 'mut': '', 'wt': '',
                         'txwt': txwt, 'seed': payload(rng, 32, 'rand').hex(), 'cands': []})
        # -- scripts that reach an Output through parsing, the network named by the caller
        for route in PARSE_ROUTES:
            for d in STD + (futures if route in ('p_str', 'blk') or thorough else [f for f in futures if f[1] in (2, 16)]):
                job(route, y, y, d, pay[d], mut='none')
        # -- raw locking scripts: intact templates, future witness programs, damaged templates
        for route in ('lock', 'lock_ns') + (('parse_out',) if thorough or y == nets[0] else ()):
            for d in STD:
                for sty in styles[:2] + ['hextext']:
                    job(route, y, y, d, payload(rng, d[2], sty), mut='none')
                muts = ['pushdata1', 'trail_nop', 'short_pad'] + (['last_op'] if d[0] != 'wit' else ['ver_4f', 'ver_50'])
                for m in muts:
                    job(route, y, y, d, payload(rng, d[2], 'rand'), mut=m)
            for d in UNK + UNK_ODD[::3 if not thorough else 1]:
                if y in sweep or (d[1] in (1, 2, 16) and route != 'lock_ns'):
                    job(route, y, y, d, payload(rng, d[2], 'rand'), mut='none')
            for d in [('pkh', 0, 19), ('pkh', 0, 21), ('pkh', 0, 32), ('sh', 0, 19), ('sh', 0, 21), ('sh', 0, 32),
                      ('wit', 0, 19), ('wit', 0, 21), ('wit', 0, 31), ('wit', 0, 33), ('wit', 0, 2), ('wit', 0, 40),
                      ('wit', 1, 1), ('wit', 1, 41), ('wit', 16, 41)]:
                if thorough or rng.random() < 0.5:
                    job(route, y, y, d, payload(rng, d[2], 'rand'), mut='none')
            job(route, y, y, ('wit', 0, 33), payload(rng, 33, 'key'), mut='none')
            job(route, y, y, ('wit', 11, 3), payload(rng, 3, 'embedded'), mut='none')
            job(route, y, y, ('wit', 1, 21), payload(rng, 21, 'embedded'), mut='none')
            job(route, y, y, ('wit', 1, 33), payload(rng, 33, 'key'), mut='trail_nop')
    # -- parsing without naming a network: the library's default network (bitcoin) is the one named
    if 'bitcoin' in nets:
        for route in PARSE_ROUTES + ('parse_out',):
            for d in STD + [('wit', 16, 32)]:
                job(route, 'bitcoin', 'bitcoin', d, payload(rng, d[2], 'rand'), mut='none', dflt=True)
    return jobs


def prepare_keys(jobs):
    """Key routes: the public key bytes are an input atom taken from the library's key object (key derivation is C03/C04);
    its HASH160 is computed with the reference primitive."""
    from bitcoinlib.keys import HDKey
    for j in jobs:
        if j['route'] in KEY_ROUTES + ('pubkey', 'tx_pubkey') and not j['p']:
            ck_ = (j['seed'], j.get('variant'))
            if ck_ not in _PUBS:
                k = make_key(j, j['x'])
                _PUBS[ck_] = (k.public_byte, k.public_uncompressed_byte)
            pub, pubu = _PUBS[ck_]
            j['pub'] = pub.hex()
            j['p'] = ref.hash160(pub).hex()
            j['pu'] = ref.hash160(pubu).hex()
            if j['route'] == 'tx_pubkey':
                j['cands'] = [['pkh', 0, j['p']], ['wit', 0, j['p']]]


# ------------------------------------------------------------------------------------------------ argument space

ARG_BASES = [('pkh', 0, 20), ('sh', 0, 20), ('wit', 0, 20), ('wit', 0, 32), ('wit', 1, 32), ('wit', 'v', 32)]


def _addr_req(x, d, ph):
    return ('addr', x, d[0], d[1], ph), {'what': 'addr', 'x': x, 'y': x, 'dk': d[0], 'wv': d[1], 'p': list(bytes.fromhex(ph)),
                                         'mut': '', 'wt': '', 'ms': False, 'pub': [], 'st': ''}


def enumerate_arg_jobs(rng, thorough, nets, per_cell):
    """(G) TLC enumerates the abstract calls of the argument space (AddrScriptArgs.tla: ArgCalls / ArgApplies); every
    network x base destination kind gets a seeded sample of them (thorough: all of them on the sweep networks), made
    concrete with fresh payload atoms.  Returns the jobs; each names the builds (addresses / scripts by TLC) it needs."""
    kinds = {}
    for dk, wv, n in ARG_BASES:
        kinds[(dk, wv, n)] = {'k': 'build', 'what': 'argspace', 'x': '', 'y': '', 'dk': dk, 'wv': 2 if wv == 'v' else wv,
                              'p': [7] * n, 'mut': '', 'wt': '', 'ms': False, 'pub': [], 'st': '', 'facts': []}
    outs = common.tlc_eval('AddrScriptEval', list(kinds.values()), env=JVM_ENV, procs=min(3, common.NCPU))
    calls = {}
    for kk, o in zip(kinds, outs):
        if o['v'] != 'ok':
            raise common.MachineryError('argspace %r: %s' % (kk, o['v']))
        calls[kk] = sorted(o['exp']['calls'], key=lambda c: json.dumps(c, sort_keys=True))
    jobs = []
    sweep = set(nets[:1] + nets[7:9])
    for y in nets:
        for base in ARG_BASES:
            cl = calls[base]
            if thorough and y in sweep:
                pick = cl
            else:
                pick = rng.sample(cl, min(per_cell, len(cl)))
            dk, wv, n = base
            v = rng.randrange(2, 17) if wv == 'v' else wv
            keyed = dk == 'pkh' or (dk == 'wit' and v == 0 and n == 20)
            seed, seed1 = payload(rng, 32, 'rand').hex(), payload(rng, 32, 'rand').hex()
            h = payload(rng, n, 'rand').hex()
            h1 = payload(rng, n, 'rand').hex()
            x = rng.choice([m for m in nets if m != y])
            for c in pick:
                jobs.append({'route': 'args', 'x': x, 'y': y, 'dk': dk, 'wv': v, 'p': h, 'p1': h1, 'st': '', 'mut': '', 'wt': '',
                             'keyed': keyed, 'seed': seed, 'seed1': seed1, 'call': c,
                             'txwt': rng.choice(TXWT) if c['c']['via'] == 'tx' else ''})
    return jobs, sum(len(v) for v in calls.values())


def prepare_arg_jobs(jobs):
    """Key-hash bases: the payload is HASH160 of the key of the job's seed (the key may be handed over as bytes or as an
    HD key object).  Lists the builds each job needs."""
    from bitcoinlib.keys import HDKey
    cache = {}

    def pub(seed):
        if seed not in cache:
            cache[seed] = HDKey.from_seed(bytes.fromhex(seed)).public_byte
        return cache[seed]
    for j in jobs:
        if j['route'] != 'args' or 'bk' in j:
            continue
        if j['keyed']:
            j['pub'] = pub(j['seed']).hex()
            j['p'] = ref.hash160(pub(j['seed'])).hex()
        j['pub1'] = pub(j['seed1']).hex()
        j['kh1'] = ref.hash160(pub(j['seed1'])).hex()
        d = (j['dk'], j['wv'])
        bk = {'d0': _addr_req(j['y'], d, j['p']), 'd1': _addr_req(j['y'], d, j['p1']), 'for': _addr_req(j['x'], d, j['p'])}
        if len(j['p']) == 40:
            for nm, ph in (('p', j['p']), ('p1', j['p1']), ('k1', j['kh1'])):
                bk['pkh_' + nm] = _addr_req(j['y'], ('pkh', 0), ph)
                bk['sh_' + nm] = _addr_req(j['y'], ('sh', 0), ph)
        j['bk'] = bk


def drive_args(job, b):
    """One call of the argument space against bitcoinlib.  b: name -> build result."""
    from bitcoinlib.transactions import Output
    from bitcoinlib.keys import Address, HDKey
    c, cc, y = job['call'], job['call']['c'], job['y']
    h, h1 = bytes.fromhex(job['p']), bytes.fromhex(job['p1'])
    kw = {}
    a = ''
    try:
        if cc['addr'] == 'str':
            a = kw['address'] = text(b['d0']['addr'])
        elif cc['addr'] == 'other':
            a = kw['address'] = text(b['d1']['addr'])
        elif cc['addr'] == 'foreign':
            a = kw['address'] = text(b['for']['addr'])
        elif cc['addr'] == 'obj':
            akw = {'witver': job['wv']} if job['dk'] == 'wit' and job['wv'] >= 1 else {}
            kw['address'] = Address(hashed_data=h, script_type=lib_type(job['dk'], job['wv'], len(h)), network=y, **akw)
            a = kw['address'].address
        elif cc['addr'] == 'hdkey':
            wt = 'legacy' if job['dk'] == 'pkh' else 'segwit'
            kw['address'] = HDKey.from_seed(bytes.fromhex(job['seed']), witness_type=wt, network=y)
            a = HDKey.from_seed(bytes.fromhex(job['seed']), witness_type=wt, network=y).address()
    except Exception:
        raise common.MachineryError('cannot make the address argument of %r' % (job,))
    if cc['hash'] != 'none':
        kw['public_hash'] = h if cc['hash'] == 'match' else h1
    kh = b''
    if cc['key'] != 'none':
        kw['public_key'] = bytes.fromhex(job['pub'] if cc['key'] == 'match' else job['pub1'])
        kh = h if cc['key'] == 'match' else bytes.fromhex(job['kh1'])
    elif cc['addr'] == 'hdkey':
        kh = h
    lock = b''
    if cc['lock'] != 'none':
        lock = kw['lock_script'] = bytes(b['d0' if cc['lock'] == 'match' else 'd1']['script'])
    if c['enc']:
        kw['encoding'] = c['enc']
    if cc['via'] == 'tx':
        def mk():
            t = new_tx(job)
            t.add_output(1000, **kw)
            return t.outputs[-1]
    else:
        if c['st']:
            kw['script_type'] = c['st']
        if c['wt']:
            kw['witness_type'] = c['wt']
        if c['wv'] >= 0:
            kw['witver'] = c['wv']

        def mk():
            return Output(1000, network=y, **kw)
    facts, seen = [], set()
    for r in b.values():
        for f in r['facts']:
            fk = (f['f'], bytes(f['x']))
            if fk not in seen:
                seen.add(fk)
                facts.append(f)
    viatx = cc['via'] == 'tx'
    return {'k': 'args', 'route': 'args', 'y': y, 'a': codes(a), 'h': list(kw.get('public_hash', b'')), 'kh': list(kh),
            'st': '' if viatx else c['st'], 'enc': c['enc'], 'wt': '' if viatx else c['wt'], 'wv': -1 if viatx else c['wv'],
            'lock': list(lock), 'obs': _observe(mk, y), 'facts': facts}


def klass(job, b):
    rel = 'same' if job['x'] == job['y'] else 'other'
    return (job['route'], job['dk'] or job['wt'], job['wv'], len(job['p']) // 2, job['mut'], job['st'], job['x'],
            job['y'] if job['route'] in ('str', 'lock') else rel, tuple(job.get('prior') or ()), bool(job.get('x0')),
            bool(job.get('ms')), job.get('variant') or '', job.get('enc') or '', job.get('txwt') or '', bool(job.get('dflt')))


def run(replay=None):
    common.fresh_bitcoinlib_env()
    ref.selftest()
    import bitcoinlib.networks as bn

    ck = Check(PID)
    thorough = tier() == 'thorough'
    t0 = time.time()

    def lap(what):
        if os.environ.get('VERIF_DEBUG'):
            print('  [%6.1fs] %s' % (time.time() - t0, what))
    ck.rule = ('one case = (route, destination kind, witness version, payload size, damage, address network, transaction '
               'network [all 11 for address strings and raw scripts, same/other elsewhere]); payload bytes are random atoms')
    ck.assumptions = ['TLC evaluates AddrScript.tla correctly', 'SHA256d / HASH160 by hashlib (harness/ref.py)',
                      'network prefix table pinned in the specification (regtest as defined by the library: mainnet '
                      'version bytes, hrp bcrt)',
                      'public key bytes of key routes are taken from the library (key derivation belongs to C03/C04)',
                      'every witness program of version >= 1 may be named "p2tr"+witver by the library (its convention)',
                      'corrupted / non-canonical address strings belong to C11',
                      'argument space (AddrScriptArgs.tla): witness_type is a hint, not a source; witver counts together with '
                      'script_type p2tr; at most two arguments disagree with the base destination; the quick tier replays a '
                      'seeded sample of the calls per network x base kind, the thorough tier all of them on three networks',
                      'an answer for a future witness version may be a refusal, but then for every version 2..16 of that '
                      'program size alike (judged per route and network for the sizes 20 and 32)']

    ck.model(common.model_check('MC_AddrScript', 'MC_AddrScript_thorough.cfg' if thorough else 'MC_AddrScript.cfg',
                                env=JVM_ENV, workers=min(8, common.NCPU),
                                expect_actions=['Encode', 'Decode', 'Pay', 'Report']))

    ck.model(common.model_check('MC_AddrScriptArgs', 'MC_AddrScriptArgs.cfg', env=JVM_ENV, workers=min(8, common.NCPU),
                                expect_actions=['Resolve']))
    lap('model checked')
    nets = [n for n in NETS if n in bn.NETWORK_DEFINITIONS]
    skipped = [n for n in NETS if n not in nets] + [n for n in bn.NETWORK_DEFINITIONS if n not in NETS]
    ck.notes['skipped_configurations'] = skipped
    if replay:
        jobs = replay['case']['jobs'] if 'jobs' in replay['case'] else [replay['case']['job']]
    else:
        # the uncompressed-address queries are a class with a finding of its own; it is driven once that finding is listed
        jobs = enumerate_jobs(ck.rng, thorough, nets, allow_uncompressed=UNCOMPRESSED_KEY in ck.known)
        ajobs, ncalls = enumerate_arg_jobs(ck.rng, thorough, nets, per_cell=100)
        jobs += ajobs
        ck.notes['argument_space_calls_enumerated_by_TLC'] = ncalls
    prepare_keys(jobs)
    prepare_arg_jobs(jobs)

    reqs = {}
    keys = []
    for j in jobs:
        if j['route'] == 'args':
            keys.append(None)
            for k, r in j['bk'].values():
                reqs.setdefault(k, r)
            continue
        k, r = build_key(j)
        keys.append(k)
        reqs.setdefault(k, r)
    built = build_all(reqs)
    lap('%d inputs built by TLC' % len(reqs))

    parsed = drive_parsers(jobs, keys, built)
    recs = [drive_args(j, {n: built[kr[0]] for n, kr in j['bk'].items()}) if j['route'] == 'args'
            else drive(j, built[k], parsed.get(i)) for i, (j, k) in enumerate(zip(jobs, keys))]
    lap('%d jobs driven' % len(jobs))
    verdicts = common.tlc_eval('AddrScriptEval', recs, env=JVM_ENV, procs=min(8 if not thorough else 16, common.NCPU))
    lap('judged')
    nrefused = 0
    for j, k, rec, v in zip(jobs, keys, recs, verdicts):
        if rec['k'] == 'args':
            cc = j['call']['c']
            ck.case(('args', j['y'], j['dk'], j['wv'] if j['wv'] < 2 else 2) + tuple(cc[f] for f in sorted(cc)))
        else:
            ck.case(klass(j, built[k]))
        if not rec['obs']['ok']:
            nrefused += 1
        if v['v'] != 'ok':
            o = rec['obs']
            got = ('refused' if not o['ok'] else 'lock=%s type=%s address=%s hash=%s' % (
                bytes(o['lock']).hex(), o['type'], text(o['addr']), bytes(o['hash']).hex()))
            if rec['k'] == 'fwd':
                what = 'Output via %s: %s destination %s/v%d/%s (address %s of %s) in a %s transaction' % (
                    j['route'], (j.get('st') or j.get('wt') or '') + ('/multisig' if j.get('ms') else '') +
                    ('/' + j['variant'] if j.get('variant') else ''), rec['dk'], rec['wv'], bytes(rec['p']).hex(),
                    text(rec['a0']) or '-', j['x'], j['y'])
                if rec['hasobj']:
                    what += ' [object address %s%s]' % (text(rec['oa']) if rec['objok'] else 'refused',
                                                        ', object script_type %s' % rec['ot'] if rec['ot'] else '')
                if j.get('txwt'):
                    what += ' [transaction witness_type %s]' % j['txwt']
                if rec['prior'] or j.get('x0'):
                    what += ' [object created on %s, earlier calls on it: %s]' % (j.get('x0') or j['x'], ', '.join(rec['prior']))
            elif rec['k'] == 'args':
                cc = j['call']['c']
                what = ('%s on %s for base %s/v%d/%s with %s [address %s, public_hash %s, key hash %s, script_type %s, '
                        'encoding %s, witness_type %s, witver %s, lock_script %s]' % (
                            'add_output' if cc['via'] == 'tx' else 'Output', j['y'], j['dk'], j['wv'], j['p'],
                            ' '.join('%s=%s' % (f, cc[f]) for f in sorted(cc) if cc[f] != 'none'), text(rec['a']) or '-',
                            bytes(rec['h']).hex() or '-', bytes(rec['kh']).hex() or '-', rec['st'] or '-', rec['enc'] or '-',
                            rec['wt'] or '-', rec['wv'], bytes(rec['lock']).hex() or '-'))
            elif rec['k'] == 'any':
                what = 'Transaction(network=%s, witness_type=%s).add_output via %s of %s (no script type)' % (
                    j['y'], j.get('txwt') or 'default', j['route'], j['p'])
            else:
                what = 'script %s via %s, network %s%s%s' % (
                    bytes(rec['s']).hex(), j['route'], j['y'], ' (left to the default)' if j.get('dflt') else '',
                    ', transaction witness_type %s' % j['txwt'] if j.get('txwt') else '')
            exp = v['exp']
            exp = (bytes(exp).hex() if v['v'] in ('lock-script', 'public-hash', 'standard-destination-refused') else text(exp)) \
                if isinstance(exp, list) and all(isinstance(e, int) for e in exp) else exp
            if v['v'] == 'missing-fact':
                raise common.MachineryError('judge lacks a primitive value for %s' % what)
            ck.violation(v['dev'] or None, '%s: clause %s; got %s; specification expects %s' % (what, v['v'], got, exp),
                         {'job': j})
    # -- relational judgement: the witness versions 1..16 of one program size are answered alike (all or none) on a route
    groups = {}
    for j, rec, v in zip(jobs, recs, verdicts):
        if v['v'] != 'ok' or rec.get('dk', j['dk']) != 'wit' or j['wv'] < 1 or j.get('mut') not in ('', 'none') \
                or j.get('prior') or j.get('st') not in ('', 'p2tr'):
            continue
        n = len(j['p']) // 2
        if rec['k'] in ('any', 'args'):
            continue
        if rec['k'] == 'rev' and n not in (20, 32):
            continue      # other sizes: whether the parser re-reads the program as a sub-script depends on its bytes (C18)
        if rec['k'] == 'fwd' and j['route'] not in ('str', 'tx', 'hash'):
            continue
        g = groups.setdefault((rec['k'], j['route'], j['x'], j['y'], n), {'jobs': [], 'ans': []})
        g['jobs'].append(j)
        g['ans'].append({'wv': j['wv'], 'ok': rec['obs']['ok'], 'addr': rec['obs']['addr']})
    gkeys = sorted(k for k, g in groups.items() if len({a['wv'] for a in g['ans']}) >= 2)
    urecs = [{'k': 'uniform', 'dir': k[0], 'route': k[1], 'y': k[3], 'n': k[4], 'answers': groups[k]['ans']} for k in gkeys]
    for k, u, v in zip(gkeys, urecs, common.tlc_eval('AddrScriptEval', urecs, env=JVM_ENV, procs=2 if thorough else 1)):
        ck.case(('uniform',) + k)
        if v['v'] != 'ok':
            ck.violation(v['dev'] or None, '%s route %s, network %s/%s, %d-byte witness programs: clause %s; versions answered %s, '
                         'versions not answered %s' % (k[0], k[1], k[2], k[3], k[4], v['v'], v['exp'][0], v['exp'][1]),
                         {'jobs': groups[k]['jobs']})
    lap('%d version groups judged' % len(urecs))
    ck.notes['version_groups'] = len(urecs)
    ck.traces = len(recs)
    for i in (0, len(jobs) // 3, len(jobs) // 2, 2 * len(jobs) // 3, len(jobs) - 1):
        if jobs:
            r = recs[i]
            ck.sample({'job': {k: v for k, v in jobs[i].items() if v not in ('', None)},
                       'input': text(r['a0']) if r['k'] == 'fwd' else text(r['a']) if r['k'] == 'args' else bytes(r.get('s', [])).hex(),
                       'observed': {'ok': r['obs']['ok'], 'lock': bytes(r['obs']['lock']).hex(), 'type': r['obs']['type'],
                                    'address': text(r['obs']['addr'])}, 'verdict': verdicts[i]['v']}, limit=5)
    ck.notes['builds'] = len(reqs)
    ck.notes['refusals_observed'] = nrefused
    ck.notes['by_route'] = {r: sum(1 for j in jobs if j['route'] == r) for r in sorted({j['route'] for j in jobs})}
    return ck.finish()
