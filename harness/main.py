"""CLI of the verification framework: ./check <ID> [--tier quick|thorough] [--replay file] | ./check --list"""
import argparse
import importlib
import json
import os
import sys
import traceback

sys.path.insert(0, os.path.dirname(os.path.dirname(os.path.abspath(__file__))))


def main():
    ap = argparse.ArgumentParser()
    ap.add_argument('id')
    ap.add_argument('--tier', choices=['quick', 'thorough'])
    ap.add_argument('--replay')
    a = ap.parse_args()
    if a.tier:
        os.environ['VERIF_TIER'] = a.tier
    from harness import common
    pid = a.id.upper()
    try:
        mod = importlib.import_module('harness.%s' % pid.lower())
        replay = None
        if a.replay:
            replay = json.load(open(a.replay))
        rc = mod.run(replay=replay)
    except common.MachineryError as e:
        print('MACHINERY-FAILURE %s: %s' % (pid, e))
        sys.exit(2)
    except Exception:
        traceback.print_exc()
        print('MACHINERY-FAILURE %s: unexpected exception in the harness' % pid)
        sys.exit(2)
    sys.stdout.flush()
    os._exit(rc) if False else sys.exit(rc)


if __name__ == '__main__':
    main()
