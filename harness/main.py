"""CLI of the verification framework: ./check <ID> [--tier quick|thorough] [--replay file] | ./check --list"""
import argparse
import importlib
import json
import os
import sys
import traceback

sys.path.insert(0, os.path.dirname(os.path.dirname(os.path.abspath(__file__))))


def main():
    ap = argparse.ArgumentParser()
    ap.add_argument('id')
    ap.add_argument('--tier', choices=['quick', 'thorough'])
    ap.add_argument('--replay')
    a = ap.parse_args()
    if a.tier:
        os.environ['VERIF_TIER'] = a.tier
    from harness import common
    if a.id in ('--selftest', 'selftest'):
        from harness import selftest
        sys.exit(selftest.run())
    pid = a.id.upper()
    try:
        mod = importlib.import_module('harness.%s' % pid.lower())
        replay = None
        if a.replay:
            replay = json.load(open(a.replay))
        rc = mod.run(replay=replay)
    except common.MachineryError as e:
        print('MACHINERY-FAILURE %s: %s' % (pid, e))
        sys.exit(2)
    except Exception:
        tb = traceback.format_exc()
        traceback.print_exc()
        # An exception raised INSIDE bitcoinlib that a driver did not expect: on the unchanged tree no check run ends
        # this way, so this is the library misbehaving on a call the property covers - reported as a violation
        # (with the traceback as replay file), not as a failure of the machinery.
        lib = os.path.join(os.path.abspath(common.REPO), 'bitcoinlib') + os.sep
        last_frames = [l for l in tb.splitlines() if l.strip().startswith('File "')]
        if last_frames and any(lib in l for l in last_frames[-12:]) and 'MachineryError' not in tb:
            import hashlib
            rdir = os.path.join(common.OUT, 'replays', pid)
            os.makedirs(rdir, exist_ok=True)
            path = os.path.join(rdir, 'exception_%s.json' % hashlib.sha256(tb.encode()).hexdigest()[:12])
            with open(path, 'w') as f:
                json.dump({'property': pid, 'what': 'unexpected exception raised inside bitcoinlib during the check', 'traceback': tb}, f, indent=1)
            print('VIOLATION property=%s replay=%s' % (pid, path))
            print('  unexpected exception raised inside bitcoinlib during the check: %s' % tb.strip().splitlines()[-1][:300])
            sys.exit(1)
        print('MACHINERY-FAILURE %s: unexpected exception in the harness' % pid)
        sys.exit(2)
    sys.stdout.flush()
    os._exit(rc) if False else sys.exit(rc)


if __name__ == '__main__':
    main()
