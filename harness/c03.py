"""C03 - HD key derivation against spec/Bip32.tla.

(M) MC_Bip32: the operators of the specification (path notation, CKDpriv, CKDpub, N, invalid-key rules, byte arithmetic
    modulo the group order) run as the path machine over a toy cyclic group with HMAC as a lazily filled random oracle:
    Commute, CommuteFail, NoHardenedFromPublic, Fields; the boundary rules of the path notation as ASSUMEs.
(G) TLC enumerates the path shapes (element classes of Bip32.tla, every length up to the bound); each shape is run
    through HDKey.subkey_for_path from private masters, public masters, 'M' roots, as string / list / relative path and
    with the private->public split at every position (public() or an 'M' root).
(V) Every call - including each derivation step of deep random paths (depth 8..12), child_private / child_public calls
    and the calls on every proper prefix of a path - is judged by TLC (Bip32Eval): the primitives are applied by the
    harness with harness/ref.py (hashlib, pure-Python secp256k1) to byte strings TLC built and handed back as oracle
    facts; TLC decides.  Disagreements are attributed only where the observed key equals the key the specification
    defines with named deviations enabled.
Self-test of the machinery: the published BIP32 test vectors 1 and 3 must be accepted by the specification.
"""
from harness import common, ref
from harness.common import Check, tier
from harness.c03_oracle import Oracle

PID = 'C03'
B58 = '123456789ABCDEFGHJKLMNPQRSTUVWXYZabcdefghijkmnopqrstuvwxyz'
NETS = [('bitcoin', 'legacy'), ('bitcoin', 'segwit'), ('bitcoin', 'p2sh-segwit'), ('testnet', 'legacy'),
        ('testnet', 'segwit'), ('testnet', 'p2sh-segwit'), ('litecoin', 'legacy')]

# Published test vectors of BIP32 (chain of extended private keys, extended public key of every node)
TV1_SEED = '000102030405060708090a0b0c0d0e0f'
TV1 = [
    ('m', 'xprv9s21ZrQH143K3QTDL4LXw2F7HEK3wJUD2nW2nRk4stbPy6cq3jPPqjiChkVvvNKmPGJxWUtg6LnF5kejMRNNU3TGtRBeJgk33yuGBxrMPHi',
     'xpub661MyMwAqRbcFtXgS5sYJABqqG9YLmC4Q1Rdap9gSE8NqtwybGhePY2gZ29ESFjqJoCu1Rupje8YtGqsefD265TMg7usUDFdp6W1EGMcet8'),
    ("0H", 'xprv9uHRZZhk6KAJC1avXpDAp4MDc3sQKNxDiPvvkX8Br5ngLNv1TxvUxt4cV1rGL5hj6KCesnDYUhd7oWgT11eZG7XnxHrnYeSvkzY7d2bhkJ7',
     'xpub68Gmy5EdvgibQVfPdqkBBCHxA5htiqg55crXYuXoQRKfDBFA1WEjWgP6LHhwBZeNK1VTsfTFUHCdrfp1bgwQ9xv5ski8PX9rL2dZXvgGDnw'),
    ("1", 'xprv9wTYmMFdV23N2TdNG573QoEsfRrWKQgWeibmLntzniatZvR9BmLnvSxqu53Kw1UmYPxLgboyZQaXwTCg8MSY3H2EU4pWcQDnRnrVA1xe8fs',
     'xpub6ASuArnXKPbfEwhqN6e3mwBcDTgzisQN1wXN9BJcM47sSikHjJf3UFHKkNAWbWMiGj7Wf5uMash7SyYq527Hqck2AxYysAA7xmALppuCkwQ'),
    ("2H", 'xprv9z4pot5VBttmtdRTWfWQmoH1taj2axGVzFqSb8C9xaxKymcFzXBDptWmT7FwuEzG3ryjH4ktypQSAewRiNMjANTtpgP4mLTj34bhnZX7UiM',
     'xpub6D4BDPcP2GT577Vvch3R8wDkScZWzQzMMUm3PWbmWvVJrZwQY4VUNgqFJPMM3No2dFDFGTsxxpG5uJh7n7epu4trkrX7x7DogT5Uv6fcLW5'),
    ("2", 'xprvA2JDeKCSNNZky6uBCviVfJSKyQ1mDYahRjijr5idH2WwLsEd4Hsb2Tyh8RfQMuPh7f7RtyzTtdrbdqqsunu5Mm3wDvUAKRHSC34sJ7in334',
     'xpub6FHa3pjLCk84BayeJxFW2SP4XRrFd1JYnxeLeU8EqN3vDfZmbqBqaGJAyiLjTAwm6ZLRQUMv1ZACTj37sR62cfN7fe5JnJ7dh8zL4fiyLHV'),
    ("1000000000", 'xprvA41z7zogVVwxVSgdKUHDy1SKmdb533PjDz7J6N6mV6uS3ze1ai8FHa8kmHScGpWmj4WggLyQjgPie1rFSruoUihUZREPSL39UNdE3BBDu76',
     'xpub6H1LXWLaKsWFhvm6RVpEL9P4KfRZSW7abD2ttkWP3SSQvnyA8FSVqNTEcYFgJS2UaFcxupHiYkro49S8yGasTvXEYBVPamhGW6cFJodrTHy'),
]
TV3_SEED = ('4b381541583be4423346c643850da4b320e46a87ae3d2a4e6da11eba819cd4acba45d239319ac14f863b8d5ab5a0d0c64d2e8a1e7d14'
            '57df2e5a3c51c73235be')
TV3 = [
    ('m', 'xprv9s21ZrQH143K25QhxbucbDDuQ4naNntJRi4KUfWT7xo4EKsHt2QJDu7KXp1A3u7Bi1j8ph3EGsZ9Xvz9dGuVrtHHs7pXeTzjuxBrCmmhgC6',
     'xpub661MyMwAqRbcEZVB4dScxMAdx6d4nFc9nvyvH3v4gJL378CSRZiYmhRoP7mBy6gSPSCYk6SzXPTf3ND1cZAceL7SfJ1Z3GC8vBgp2epUt13'),
    ("0H", 'xprv9uPDJpEQgRQfDcW7BkF7eTya6RPxXeJCqCJGHuCJ4GiRVLzkTXBAJMu2qaMWPrS7AANYqdq6vcBcBUdJCVVFceUvJFjaPdGZ2y9WACViL4L',
     'xpub68NZiKmJWnxxS6aaHmn81bvJeTESw724CRDs6HbuccFQN9Ku14VQrADWgqbhhTHBaohPX4CjNLf9fq9MYo6oDaPPLPxSb7gwQN3ih19Zm4Y'),
]


def codes(s):
    return [ord(c) for c in s]


def b58dec(s):
    """Transport only: text -> bytes (the specification re-encodes and compares the text)."""
    n = 0
    for ch in s:
        n = n * 58 + B58.index(ch)
    return n.to_bytes(82, 'big')


NOOBS = {'ok': False, 'priv': False, 'k': [], 'P': [], 'Pu': [], 'comp': True, 'c': [], 'depth': 0, 'fp': [], 'idx': [], 'wifprv': [], 'wifpub': []}


def obs_key(r, wif=False):
    """Observation of an HDKey object: the values its public API reports."""
    priv = bool(r.is_private)
    ci = r.child_index
    o = {'ok': True, 'priv': priv,
         'k': list(bytes.fromhex(r.private_hex)) if priv else [],
         'P': list(bytes.fromhex(r.public_compressed_hex)),      # the point, SEC1 compressed
         'Pu': list(bytes.fromhex(r.public_hex)),               # the public key as the object presents it
         'comp': bool(r.compressed),
         'c': list(r.chain), 'depth': int(r.depth), 'fp': list(r.parent_fingerprint),
         'idx': list(ci.to_bytes(4, 'big')) if 0 <= ci < 2 ** 32 else [],
         'wifprv': [], 'wifpub': []}
    if wif:
        o['wifpub'] = codes(r.wif_public())
        if priv:
            o['wifprv'] = codes(r.wif_private())
    return o


def attempt(f, wif=False):
    """(key object or None, observation).  An exception of any type means: refused."""
    try:
        r = f()
    except Exception:
        return None, dict(NOOBS)
    if r is None:
        return None, dict(NOOBS)
    return r, obs_key(r, wif)


def obs_published(xprv, xpub):
    b = b58dec(xprv)
    p = b58dec(xpub)
    if ref.sha256d(b[:78])[:4] != b[78:] or ref.sha256d(p[:78])[:4] != p[78:] or b[45] != 0:
        raise common.MachineryError('published BIP32 vector mistyped in the harness')
    return {'ok': True, 'priv': True, 'k': list(b[46:78]), 'P': list(p[45:78]), 'Pu': list(p[45:78]), 'comp': True,
            'c': list(b[13:45]), 'depth': b[4],
            'fp': list(b[5:9]), 'idx': list(b[9:13]), 'wifprv': codes(xprv), 'wifpub': codes(xpub)}


# ------------------------------------------------------------------------------------------------------------
# calls: a case is  {start, pre: [op...], call: op}; ops are applied to the key object one after the other
# ------------------------------------------------------------------------------------------------------------

def make_start(st):
    from bitcoinlib.keys import HDKey, Key
    comp = st.get('compressed', True)
    kw = {} if comp else {'compressed': False}
    if st['kind'] == 'seed':
        return HDKey.from_seed(bytes.fromhex(st['seed']), network=st['net'], witness_type=st['wt'], **kw)
    if st.get('via') == 'Key':      # an HDKey built on a plain Key object (chain code: 32 zero bytes)
        return HDKey(Key(int(st['k'], 16), network=st['net'], **kw), network=st['net'], witness_type=st['wt'])
    return HDKey(key=bytes.fromhex(st['k']), chain=bytes.fromhex(st['c']), network=st['net'], witness_type=st['wt'], **kw)


OBSERVERS = {
    'address': lambda k: k.address(),
    'address_uncompressed': lambda k: k.address_uncompressed(),
    'address_compressed_false': lambda k: k.address(compressed=False),
    'address_obj': lambda k: k.address_obj,
    'wif': lambda k: k.wif(),
    'wif_public': lambda k: k.wif_public(),
    'wif_private': lambda k: k.wif_private(),
    'wif_key': lambda k: k.wif_key(),
    'public': lambda k: k.public(),
    'hash160': lambda k: k.hash160,
    'fingerprint': lambda k: k.fingerprint,
    'as_dict': lambda k: k.as_dict(),
    'as_dict_private': lambda k: k.as_dict(include_private=True),
    'as_json': lambda k: k.as_json(),
    'info': lambda k: k.info(),
    'repr': lambda k: repr(k),
    'public_point': lambda k: k.public_point(),
    'public_uncompressed': lambda k: (k.public_uncompressed_hex, k.public_uncompressed_byte),
    'public_byte': lambda k: (k.public_byte, k.public_hex, k.public_compressed_byte),
    'child_private': lambda k: k.child_private(3),
    'child_public': lambda k: k.child_public(4),
    'subkey_for_path': lambda k: k.subkey_for_path("m/1'/2" if k.is_private else 'm/1/2'),
}


def observe(key, what):
    """Ask the key object something and throw the answer away (an exception is an answer too)."""
    import contextlib
    import io
    try:
        with contextlib.redirect_stdout(io.StringIO()):
            OBSERVERS[what](key)
    except Exception:
        pass
    return key


def path_arg(op, upto=None):
    """Argument for subkey_for_path: root marker + the first `upto` elements (all when None)."""
    el = op['elems'] if upto is None else op['elems'][:upto]
    toks = ([op['root']] if op['root'] else []) + list(el)
    return list(toks) if op['aslist'] else '/'.join(toks)


def call_args(op, upto=None):
    """(args, kwargs) of the call: every optional argument the API documents may be given or omitted, positionally
    ('pos') or by keyword ('kw').  op['net']: network argument (None = omitted); op['h']: hardened flag of
    child_private (None = omitted)."""
    net = op.get('net')
    kw = op.get('conv', 'pos') == 'kw'
    if op['op'] == 'path':
        a = [path_arg(op, upto)]
        names = ['path']
    elif op['op'] == 'child_private':
        a = [op['i']] + ([op['h']] if op.get('h') is not None else [])
        names = ['index', 'hardened']
    else:
        a = [op['i']]
        names = ['index']
    if kw:
        args, kwargs = [], dict(zip(names, a))
        if net is not None:
            kwargs['network'] = net
        return args, kwargs
    if net is None:
        return a, {}
    if op['op'] == 'child_private' and op.get('h') is None:
        return a, {'network': net}          # hardened omitted: the network can only be named
    return a + [net], {}


def apply_op(key, op, upto=None):
    if op['op'] == 'public':
        return key.public()
    if op['op'] == 'reimport':      # through the serialized extended key (the receiver is "any extended key")
        from bitcoinlib.keys import HDKey
        kw = {'compressed': False} if op.get('compressed') is False else {}
        return HDKey(key.wif_private() if key.is_private else key.wif_public(), network=key.network.name, **kw)
    if op['op'] == 'observe':
        return observe(key, op['what'])
    args, kwargs = call_args(op, upto)
    if op['op'] == 'path':
        return key.subkey_for_path(*args, **kwargs)
    if op['op'] == 'child_private':
        return key.child_private(*args, **kwargs)
    if op['op'] == 'child_public':
        return key.child_public(*args, **kwargs)
    raise common.MachineryError('unknown op %r' % (op,))


_RECV = {}


def receiver(st, pre):
    """Key object reached from start `st` by the calls `pre` (memoised: chains share their prefixes)."""
    import json
    ck = json.dumps([st, pre], sort_keys=True)
    if ck not in _RECV:
        _RECV[ck] = apply_op(receiver(st, pre[:-1]), pre[-1]) if pre else make_start(st)
    return _RECV[ck]


def record_of(case):
    """Run the calls of `case` against bitcoinlib; returns the record for TLC (raises when the receiver cannot be made)."""
    st = case['start']
    pre = list(case['pre'])
    pub = False
    hist = []
    cut = len(pre)
    while cut and pre[cut - 1]['op'] in ('observe', 'public'):
        cut -= 1
    tail = pre[cut:]
    if any(op['op'] == 'observe' for op in tail):
        # a history of observations: made on an object of its own (nothing has read its caches before), in the order given;
        # public() inside the history copies the object as it is at that moment
        pre = pre[:cut]
        key = apply_op(receiver(st, pre[:-1]), pre[-1]) if pre else make_start(st)
        recv = key
        for op in tail:
            if op['op'] == 'public':
                pub = True
            else:
                hist.append(op['what'])
            recv = apply_op(recv, op)
    else:
        if pre and pre[-1]['op'] == 'public':
            pub = True
            pre = pre[:-1]
        key = receiver(st, pre)
        recv = key.public() if pub else key
    call = case['call']
    sobs = obs_key(key)
    if not pre:
        start = {'kind': st['kind'], 'seed': list(bytes.fromhex(st.get('seed', ''))), 'k': list(bytes.fromhex(st.get('k', ''))),
                 'c': list(bytes.fromhex(st.get('c', ''))), 'obs': sobs}
    else:
        start = {'kind': 'obs', 'seed': [], 'k': [], 'c': [], 'obs': sobs}
    if call['op'] == 'path':
        toks = ([call['root']] if call['root'] else []) + list(call['elems'])
        mids = [attempt(lambda j=j: apply_op(recv, call, j))[1] for j in range(1, len(call['elems']))]
        api = 'path'
        aslist = call['aslist']
        path = [] if aslist else codes('/'.join(toks))
        tl = [codes(t) for t in toks] if aslist else []
    else:
        mids = []
        api = call['op']
        aslist = True
        path = []
        tl = [codes(str(call['i']) + ("'" if call.get('h') else ''))]
    _, got = attempt(lambda: apply_op(recv, call), wif=True)
    return {'k': 'path', 'api': api, 'start': start, 'pub': pub, 'aslist': aslist, 'path': path, 'toks': tl, 'mids': mids,
            'hist': hist, 'net': key.network.name, 'callnet': call.get('net') or '', 'wt': str(key.witness_type).replace('-', '_'), 'got': got}


def drive_chunk(cases):
    """Records of a list of cases (None where the receiver of the call cannot be made)."""
    out = []
    for case in cases:
        try:
            out.append(record_of(case))
        except Exception:
            out.append(None)
    return out


def describe(case):
    st = case['start']
    s = 'from_seed(%s)' % st['seed'] if st['kind'] == 'seed' else 'HDKey(%skey=%s, chain=%s)' % (
        'Key, ' if st.get('via') else '', st['k'], st['c'])
    if not st.get('compressed', True):
        s += '[compressed=False]'
    ops = case['pre'] + [case['call']]
    if len(ops) > 14:
        ops = ops[:4] + [{'op': 'skip', 'n': len(ops) - 12}] + ops[-8:]
    for op in ops:
        if op['op'] == 'skip':
            s += '. ...%d more calls... ' % op['n']
            continue
        if op['op'] == 'public':
            s += '.public()'
        elif op['op'] == 'reimport':
            s += '.reimported(%s)' % ('compressed=False' if op.get('compressed') is False else '')
        elif op['op'] == 'observe':
            s += '.<%s>' % op['what']
        else:
            a, k = call_args(op)
            s += '.%s(%s)' % ('subkey_for_path' if op['op'] == 'path' else op['op'],
                              ', '.join([repr(x) for x in a] + ['%s=%r' % kv for kv in k.items()]))
    return s + ' [%s/%s]' % (st['net'], st['wt'])


def P(elems, root='m', aslist=False, net=None, conv='pos'):
    return {'op': 'path', 'root': root, 'elems': list(elems), 'aslist': aslist, 'net': net, 'conv': conv}


def CPRIV(i, h=None, net=None, conv='pos'):
    return {'op': 'child_private', 'i': i, 'h': h, 'net': net, 'conv': conv}


def CPUB(i, net=None, conv='pos'):
    return {'op': 'child_public', 'i': i, 'net': net, 'conv': conv}


def other_net(net):
    return {'bitcoin': 'testnet', 'testnet': 'litecoin', 'litecoin': 'bitcoin'}[net]


PUBLIC = {'op': 'public'}


def OBS(what):
    return {'op': 'observe', 'what': what}


# ------------------------------------------------------------------------------------------------------------
# input search (reference primitives used to FIND inputs, never as the oracle of a comparison)
# ------------------------------------------------------------------------------------------------------------

def special_children(seed):
    """Indices whose child of the master of `seed` has a leading zero byte in I_L or in the child key."""
    I = ref.hmac512(b'Bitcoin seed', seed)
    k, c = int.from_bytes(I[:32], 'big'), I[32:]
    K = ref.pubkey(k)
    out = {}
    for hard in (True, False):
        for i in range(4000):
            if len(out) >= 4:
                break
            idx = (i | 0x80000000) if hard else i
            data = (b'\0' + k.to_bytes(32, 'big') if hard else K) + idx.to_bytes(4, 'big')
            J = ref.hmac512(c, data)
            il = int.from_bytes(J[:32], 'big')
            if il >= ref.N:
                continue
            ck = (il + k) % ref.N
            if J[0] == 0 and ('il', hard) not in out:
                out[('il', hard)] = i
            if ck >> 248 == 0 and ('k', hard) not in out:
                out[('k', hard)] = i
    return [str(i) + ("'" if h else '') for (_, h), i in sorted(out.items())]


def vector_records():
    recs = []
    for seed, chain in ((TV1_SEED, TV1), (TV3_SEED, TV3)):
        keys = [obs_published(a, b) for _, a, b in chain]
        start = {'kind': 'seed', 'seed': list(bytes.fromhex(seed)), 'k': [], 'c': [], 'obs': keys[0]}
        for n in range(len(chain)):
            toks = ['m'] + [e for e, _, _ in chain[1:n + 1]]
            recs.append({'k': 'path', 'api': 'path', 'start': start, 'pub': False, 'aslist': False, 'path': codes('/'.join(toks)),
                         'toks': [], 'mids': keys[1:n], 'hist': [], 'net': 'bitcoin', 'callnet': '', 'wt': 'legacy', 'got': keys[n]})
    return recs


# ------------------------------------------------------------------------------------------------------------

def run(replay=None):
    common.fresh_bitcoinlib_env()
    ref.selftest()
    ck = Check(PID)
    thorough = tier() == 'thorough'
    rng = ck.rng
    ck.rule = ('one evaluation = one call (subkey_for_path / child_private / child_public, incl. the calls on all proper '
               'prefixes of its path) judged by TLC against Bip32.tla; class = (receiver kind, root marker, route, split, '
               'element classes of the path) for enumerated shapes, (deep, depth, split position) for random deep paths')
    ck.assumptions = ['TLC evaluates Bip32.tla correctly',
                      'harness/ref.py (hashlib HMAC-SHA512/SHA-256/RIPEMD-160, pure-Python secp256k1) is the standard '
                      'interpretation of the primitives; cross-checked at start-up against the published BIP32 vectors 1 and 3',
                      'invalid children (I_L >= n, k_i = 0, point at infinity; probability < 2^-127) are exercised only in the '
                      'toy-group model, not against the implementation',
                      'whether a path with no element ("M") returns the receiver itself or its public key is not compared',
                      'a bare index in [2^31, 2^32) denotes the hardened child (BIP32: i >= 2^31); refusing that spelling is accepted']
    orc = Oracle()
    import time as _t
    T = [_t.time()]

    def lap(what):
        if common.os.environ.get('VERIF_DEBUG'):
            print('DEBUG time %-10s %.1fs' % (what, _t.time() - T[0]))
        T[0] = _t.time()

    # ---------------- (M)  (runs beside the driver; joined before the verdict)
    from concurrent.futures import ThreadPoolExecutor
    mc = ThreadPoolExecutor(1).submit(common.model_check, 'MC_Bip32', 'MC_Bip32_thorough.cfg' if thorough else 'MC_Bip32.cfg',
                                      workers=4, expect_actions=['Choose', 'Answer', 'StepPriv', 'ToPublic', 'StepBoth'])

    # ---------------- self-test: the specification accepts the published vectors
    vrecs = vector_records()

    cases = []      # (case, class)

    def add(start, pre, call, klass):
        cases.append(({'start': start, 'pre': pre, 'call': call}, klass))

    eqcases = []
    if replay:
        c = replay['case']
        add(c['start'], c['pre'], c['call'], ('replay',))
        shapes = {}
    else:
        # ---------------- (G) path shapes enumerated by TLC
        maxlen = 3
        gen = common.tlc_eval('Bip32Eval', [{'k': 'gen', 'depth': d} for d in range(0, maxlen + 1)], cfg='Bip32Eval.cfg', procs=1)
        shapes = {d: [[''.join(chr(x) for x in tok) for tok in sh] for sh in g['exp']] for d, g in zip(range(0, maxlen + 1), gen)}
        nclass = len(shapes[1])
        classes = [s[0] for s in shapes[1]]
        if len(shapes[2]) != nclass ** 2 or len(shapes[3]) != nclass ** 3:
            raise common.MachineryError('shape enumeration incomplete')

        def cls(sh):
            return tuple(classes.index(t) for t in sh)

        def sample(lst, n):
            lst = list(lst)
            return lst if thorough and n >= len(lst) else (lst if n >= len(lst) else rng.sample(lst, n))

        # starts: seeds of 16/32/64 bytes and other lengths; master keys given directly (edge scalars)
        def seed_start(nbytes, i):
            net, wt = NETS[i % len(NETS)]
            return {'kind': 'seed', 'seed': bytes(rng.getrandbits(8) for _ in range(nbytes)).hex(), 'net': net, 'wt': wt}

        def key_start(k, i):
            net, wt = NETS[i % len(NETS)]
            return {'kind': 'key', 'k': k.to_bytes(32, 'big').hex(), 'c': bytes(rng.getrandbits(8) for _ in range(32)).hex(),
                    'net': net, 'wt': wt}

        def variants(st):
            """(network argument, calling convention): omitted / own network / another network x positional / keyword"""
            return [(n, c) for n in (None, st['net'], other_net(st['net'])) for c in ('pos', 'kw')]

        def anyvar(st):
            return rng.choice(variants(st)) if rng.random() < 0.5 else (None, 'pos')

        main = {'kind': 'seed', 'seed': bytes(rng.getrandbits(8) for _ in range(32)).hex(), 'net': 'bitcoin', 'wt': 'legacy'}
        nseeds = 24 if thorough else 5
        lens = [16, 32, 64] + [rng.randrange(16, 65) for _ in range(nseeds - 3)]
        others = [seed_start(n, i + 1) for i, n in enumerate(lens)]
        N = ref.N
        edge = [1, 2, N - 1, N - 2, 1 << 255, rng.getrandbits(240), rng.getrandbits(200), rng.randrange(1, N)]
        others += [key_start(k, i) for i, k in enumerate(edge if thorough else [edge[0], edge[2], edge[5], edge[7]])]

        # (1) main seed: every shape up to length 2 (thorough: 3) from the private master and from the public master
        full = 3 if thorough else 2
        for d in range(0, full + 1):
            for sh in shapes[d]:
                add(main, [], P(sh), ('priv', 'm', 'str', cls(sh)))
                add(main, [PUBLIC], P(sh), ('pub', 'm', 'str', cls(sh)))
        if not thorough:
            for sh in sample(shapes[3], 60):
                add(main, [], P(sh), ('priv', 'm', 'str', cls(sh)))
            for sh in sample(shapes[3], 60):
                add(main, [PUBLIC], P(sh), ('pub', 'm', 'str', cls(sh)))
        # (2) 'M' root (public derivation requested on a private key / on a public key), other routes
        for sh in shapes[0] + shapes[1] + sample(shapes[2], 600 if thorough else 50) + sample(shapes[3], 600 if thorough else 20):
            add(main, [], P(sh, 'M', False, *anyvar(main)), ('priv', 'M', 'str', cls(sh)))
        for sh in shapes[1] + sample(shapes[2], 200 if thorough else 15):
            add(main, [PUBLIC], P(sh, 'M', False, *anyvar(main)), ('pub', 'M', 'str', cls(sh)))
        for sh in sample(shapes[1] + shapes[2] + shapes[3], 900 if thorough else 70):
            root, aslist = rng.choice([('m', True), ('M', True), ('', True), ('', False)])
            pre = rng.choice([[], [PUBLIC]])
            add(main, pre, P(sh, root, aslist, *anyvar(main)), ('pub' if pre else 'priv', root, 'list' if aslist else 'rel', cls(sh)))
        # (3) the split between private and public derivation at every position, both spellings
        for sh in sample(shapes[1] + shapes[2] + shapes[3] + shapes[3], 700 if thorough else 90):
            for j in (range(0, len(sh) + 1) if thorough else [rng.randrange(0, len(sh) + 1)]):
                how = rng.choice(['public()', 'M'])
                pre = [P(sh[:j])] if j else []
                if how == 'public()':
                    add(main, pre + [PUBLIC], P(sh[j:], rng.choice(['m', ''])) if sh[j:] else P([], 'm'),
                        ('split', j, how, cls(sh)))
                else:
                    add(main, pre, P(sh[j:], 'M', False, *anyvar(main)), ('split', j, how, cls(sh)))
        # (4) other seeds / master keys: sampled shapes, plus children with leading zero bytes (found by search)
        for i, st in enumerate(others):
            sp = special_children(bytes.fromhex(st['seed'])) if st['kind'] == 'seed' else []
            for e in sp:
                add(st, [], P([e]), ('special', st['kind'], e[-1] == "'"))
                add(st, [], P([e, '0']), ('special', st['kind'], e[-1] == "'", 'child'))
                add(st, [], P([e, "0'"]), ('special', st['kind'], e[-1] == "'", 'hardened-child'))
                add(st, [P([e])], CPRIV(1, True), ('special', st['kind'], e[-1] == "'", 'hardened-child-api'))
                if e[-1] != "'":
                    add(st, [PUBLIC], P([e]), ('special-pub', st['kind']))
                    add(st, [PUBLIC], P([e, '1']), ('special-pub', st['kind'], 'child'))
            for sh in shapes[0] + sample(shapes[1], 5) + sample(shapes[2], 8 if not thorough else 40) + \
                    sample(shapes[3], 8 if not thorough else 40):
                pre = rng.choice([[], [], [PUBLIC]])
                add(st, pre, P(sh, rng.choice(['m', 'm', 'M']), False, *anyvar(st)), ('other', st['kind'], len(bytes.fromhex(st.get('seed', ''))),
                                                                   bool(pre), cls(sh)))
        # (5) deep random paths: every step through a randomly chosen API, the whole path in one call
        ndeep = 150 if thorough else 14
        for t in range(ndeep):
            st = rng.choice(others + [main])
            depth = rng.randrange(8, 13)
            split = rng.choice([None, None] + list(range(0, depth + 1)))
            elems = []
            for j in range(depth):
                i = rng.choice([0, 1, 2 ** 31 - 1, rng.randrange(2 ** 31), rng.randrange(2 ** 31), rng.randrange(1000)])
                hard = rng.random() < 0.5 and (split is None or j < split)
                elems.append((i, hard))
            toks = [str(i) + (rng.choice("'hHpP") if h else '') for i, h in elems]
            pre = []
            for j, (i, h) in enumerate(elems):
                if split == j:
                    pre = pre + [PUBLIC]
                pub = split is not None and j >= split
                if rng.random() < 0.12:
                    pre = pre + [{'op': 'reimport'}]
                how = rng.choice(['path', 'ckd', 'rel'])
                if how == 'ckd':
                    call = CPUB(i, *anyvar(st)) if pub or (not h and rng.random() < 0.2) \
                        else CPRIV(i, h if h or rng.random() < 0.5 else None, *anyvar(st))
                else:
                    call = P([toks[j]], 'm' if how == 'path' else '', rng.random() < 0.3, *anyvar(st))
                if call['op'] == 'child_public' and not pub:
                    add(st, pre, call, ('deep-step', 'child_public-on-private', h))
                    call = P([toks[j]])
                add(st, pre, call, ('deep-step', call['op'], pub, h, i in (0, 1, 2 ** 31 - 1)))
                pre = pre + [call]
            # the whole path in one call (from the split point when there is one)
            if split is None:
                add(st, [], P(toks), ('deep', depth, None))
            else:
                add(st, ([P(toks[:split])] if split else []) + [PUBLIC], P(toks[split:], rng.choice(['m', 'M', ''])) if toks[split:]
                    else P([], 'm'), ('deep', depth, split))
                # a hardened child of the public key at the end of the chain: never
                add(st, pre + ([PUBLIC] if split == depth else []), P(["%d%s" % (rng.randrange(2 ** 31), rng.choice("'hHpP"))]),
                    ('deep', 'hardened-from-public'))
                add(st, pre + ([PUBLIC] if split == depth else []), CPUB(2 ** 31 + rng.randrange(2 ** 31), *anyvar(st)),
                    ('deep', 'child_public-hardened-index'))
        # (4b) parents whose secret has leading zero bytes (master keys given directly): hardened and normal children
        for st in others:
            if st['kind'] == 'key' and st['k'].startswith('00'):
                for call in (P(["0'"]), P(['0']), P(["2147483647h", '1']), CPRIV(5, True), CPRIV(5), CPUB(5)):
                    add(st, [], call, ('leading-zero-parent', call['op'], len(call.get('elems', [0]))))
        # (8) across the depth limit of the serialization: parents at depth 250..255 of long chains built once (mixed
        #     hardened / normal levels; one chain leaves the private side early), children asked for privately and
        #     publicly through every entry point; depth <= 255 derives on both sides and commutes, beyond is not compared
        for ci, st in enumerate([main, others[0]]):
            chain = []
            for lvl in range(255):
                goes_public = ci == 1 and lvl == 3
                if goes_public:
                    chain.append(PUBLIC)
                hard = rng.random() < 0.4 and not (ci == 1 and lvl >= 3)
                i = rng.choice([0, 1, 2 ** 31 - 1, rng.randrange(2 ** 31)])
                step = P([str(i) + (rng.choice("'hH") if hard else '')], rng.choice(['m', '']))
                if lvl < 250 and (thorough or lvl % 16 == 5):
                    add(st, list(chain), step, ('long-chain-step', ci, hard))          # the chain itself, sampled
                chain.append(step)
            ops = [o for o in chain]
            # position in `ops` of the key at depth d: d path steps (+1 for the PUBLIC op of chain 1 beyond level 3)

            def upto(d, ops=ops, ci=ci):
                return ops[:d + (1 if ci == 1 and d > 3 else 0)]
            for d in (250, 252, 253, 254, 255):
                pre = upto(d)
                isprivate = ci == 0
                i1, i2, i3 = rng.randrange(2 ** 31), rng.choice([0, 1, 2 ** 31 - 1]), rng.randrange(1000)
                recvs = [(pre, 'priv'), (pre + [PUBLIC], 'pub')] if isprivate else [(pre, 'pub')]
                for rp, pk in recvs:
                    for root in ('m', 'M', ''):
                        add(st, rp, P([str(i1)], root, False, *anyvar(st)), ('depth', d, pk, 'path', root, 1))
                        add(st, rp, P([str(i2), str(i3)], root, rng.random() < 0.3), ('depth', d, pk, 'path', root, 2))
                    add(st, rp, P([str(i3), str(i1), str(i2)]), ('depth', d, pk, 'path', 'm', 3))
                    add(st, rp, CPUB(i1, *anyvar(st)), ('depth', d, pk, 'child_public'))
                    add(st, rp, CPRIV(i1, None, *anyvar(st)), ('depth', d, pk, 'child_private'))
                    if pk == 'priv':
                        add(st, rp, P([str(i2) + "'"]), ('depth', d, pk, 'path-hardened'))
                        add(st, rp, CPRIV(i2, True), ('depth', d, pk, 'child_private-hardened'))
                        add(st, rp, P([str(i2) + "'", str(i3)], 'm'), ('depth', d, pk, 'path-hardened', 2))
                if isprivate and d < 255:
                    # the same child, privately and publicly: neither side may refuse, both give the same key
                    for i in (i1, i2):
                        a = pre + [CPRIV(i), PUBLIC]
                        for b in (pre + [PUBLIC, CPUB(i)], pre + [CPUB(i)], pre + [P([str(i)], 'M')],
                                  pre + [PUBLIC, P([str(i)], rng.choice(['m', 'M', '']))]):
                            eqcases.append((st, a, b, ('commute-depth', d, b[-1]['op'], len(b) - len(pre))))
                if d == 255:
                    # serialization round trip of the deepest keys
                    eqcases.append((st, pre, pre + [{'op': 'reimport'}], ('roundtrip', 255, 'own')))
                    if isprivate:
                        eqcases.append((st, pre + [PUBLIC], pre + [PUBLIC, {'op': 'reimport'}], ('roundtrip', 255, 'xpub')))
        # (9) observation histories: whatever a key object was asked before / between derivations (addresses in every form,
        #     serializations, hashes, dumps, public(), earlier derivations) - derivation and serialization stay the same.
        #     Every history is played on an object of its own, so nothing has filled its caches before.
        obsnames = sorted(OBSERVERS)
        hstarts = [main, dict(main, wt='segwit'), others[1], others[-1]]
        hcalls = [lambda: P(['0']), lambda: P(["1'"]), lambda: CPUB(2), lambda: P(['3', '4'], 'M'), lambda: CPRIV(5, True),
                  lambda: P(['6', "7'"]), lambda: CPRIV(8)]
        hn = [0]

        def hist_case(st, base, hist, klass):
            """history `hist` (observer names, 'PUBLIC' = take the public key there) on the key reached by `base`"""
            tail = [PUBLIC if h == 'PUBLIC' else OBS(h) for h in hist]
            public = 'PUBLIC' in hist
            for _ in range(2):
                call = hcalls[hn[0] % len(hcalls)]()
                hn[0] += 1
                if public and (call['op'] == 'child_private' or any(e[-1] == "'" for e in call.get('elems', []))):
                    continue        # (refusals of hardened children of public keys: groups 1-3)
                add(st, base + tail, call, klass)
        for si, st in enumerate(hstarts if thorough else hstarts[:2]):
            for base in ([], [P(["5'"])], [P(["5'", '6'])]):
                for o in obsnames:                                   # every single observer, before and after public()
                    hist_case(st, base, [o], ('history', 1, o, len(base), 'priv'))
                    if thorough or (si + len(base)) % 2 == 0:
                        hist_case(st, base, [o, 'PUBLIC'], ('history', 1, o, len(base), 'obs-then-public'))
                        hist_case(st, base, ['PUBLIC', o], ('history', 1, o, len(base), 'public-then-obs'))
        for t in range(600 if thorough else 70):                     # longer histories, all kinds of receivers
            st = rng.choice(hstarts)
            base = rng.choice([[], [P(["5'"])], [P(['9', '1'])], [P(["0'"]), {'op': 'reimport'}]])
            hist = [rng.choice(obsnames) for _ in range(rng.randrange(2, 6))]
            if rng.random() < 0.5:
                hist.insert(rng.randrange(len(hist) + 1), 'PUBLIC')
            hist_case(st, base, hist, ('history', len(hist), tuple(hist[:2]), len(base)))
        # (10) the `compressed` flag of the parent object is no part of the extended key: serP is the compressed point
        #      for every parent; private, public and mixed-split derivation agree with BIP32 whatever the flag
        ustarts = [dict(main, compressed=False), dict(others[1], compressed=False), dict(others[-1], compressed=False),
                   {'kind': 'key', 'via': 'Key', 'k': '%064x' % rng.randrange(1, ref.N), 'c': '00' * 32, 'net': 'bitcoin',
                    'wt': 'legacy', 'compressed': False},
                   {'kind': 'key', 'via': 'Key', 'k': '%064x' % rng.randrange(1, ref.N), 'c': '00' * 32, 'net': 'testnet',
                    'wt': 'segwit', 'compressed': True}]
        ubases = [(st, []) for st in ustarts] + \
                 [(main, [P(["0'"]), {'op': 'reimport', 'compressed': False}]),
                  (main, [P(['1', '2']), {'op': 'reimport', 'compressed': False}]),
                  (main, [P(['1']), PUBLIC, {'op': 'reimport', 'compressed': False}]),
                  (others[0], [{'op': 'reimport', 'compressed': False}])]
        for st, base in ubases:
            kind = ('uncompressed', st.get('via', st['kind']), len(base))
            pubonly = PUBLIC in base
            for sh in ([['0'], ['1'], ['2147483647'], ["0'"], ['0h'], ['2147483648'], ['1', '2'], ["1'", '2'], ['1', "2'"],
                        ['3', '4', '5']] + sample(shapes[2], 30 if thorough else 3)):
                for root in ('m', 'M'):
                    add(st, base, P(sh, root, rng.random() < 0.2, *anyvar(st)), kind + ('path', root, cls(sh) if all(
                        t in classes for t in sh) else tuple(sh)))
                if not pubonly:
                    add(st, base + [PUBLIC], P(sh, rng.choice(['m', ''])), kind + ('path', 'public()', len(sh)))
                    for j in range(1, len(sh)):                      # every split point
                        add(st, base + [P(sh[:j]), PUBLIC], P(sh[j:], rng.choice(['m', 'M', ''])), kind + ('split', j, len(sh)))
            for i in (0, 7, 2 ** 31 - 1):
                add(st, base, CPUB(i, *anyvar(st)), kind + ('child_public', i))
                if not pubonly:
                    add(st, base, CPRIV(i, rng.choice([None, False]), *anyvar(st)), kind + ('child_private', i))
                    add(st, base, CPRIV(i, True), kind + ('child_private-hardened', i))
                    add(st, base + [PUBLIC], CPUB(i), kind + ('child_public-of-public()', i))
                    a = base + [CPRIV(i), PUBLIC]
                    for b in (base + [PUBLIC, CPUB(i)], base + [CPUB(i)], base + [P([str(i)], 'M')],
                              base + [PUBLIC, P([str(i), '1'], 'm')]):
                        a2 = a if b[-1]['op'] != 'path' or len(b[-1]['elems']) == 1 else base + [P([str(i), '1']), PUBLIC]
                        eqcases.append((st, a2, b, ('commute-uncompressed', kind, b[-1]['op'], len(b) - len(base))))
        # (6) API edge cases
        for st in [main, others[0]]:
            for i, h in [(0, False), (0, True), (2 ** 31 - 1, True), (2 ** 31, False), (2 ** 31, True), (2 ** 32 - 1, False),
                         (2 ** 32 - 1, True), (2 ** 32, False), (2 ** 32, True), (-1, False), (-1, True)]:
                add(st, [], CPRIV(i, h), ('api', 'child_private', i, h))
                add(st, [PUBLIC], CPRIV(i, h), ('api', 'child_private-on-public', i, h))
            for i in [0, 1, 2 ** 31 - 1, 2 ** 31, 2 ** 31 + 1, 2 ** 32 - 1, 2 ** 32, -1]:
                add(st, [], CPUB(i), ('api', 'child_public-on-private', i))
                add(st, [PUBLIC], CPUB(i), ('api', 'child_public', i))
        # (7) every optional argument of every derivation entry point, given and omitted, positionally and by keyword,
        #     on private and public-only receivers: network (own / another network's name), hardened flag
        for st in ([main, others[0], others[-1]] if thorough else [main, others[-1]]):
            for net, conv in variants(st):
                tag = ('own' if net == st['net'] else 'other' if net else 'omitted', conv)
                for pre in ([], [PUBLIC]):
                    pk = 'pub' if pre else 'priv'
                    if net is not None:         # (omitted: groups 1 and 2)
                        for root in (['m', 'M'] if st is main and (thorough or not pre) else ['M']):
                            for sh in (shapes[1] if st is main else sample(shapes[1], 6)):
                                add(st, pre, P(sh, root, False, net, conv), ('args', 'path', pk, root, tag, cls(sh)))
                        for sh in sample(shapes[2] + shapes[3], 40 if thorough else 5):
                            add(st, pre, P(sh, rng.choice(['m', 'M', '']), rng.random() < 0.3, net, conv),
                                ('args', 'path', pk, 'long', tag, cls(sh)))
                    for i in ([0, 1, 2 ** 31 - 1, 2 ** 31, 2 ** 32 - 1] if thorough or st is main else [0, 2 ** 31]):
                        for h in ([None, False, True] if not pre else [None, True]):
                            add(st, pre, CPRIV(i, h, net, conv), ('args', 'child_private', pk, i, h, tag))
                    for i in [0, 1, 5, 2 ** 31 - 1, 2 ** 31]:
                        add(st, pre, CPUB(i, net, conv), ('args', 'child_public', pk, i, tag))
                # public(private child) = child of public(parent), whichever entry point and arguments
                for i in [0, 1, 7, 2 ** 31 - 1, rng.randrange(2 ** 31)]:
                    a = [CPRIV(i, rng.choice([None, False]), net, conv), PUBLIC]
                    for b in ([PUBLIC, CPUB(i, net, conv)], [CPUB(i, net, conv)], [P([str(i)], 'M', False, net, conv)],
                              [PUBLIC, P([str(i)], rng.choice(['m', 'M', '']), False, net, conv)]):
                        eqcases.append((st, a, b, ('commute', b[-1]['op'], len(b), tag)))

    lap('generate')
    # ---------------- drive bitcoinlib
    recs = []
    kept = []
    unreachable = 0
    only = [c for c, _ in cases]
    if len(only) > 4000:        # thorough tier: spread the driver over fresh interpreters
        size = 400
        parts = common.pmap(drive_chunk, [only[i:i + size] for i in range(0, len(only), size)], procs=8)
        driven = [r for part in parts for r in part]
    else:
        driven = drive_chunk(only)
    for (case, klass), rec in zip(cases, driven):
        if rec is None:
            unreachable += 1          # a receiver of this case does not exist (an earlier call of the chain was refused)
            continue
        recs.append(rec)
        kept.append((case, klass))

    # commutation on the reference curve (spec + reference primitives against each other), private receivers observed above
    crecs = []
    privs = [r['got'] for r in recs if r['got']['ok'] and r['got']['priv']]
    for o in rng.sample(privs, min(400 if thorough else 40, len(privs))):
        tok = rng.choice(['0', '1', '2147483647', str(rng.randrange(2 ** 31)), "5'"])
        crecs.append({'k': 'commute', 'start': {'kind': 'obs', 'seed': [], 'k': [], 'c': [], 'obs': o}, 'tok': codes(tok)})

    # the same child through two routes (key material only; the objects' networks are those asked for in both)
    erecs = []
    ekept = []
    for st, a, b, klass in eqcases:
        try:
            ka, kb = receiver(st, a), receiver(st, b)
        except Exception:
            ekept.append((st, a, b, klass, None))
            continue
        erecs.append({'k': 'eq', 'a': obs_key(ka), 'b': obs_key(kb)})
        ekept.append((st, a, b, klass, len(erecs) - 1))
    lap('drive')
    # ---------------- judge everything with TLC
    verdicts = orc.judge(vrecs + crecs + recs + erecs)
    lap('judge')
    for r, v in zip(vrecs + crecs, verdicts):
        if v['v'] != 'ok':
            raise common.MachineryError('specification / reference primitives fail their self-test (%s): clause %s at %s' % (
                'published BIP32 vector' if r['k'] == 'path' else 'commutation on secp256k1', v['v'], v.get('at')))
    ev = verdicts[len(vrecs) + len(crecs) + len(recs):]
    for st, a, b, klass, ix in ekept:
        ck.case(klass)
        da = describe({'start': st, 'pre': a[:-1], 'call': a[-1]})
        db = describe({'start': st, 'pre': b[:-1], 'call': b[-1]})
        if ix is None:
            ck.violation(None, 'clause commutation-route-refused: one of %s | %s is refused' % (da, db),
                         {'start': st, 'pre': b[:-1], 'call': b[-1]})
        elif ev[ix]['v'] != 'ok':
            ck.violation(None, 'clause public-and-private-derivation-differ: %s  is not the same key as  %s' % (da, db),
                         {'start': st, 'pre': b[:-1], 'call': b[-1]})
    for (case, klass), rec, v in zip(kept, recs, verdicts[len(vrecs) + len(crecs):len(vrecs) + len(crecs) + len(recs)]):
        ck.case(klass)
        if v['v'] != 'ok':
            got = rec['got']
            text = '%s: clause %s (step %s); got %s, specification expects %s' % (
                describe(case), v['v'], v['at'],
                ('key ' + bytes(got['P']).hex() + ' idx ' + bytes(got['idx']).hex()) if got['ok'] else 'refusal',
                ('key ' + bytes(v['exp'][1]).hex() + ' idx ' + bytes(v['exp'][5]).hex()) if len(v['exp']) == 6 else
                (''.join(chr(c) for c in v['exp'][0]) if v['exp'] else 'refusal / no such key'))
            devs = v['devs'] or [None]
            for key in devs:
                ck.violation(key, text, case)
    ck.model(mc.result())
    lap('model')
    ck.traces = len(recs)
    for i in ([0, len(kept) // 3, len(kept) // 2, (2 * len(kept)) // 3, len(kept) - 1] if kept else []):
        ck.sample({'call': describe(kept[i][0]), 'answer': 'key' if recs[i]['got']['ok'] else 'refused'}, limit=8)
    ck.notes['path_shapes_enumerated_by_tlc'] = {str(d): len(s) for d, s in shapes.items()}
    ck.notes['calls_on_prefixes'] = sum(len(r['mids']) for r in recs)
    ck.notes['published_vector_records'] = len(vrecs)
    ck.notes['commutation_records'] = len(crecs)
    ck.notes['cases_with_refused_receiver'] = unreachable
    ck.notes['oracle'] = {'rounds': orc.rounds, 'applications': orc.applications}
    return ck.finish()
