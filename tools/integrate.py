#!/usr/bin/env python3
"""integrate.py CXX [--fix n=key1,key2 ...]: take over a builder's delivery for property CXX.

* applies the listed fix proposals to /repo (tools/apply_fixes.py, one "fix:" commit each) and records the known-finding
  keys each one repairs as `fixed` entries with the commit;
* merges the remaining entries of known_findings.d/CXX.json into known_findings.json as `known` and removes the file;
* adds / refreshes the check entry in tools/checks.json from tools/builders/CXX.json.
"""
import json, os, subprocess, sys
pid = sys.argv[1]
fixes = {}
for a in sys.argv[2:]:
    if a.startswith('--fix'):
        continue
    n, keys = a.split('=')
    fixes[n] = [k for k in keys.split(',') if k]
V = '/verif'
kf = json.load(open(V + '/known_findings.json'))
have = {(x['property'], x['key']): x for x in kf['findings']}
dpath = '%s/known_findings.d/%s.json' % (V, pid)
new = json.load(open(dpath))['findings'] if os.path.exists(dpath) else []
commit_of = {}
for n, keys in fixes.items():
    out = subprocess.run([sys.executable, V + '/tools/apply_fixes.py', pid, n], capture_output=True, text=True).stdout
    print(out.strip())
    if 'APPLIED' not in out:
        sys.exit('fix %s of %s did not apply' % (n, pid))
    h = out.split('->')[1].split()[0]
    for k in keys:
        commit_of[k] = h
for x in new:
    key = (x['property'], x['key'])
    if x['key'] in commit_of:
        e = {'property': x['property'], 'status': 'fixed', 'commit': commit_of[x['key']], 'key': x['key'],
             'what': 'fixed: property=%s %s %s' % (x['property'], commit_of[x['key']], x['what'])}
    else:
        e = {'property': x['property'], 'status': 'known', 'key': x['key'], 'what': x['what']}
    if key in have:
        have[key].clear()
        have[key].update(e)
    else:
        kf['findings'].append(e)
    print(e['status'], x['key'])
for k, h in commit_of.items():
    if (pid, k) in have and have[(pid, k)].get('status') == 'known':
        x = have[(pid, k)]
        x.update({'status': 'fixed', 'commit': h, 'what': 'fixed: property=%s %s %s' % (pid, h, x['what'])})
        print('fixed (was known)', k)
json.dump(kf, open(V + '/known_findings.json', 'w'), indent=1)
if os.path.exists(dpath):
    os.remove(dpath)
b = json.load(open('%s/tools/builders/%s.json' % (V, pid)))
cj = json.load(open(V + '/tools/checks.json'))
cj['checks'] = [c for c in cj['checks'] if c['property_id'] != pid] + [b['check']]
cj['checks'].sort(key=lambda c: c['property_id'])
json.dump(cj, open(V + '/tools/checks.json', 'w'), indent=1)
print('checks.json:', len(cj['checks']), 'checks')
