#!/usr/bin/env python3
"""apply_fixes.py CXX [n ...]: apply the builder's fix proposals of property CXX to /repo, one "fix:" commit each."""
import json, subprocess, sys, textwrap
pid = sys.argv[1]
only = set(sys.argv[2:])
d = json.load(open('/verif/tools/builders/%s.json' % pid))
for fp in d['fix_proposals']:
    f = '/verif/' + fp['file']
    n = f.rsplit('_', 1)[1].split('.')[0]
    if only and n not in only:
        continue
    r = subprocess.run(['git', '-C', '/repo', 'apply', '--3way', f], capture_output=True, text=True)
    if r.returncode:
        print('DOES NOT APPLY', f, r.stderr[:300])
        subprocess.run(['git', '-C', '/repo', 'checkout', '--', '.'])
        continue
    what = ' '.join(fp['what'].split())
    subjects = json.load(open('/verif/tools/builders/subjects.json'))
    subj = what.split(': ', 1)[-1] if what.lower().startswith('bitcoinlib/') else what
    subj = subj.split('. ')[0].split(' (')[0]
    subj = subj[:1].lower() + subj[1:]
    subj = subjects.get('%s_fix_%s' % (pid, n), subj)
    body = '\n'.join(textwrap.wrap(what, 76))
    subprocess.run(['git', '-C', '/repo', 'add', '-A', 'bitcoinlib'], check=True)
    subprocess.run(['git', '-C', '/repo', 'commit', '-q', '-m', 'fix: %s\n\n%s' % (subj, body)], check=True)
    h = subprocess.run(['git', '-C', '/repo', 'log', '--oneline', '-1'], capture_output=True, text=True).stdout.strip()
    print('APPLIED', f, '->', h)
