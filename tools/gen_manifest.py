#!/usr/bin/env python3
"""Generate /verif/MANIFEST.json from tools/checks.json (one entry per built check)."""
import json, os
V = '/verif'
props = [json.loads(l) for l in open(V + '/properties.jsonl')]
checks = json.load(open(V + '/tools/checks.json'))
built = {c['property_id']: c for c in checks['checks']}
man = {
    'version': 1,
    'setup_cmd': 'cd /verif && ./setup.sh',
    'hooks': {
        'guard': 'BITCOINLIB_VERIF',
        'enable': 'no source hooks: every abstract state is observed through the public API; the checks import bitcoinlib '
                  'from /repo\'s working tree in a fresh process with a fresh BCL_DATA_DIR (env BITCOINLIB_VERIF=1 is set but unused)',
        'baseline_off_cmd': 'cd /repo && /venv/bin/python -m pytest -ra -q -p no:cacheprovider --timeout=900 '
                            '--continue-on-collection-errors --junitxml=/tmp/baseline_off.junit.xml',
        'source_commits': [],
        'add_only': True,
    },
    'engines': [
        {'name': 'tlc', 'path': '/opt/veriftools/tla/tla2tools.jar', 'serves_properties': sorted(built),
         'kind_free_text': 'TLC 1.8 explicit-state model checker: exhaustive bounded models (MC_*.cfg), behaviour generation, '
                           'and evaluation of the *Eval/*Trace modules that judge records and traces observed from bitcoinlib'},
        {'name': 'harness', 'path': '/verif/harness', 'serves_properties': sorted(built),
         'kind_free_text': 'Python drivers (run by /venv/bin/python) that replay specification behaviours into bitcoinlib and record '
                           'its answers as traces for TLC'},
    ],
    'checks': [],
    'notes': checks.get('notes', ''),
    'not_applicable': [],
}
for p in props:
    pid = p['id']
    if pid in built:
        c = built[pid]
        man['checks'].append({
            'property_id': pid,
            'quick_cmd': './check %s --tier quick' % pid,
            'thorough_cmd': './check %s --tier thorough' % pid,
            'evidence_file': '/verif/evidence/%s.json' % pid,
            'replay_cmd_template': './check %s --replay {path}' % pid,
            'engine': 'tlc',
            'level_claimed': {'category': 'model_checking', 'text': c['level_text'], 'design_ref': c.get('design_ref', 'DESIGN.md §3 ' + pid)},
            'level_note': c['level_note'],
            'technique': c['technique'],
        })
    else:
        man['not_applicable'].append({'property_id': pid, 'reason': checks.get('unbuilt', {}).get(
            pid, 'check not built yet in this session (planned with the same TLA+ technique, see DESIGN.md §3 %s); nothing is claimed' % pid)})
json.dump(man, open(V + '/MANIFEST.json', 'w'), indent=1)
import jsonschema
jsonschema.validate(man, json.load(open('/root/.vp/MANIFEST.schema.json')))
print('MANIFEST.json: %d checks, %d not_applicable' % (len(man['checks']), len(man['not_applicable'])))
