#!/bin/sh
# tools/run_all.sh [tier]: run every registered check on the current /repo tree, one line per check.
cd /verif || exit 2
T="${1:-quick}"
for id in $(python3 -c "import json; print(' '.join(c['property_id'] for c in json.load(open('MANIFEST.json'))['checks']))"); do
  s=$(date +%s)
  ./check $id --tier $T > /tmp/runall_$id.log 2>&1; rc=$?
  e=$(date +%s)
  echo "$id exit=$rc $(($e-$s))s violations=$(grep -c '^VIOLATION' /tmp/runall_$id.log) known=$(grep -c '^KNOWN-FINDING' /tmp/runall_$id.log) | $(tail -1 /tmp/runall_$id.log | cut -c1-150)"
done
