#!/usr/bin/env python3
"""check_baseline.py <junit.xml>: every test of BASELINE.json's stable_pass must have passed."""
import json, sys
import xml.etree.ElementTree as ET
base = set(json.load(open('/root/.vp/BASELINE.json'))['stable_pass'])
passed = set()
for tc in ET.parse(sys.argv[1]).getroot().iter('testcase'):
    ok = not any(ch.tag in ('failure', 'error', 'skipped') for ch in tc)
    name = '%s::%s' % (tc.get('classname'), tc.get('name'))
    if ok:
        passed.add(name)
missing = sorted(base - passed)
print('stable_pass: %d, passed now: %d, stable tests not passing: %d' % (len(base), len(passed), len(missing)))
for m in missing[:20]:
    print('  MISSING', m)
sys.exit(1 if missing else 0)
