#!/bin/sh
# Offline setup: nothing to build; verify that the tools are present and that every specification parses.
set -e
cd "$(dirname "$0")"
command -v java >/dev/null
test -x /venv/bin/python
/venv/bin/python -c "import sys; sys.path.insert(0,'/repo'); import bitcoinlib" >/dev/null 2>&1 || { echo "bitcoinlib not importable"; exit 1; }
cd spec
fail=0
for f in *.tla; do
  java -cp /opt/veriftools/tla/tla2tools.jar:/opt/veriftools/tla/CommunityModules-deps.jar tla2sany.SANY "$f" > /tmp/sany_$$.log 2>&1 || true
  if grep -q "Semantic errors\|Parse Error\|Fatal errors\|Could not" /tmp/sany_$$.log; then echo "SANY FAILED: $f"; cat /tmp/sany_$$.log | tail -20; fail=1; fi
done
rm -f /tmp/sany_$$.log
exit $fail
