SPECIFICATION Spec
CONSTANTS
  SmallMax = 1000
  DecSet <- ThoroughDecs
INVARIANT RoundTrip
INVARIANT Envelope
INVARIANT TextReads
INVARIANT NonNegInt
INVARIANT UnitUnique
INVARIANT Placed
INVARIANT SufficientIsEnough
CHECK_DEADLOCK FALSE
