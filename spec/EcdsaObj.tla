----------------------------- MODULE EcdsaObj -----------------------------
(***************************************************************************)
(* C13, the verifier as a state machine over ONE Signature object.  The    *)
(* object carries (r, s) and may name a public key and a digest; both can  *)
(* be given at construction, assigned as attributes, or passed to verify() *)
(* - which may also be called with either argument omitted.  The rule for  *)
(* every call is                                                           *)
(*     verdict = ECDSA(digest in force, key in force, r, s)                *)
(* where the digest / key in force is the one the call names, else the one *)
(* the object reports (sig.txid / sig.public_key) at that moment; if there *)
(* is none the call is refused.  Whether an argument of verify() sticks to *)
(* the object is the library's choice (successor SET below); what it may   *)
(* not do is report one key and verify against another, or name something  *)
(* it was never given.                                                     *)
(* Every public route that ends in a verdict is an ENTRY POINT of the same  *)
(* machine (field `via` of a verify action):                               *)
(*   method         sig.verify(digest, key)            - the object's own  *)
(*   module-object  verify(digest, sig, key)           - the module-level  *)
(*                  function handed the object                             *)
(*   module-raw / module-der / module-hex / module-der-noht                *)
(*                  verify(digest, <serialized signature>, key): 64 bytes, *)
(*                  DER + hash type, the same as hex text, DER without the *)
(*                  hash-type byte (refusing that one is permitted)        *)
(* The verdict is ECDSA(digest in force, key NAMED BY THE CALL, else the   *)
(* one the object reports) on every route; a serialized signature names    *)
(* nothing, so both must be given, and such a call leaves the object alone.*)
(* Keys and digests are indices 1, 2 (0 = none / omitted); (r, s) was made *)
(* by key `signer` over digest 1, and fact[k][z] is the oracle fact         *)
(* ECDSA(z, k, r, s) of the reference implementation.                      *)
(***************************************************************************)
EXTENDS Ecdsa

ObjectRoutes == {"method", "module-object"}
SerializedRoutes == {"module-raw", "module-der", "module-hex", "module-der-noht"}
Routes == ObjectRoutes \cup SerializedRoutes
VerifyActs(R) == [a : {"verify"}, via : R, z : 0..2, k : 0..2]
Setters == [a : {"setkey"}, via : {""}, z : {0}, k : 1..2] \cup [a : {"setdigest"}, via : {""}, z : 1..2, k : {0}]
ObjActs == VerifyActs(Routes) \cup Setters
\* actions that can change what the object names (the serialized routes cannot)
StatefulActs(R) == VerifyActs(R \cap ObjectRoutes) \cup Setters
\* how the object came to be: what it names at first, and who signed
Constructions == {"sign", "rs", "parse-k1", "parse-k2", "init-k1-signed-by-k2"}
InitObj(c) == CASE c = "sign" -> [key |-> 1, z |-> 1]                      \* sign(z1, k1) returns an object naming both
                [] c = "rs" -> [key |-> 0, z |-> 0]                          \* Signature(r, s) / parse_bytes(sig)
                [] c = "parse-k1" -> [key |-> 1, z |-> 0]                    \* parse_bytes(sig, public_key=k1)
                [] c = "parse-k2" -> [key |-> 2, z |-> 0]
                [] c = "init-k1-signed-by-k2" -> [key |-> 1, z |-> 1]        \* Signature(r, s, txid=z1, public_key=k1), (r, s) by k2
SignerOf(c) == IF c = "init-k1-signed-by-k2" THEN 2 ELSE 1

\* all call sequences of length 1..L over the routes R: state-changing actions followed by one last verify call on any
\* route of R (what happens after the last verdict is not observed; a serialized route changes nothing)
ObjSeqs(L, R) == UNION { {q \in [1..l -> StatefulActs(R) \cup VerifyActs(R)] :
                             q[l].a = "verify" /\ \A i \in 1..(l - 1) : q[i] \in StatefulActs(R)} : l \in 1..L }

\* states the specification allows after an action (the named key / digest may or may not follow a verify argument)
ObjSucc(st, act) ==
    CASE act.a = "setkey" -> {[st EXCEPT !.key = act.k]}
      [] act.a = "setdigest" -> {[st EXCEPT !.z = act.z]}
      [] act.via \in SerializedRoutes -> {st}
      [] OTHER -> {[key |-> kk, z |-> zz] : kk \in {st.key} \cup ({act.k} \ {0}), zz \in {st.z} \cup ({act.z} \ {0})}
\* verdict the specification expects of a verify call made in state st
Expected(st, act, fact) ==
    LET ser == act.via \in SerializedRoutes
        zf == IF act.z # 0 \/ ser THEN act.z ELSE st.z
        kf == IF act.k # 0 \/ ser THEN act.k ELSE st.key
    IN IF zf = 0 \/ kf = 0 THEN "reject" ELSE IF fact[kf][zf] THEN "accept" ELSE "reject"
\* DER without the hash-type byte is outside the interface contract: refusing it is permitted, accepting only if ECDSA holds
VerdictOk(st, act, fact, obs) == obs = Expected(st, act, fact) \/ (act.via = "module-der-noht" /\ obs = "reject")

\* judge of a recorded sequence.  e = [a, z, k, pk, tz, obs]: pk / tz = the key / digest index the object reported just
\* before the call (0 none, 3 = something it was never given), obs = "accept" | "reject" (verify calls; "" otherwise)
RECURSIVE ObjRun(_, _, _, _, _)
ObjRun(S, evs, i, fact, acc) ==
    IF i > Len(evs) THEN acc
    ELSE LET e == evs[i]
             T == {s \in S : s.key = e.pk /\ s.z = e.tz}
         IN IF T = {} THEN Append(acc, <<Bad("object-reports-key-or-digest-it-should-not-name", "", <<>>)>>)
            ELSE LET bad == e.a = "verify" /\ \E s \in T : ~VerdictOk(s, e, fact, e.obs)
                     exp == Expected(CHOOSE s \in T : TRUE, e, fact)
                 IN ObjRun(UNION {ObjSucc(s, e) : s \in T}, evs, i + 1, fact,
                           Append(acc, IF bad THEN <<Bad("verdict-differs-from-ecdsa-of-digest-and-key-in-force", "", <<exp>>)>> ELSE <<>>))
ObjJudge(c, evs, fact) == ObjRun({InitObj(c)}, evs, 1, fact, <<>>)
ObjBlamed(fs) == \E i \in 1..Len(fs) : fs[i] # <<>>

\* ------------------------------------------------------------------ abstract implementations (for the model MC_EcdsaObj)
\* impl state: key, z as reported; point = the key whose curve point the verification really uses
\*   "sticks"   : arguments of verify() become the object's key / digest                      (conforming)
\*   "restores" : a key that did not verify is dropped again, completely                      (conforming)
\*   "stale"    : a key that did not verify is dropped from the report only, its point stays   (faulty)
\*   "objkey-wins" : like "sticks", but on the module-object route the key the object carries wins over the key the
\*                caller names                                                                (faulty)
ImplInit(c) == [key |-> InitObj(c).key, z |-> InitObj(c).z, point |-> InitObj(c).key]
ImplStep(impl, st, act, fact) ==      \* [st, ev]
    LET ev0 == [a |-> act.a, via |-> act.via, z |-> act.z, k |-> act.k, pk |-> st.key, tz |-> st.z, obs |-> ""] IN
    CASE act.a = "setkey" -> [st |-> [st EXCEPT !.key = act.k, !.point = act.k], ev |-> ev0]
      [] act.a = "setdigest" -> [st |-> [st EXCEPT !.z = act.z], ev |-> ev0]
      [] act.via \in SerializedRoutes ->
           [st |-> st, ev |-> [ev0 EXCEPT !.obs = IF act.z # 0 /\ act.k # 0 /\ fact[act.k][act.z] THEN "accept" ELSE "reject"]]
      [] OTHER ->
           LET zf == IF act.z # 0 THEN act.z ELSE st.z
               named == IF impl = "objkey-wins" /\ act.via = "module-object" /\ st.key # 0 THEN 0 ELSE act.k
               kf == IF named # 0 THEN named ELSE st.key
               pf == IF named # 0 THEN named ELSE st.point
               ok == zf # 0 /\ kf # 0 /\ fact[pf][zf]
               keep == impl \in {"restores", "stale"} /\ ~ok
           IN [st |-> [key |-> IF keep THEN st.key ELSE kf, z |-> zf,
                       point |-> IF impl = "restores" /\ ~ok THEN st.point ELSE pf],
               ev |-> [ev0 EXCEPT !.obs = IF ok THEN "accept" ELSE "reject"]]
RECURSIVE ImplEvents(_, _, _, _, _)
ImplEvents(impl, st, q, i, fact) ==
    IF i > Len(q) THEN <<>>
    ELSE LET x == ImplStep(impl, st, q[i], fact) IN <<x.ev>> \o ImplEvents(impl, x.st, q, i + 1, fact)
FactOf(signer) == [k \in 1..2 |-> [z \in 1..2 |-> k = signer /\ z = 1]]
=============================================================================
