----------------------------- MODULE EcdsaObj -----------------------------
(***************************************************************************)
(* C13, the verifier as a state machine over ONE Signature object.  The    *)
(* object carries (r, s) and may name a public key and a digest; both can  *)
(* be given at construction, assigned as attributes, or passed to verify() *)
(* - which may also be called with either argument omitted.  The rule for  *)
(* every call is                                                           *)
(*     verdict = ECDSA(digest in force, key in force, r, s)                *)
(* where the digest / key in force is the one the call names, else the one *)
(* the object reports (sig.txid / sig.public_key) at that moment; if there *)
(* is none the call is refused.  Whether an argument of verify() sticks to *)
(* the object is the library's choice (successor SET below); what it may   *)
(* not do is report one key and verify against another, or name something  *)
(* it was never given.                                                     *)
(* Keys and digests are indices 1, 2 (0 = none / omitted); (r, s) was made *)
(* by key `signer` over digest 1, and fact[k][z] is the oracle fact         *)
(* ECDSA(z, k, r, s) of the reference implementation.                      *)
(***************************************************************************)
EXTENDS Ecdsa

ObjActs == [a : {"verify"}, z : 0..2, k : 0..2] \cup [a : {"setkey"}, z : {0}, k : 1..2] \cup [a : {"setdigest"}, z : 1..2, k : {0}]
\* how the object came to be: what it names at first, and who signed
Constructions == {"sign", "rs", "parse-k1", "parse-k2", "init-k1-signed-by-k2"}
InitObj(c) == CASE c = "sign" -> [key |-> 1, z |-> 1]                      \* sign(z1, k1) returns an object naming both
                [] c = "rs" -> [key |-> 0, z |-> 0]                          \* Signature(r, s) / parse_bytes(sig)
                [] c = "parse-k1" -> [key |-> 1, z |-> 0]                    \* parse_bytes(sig, public_key=k1)
                [] c = "parse-k2" -> [key |-> 2, z |-> 0]
                [] c = "init-k1-signed-by-k2" -> [key |-> 1, z |-> 1]        \* Signature(r, s, txid=z1, public_key=k1), (r, s) by k2
SignerOf(c) == IF c = "init-k1-signed-by-k2" THEN 2 ELSE 1

\* all call sequences of length 1..L that end with a verify call (what happens after the last verdict is not observed)
ObjSeqs(L) == UNION { {q \in [1..l -> ObjActs] : q[l].a = "verify"} : l \in 1..L }

\* states the specification allows after an action (the named key / digest may or may not follow a verify argument)
ObjSucc(st, act) ==
    CASE act.a = "setkey" -> {[st EXCEPT !.key = act.k]}
      [] act.a = "setdigest" -> {[st EXCEPT !.z = act.z]}
      [] OTHER -> {[key |-> kk, z |-> zz] : kk \in {st.key} \cup ({act.k} \ {0}), zz \in {st.z} \cup ({act.z} \ {0})}
\* verdict the specification expects of a verify call made in state st
Expected(st, act, fact) ==
    LET zf == IF act.z # 0 THEN act.z ELSE st.z
        kf == IF act.k # 0 THEN act.k ELSE st.key
    IN IF zf = 0 \/ kf = 0 THEN "reject" ELSE IF fact[kf][zf] THEN "accept" ELSE "reject"

\* judge of a recorded sequence.  e = [a, z, k, pk, tz, obs]: pk / tz = the key / digest index the object reported just
\* before the call (0 none, 3 = something it was never given), obs = "accept" | "reject" (verify calls; "" otherwise)
RECURSIVE ObjRun(_, _, _, _, _)
ObjRun(S, evs, i, fact, acc) ==
    IF i > Len(evs) THEN acc
    ELSE LET e == evs[i]
             T == {s \in S : s.key = e.pk /\ s.z = e.tz}
         IN IF T = {} THEN Append(acc, <<Bad("object-reports-key-or-digest-it-should-not-name", "", <<>>)>>)
            ELSE LET bad == e.a = "verify" /\ \E s \in T : Expected(s, e, fact) # e.obs
                     exp == Expected(CHOOSE s \in T : TRUE, e, fact)
                 IN ObjRun(UNION {ObjSucc(s, e) : s \in T}, evs, i + 1, fact,
                           Append(acc, IF bad THEN <<Bad("verdict-differs-from-ecdsa-of-digest-and-key-in-force", "", <<exp>>)>> ELSE <<>>))
ObjJudge(c, evs, fact) == ObjRun({InitObj(c)}, evs, 1, fact, <<>>)
ObjBlamed(fs) == \E i \in 1..Len(fs) : fs[i] # <<>>

\* ------------------------------------------------------------------ abstract implementations (for the model MC_EcdsaObj)
\* impl state: key, z as reported; point = the key whose curve point the verification really uses
\*   "sticks"   : arguments of verify() become the object's key / digest                      (conforming)
\*   "restores" : a key that did not verify is dropped again, completely                      (conforming)
\*   "stale"    : a key that did not verify is dropped from the report only, its point stays   (faulty)
ImplInit(c) == [key |-> InitObj(c).key, z |-> InitObj(c).z, point |-> InitObj(c).key]
ImplStep(impl, st, act, fact) ==      \* [st, ev]
    LET ev0 == [a |-> act.a, z |-> act.z, k |-> act.k, pk |-> st.key, tz |-> st.z, obs |-> ""] IN
    CASE act.a = "setkey" -> [st |-> [st EXCEPT !.key = act.k, !.point = act.k], ev |-> ev0]
      [] act.a = "setdigest" -> [st |-> [st EXCEPT !.z = act.z], ev |-> ev0]
      [] OTHER ->
           LET zf == IF act.z # 0 THEN act.z ELSE st.z
               kf == IF act.k # 0 THEN act.k ELSE st.key
               pf == IF act.k # 0 THEN act.k ELSE st.point
               ok == zf # 0 /\ kf # 0 /\ fact[pf][zf]
               keep == impl # "sticks" /\ ~ok
           IN [st |-> [key |-> IF keep THEN st.key ELSE kf, z |-> zf,
                       point |-> IF impl = "restores" /\ ~ok THEN st.point ELSE pf],
               ev |-> [ev0 EXCEPT !.obs = IF ok THEN "accept" ELSE "reject"]]
RECURSIVE ImplEvents(_, _, _, _, _)
ImplEvents(impl, st, q, i, fact) ==
    IF i > Len(q) THEN <<>>
    ELSE LET x == ImplStep(impl, st, q[i], fact) IN <<x.ev>> \o ImplEvents(impl, x.st, q, i + 1, fact)
FactOf(signer) == [k \in 1..2 |-> [z \in 1..2 |-> k = signer /\ z = 1]]
=============================================================================
