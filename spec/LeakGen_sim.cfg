SPECIFICATION Spec
CONSTANTS
  MaxLen = 7
INVARIANT Emit
CHECK_DEADLOCK FALSE
