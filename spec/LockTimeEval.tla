---------------------------- MODULE LockTimeEval ----------------------------
(* Trace binding of LockTime: a record is the serialized transaction before and after each setter call made on a real   *)
(* Transaction object (with whether the call raised, whether the object verifies afterwards and whether the            *)
(* serialization, parsed again, verifies).  The observed state is read from the bytes with the specification's own     *)
(* parser (TxFormat!ParseTx); every step is judged from the previously OBSERVED state (non-stopping fold).             *)
EXTENDS LockTime, TxFormat, Json, IOUtils, TLC
Recs == ndJsonDeserialize(IOEnv.IN_FILE)
Obs(raw) == LET p == ParseTx(raw) IN
    IF ~p.ok THEN [ok |-> FALSE, s |-> [ver |-> 0, lock |-> Zero32, seqs |-> <<>>]]
    ELSE [ok |-> TRUE, s |-> [ver |-> LET v == HL(p.tx.version) IN IF v[1] > 0 THEN 65536 ELSE v[2],
                               lock |-> HL(p.tx.locktime),
                               seqs |-> [i \in 1..Len(p.tx.ins) |-> HL(p.tx.ins[i].seq)]]]
Ev(x) == [op |-> x.op, i |-> x.i, a |-> <<x.a[1], x.a[2]>>, l |-> <<x.l[1], x.l[2]>>]
Flat(s) == <<s.ver, s.lock, s.seqs>>
\* v: clause of C02 (verification agrees with the validity of the signatures, established independently by the harness
\*    with the reference verifier over the digest); b: setter semantics (beyond the listed properties) - name of the
\*    deviation that explains the observed state, or the failing clause
Judge(preraw, x) ==
    LET o0 == Obs(preraw)
        o1 == Obs(x.raw)
        e == Ev(x)
        r == Step(o0.s, e)
        got == [ok |-> ~x.raised, s |-> o1.s]
        ds == {d \in 1..Len(Devs) : DevStep(d, o0.s, e) = got /\ DevStep(d, o0.s, e) # r}
        allvalid == \A j \in 1..Len(x.valid) : x.valid[j]
        v == IF ~o0.ok \/ ~o1.ok THEN "serialization-not-parsable"
             ELSE IF x.verified /\ ~allvalid THEN "verified-without-enough-valid-signatures"
             ELSE IF ~x.verified /\ allvalid THEN "correctly-signed-does-not-verify"
             ELSE IF x.reverified # x.verified THEN "verdict-changes-after-serialize-parse"
             ELSE "ok"
        b == IF ~o0.ok \/ ~o1.ok THEN ""
             ELSE IF got = r \/ (MayRefuse(o0.s, e) /\ got = Refused(o0.s)) THEN
                  (IF got.ok /\ ~allvalid THEN "setter-leaves-signatures-of-other-inputs-invalid" ELSE "")
             ELSE IF ds # {} THEN Devs[CHOOSE d \in ds : TRUE]
             ELSE IF r.ok /\ x.raised THEN "refused-a-valid-request"
             ELSE IF ~r.ok /\ ~x.raised THEN "accepted-a-request-with-no-encoding"
             ELSE IF ~r.ok THEN "refused-but-state-changed"
             ELSE "state-after-setter"
    IN [v |-> v, b |-> b, exp |-> Flat(r.s)]
Out == [k \in 1..Len(Recs) |->
          [steps |-> [j \in 1..Len(Recs[k].steps) |->
                        Judge(IF j = 1 THEN Recs[k].raw0 ELSE Recs[k].steps[j - 1].raw, Recs[k].steps[j])]]]
ASSUME ndJsonSerialize(IOEnv.OUT_FILE, Out)
=============================================================================
