----------------------------- MODULE WalletKeys -----------------------------
(***************************************************************************)
(* C09 - the key bookkeeping of a hierarchical deterministic wallet,       *)
(* written from BIP43/44/45/48/49/84, SLIP-44 and the statement of the     *)
(* property - not from the library.                                        *)
(*                                                                         *)
(* A *position* p = [net, wt, acct, ch, idx] names one address key of a    *)
(* wallet: network, witness type (legacy | p2sh-segwit | segwit), account, *)
(* change flag (0 receive, 1 change) and address index.  The four leading  *)
(* fields are its *chain*.                                                 *)
(*                                                                         *)
(*   FullPath(ms, cos, p)   the documented derivation path of p from the   *)
(*                          master key (sequence of [i, h]: index, hardened)*)
(*   RelPath(ms, cos, p)    the same path from the account public key (the *)
(*                          deepest hardened level): what a watch-only     *)
(*                          wallet can derive                              *)
(*   PathTokens             their text form  m/84'/0'/0'/0/7 , M/0/7       *)
(*                                                                         *)
(* State s of one wallet:                                                  *)
(*   keys   set of positions whose key exists in the wallet                *)
(*   used   subset of keys that has received funds                         *)
(*   accts  set of [net, wt, acct] that exist                              *)
(*   dflt   the default account                                            *)
(*   obj    what the caller's key object (the HDKey handed to              *)
(*          Wallet.create, a cosigner key, the object public_master        *)
(*          returns) says about itself: [wt, net] - an INPUT of the        *)
(*          wallet: no action changes it (cfg.kwt: its witness type, which *)
(*          may differ from the one the wallet was created with)           *)
(* cfg: [net, wt, acct] the wallet was created with, ms (multisig wallet   *)
(*      whose other cosigners are given as account public keys: one        *)
(*      account, one witness type, one network), cos (own cosigner index), *)
(*      watch (the wallet's origin is an ACCOUNT key - public: watch-only, *)
(*      or private - instead of a master key: it can derive M/change/index *)
(*      below that key only: one account, one witness type, one network;   *)
(*      any other request has no answer from its key material and must be  *)
(*      refused).  Origins with a master key (seed, mnemonic, extended     *)
(*      private master key) serve every witness type, account and network. *)
(*                                                                         *)
(* An action is a public call  a = [op, net, wt, acct, ch, n, idx, form,   *)
(* acctin] (form: how change and index were spelled, "path" | "args";      *)
(* acctin: the account is named in the "path" or by "arg"ument) with the   *)
(* sequence `out` of positions of the keys it handed out:                  *)
(*   new_keys      n fresh keys of a chain (new_key, new_key_change: n = 1)*)
(*   get_keys      n unused keys of a chain, created where needed          *)
(*   key_for_path  the n keys idx .. idx+n-1 of a chain, by position       *)
(*   new_account   a new account (acct = -1: the wallet chooses the number)*)
(*   mark_used     the key at idx of a chain received funds                *)
(*   reopen        the wallet object is closed and opened again            *)
(*   export        the public key of account acct is exported              *)
(*                 (public_master): the key of THAT account                *)
(*   set_default   account acct becomes the one requests without an        *)
(*                 account number refer to (the binding resolves them)     *)
(* Allowed(cfg, s, a, out) names the clause of the property the result     *)
(* violates ("ok": none); After(cfg, s, a, out) is the successor state.    *)
(* The model (MC_WalletKeys) and the trace validation (WalletKeysEval) use *)
(* these very operators.  What the property leaves open is left open:      *)
(* which unused keys get_keys hands out, whether it creates more than      *)
(* strictly needed, the number of a new account, and - after a key was     *)
(* created by explicit position beyond the end of its chain - whether the  *)
(* next fresh index fills the hole or continues behind the highest index.  *)
(***************************************************************************)
EXTENDS Naturals, Integers, Sequences, FiniteSets

(* ----------------------------- reference tables --------------------------- *)
\* BIP43 purpose per script family: BIP44, BIP49, BIP84; multisig: BIP45 (legacy P2SH), BIP48 (script type 1' / 2')
Purpose(wt, ms) == CASE ms /\ wt = "legacy"        -> 45
                     [] ms                         -> 48
                     [] wt = "legacy"              -> 44
                     [] wt = "p2sh-segwit"         -> 49
                     [] OTHER                      -> 84
ScriptTypeIdx(wt) == IF wt = "p2sh-segwit" THEN 1 ELSE 2          \* BIP48
WitnessTypes == {"legacy", "p2sh-segwit", "segwit"}
\* SLIP-44 coin types (1 = the test networks of every coin).  bitcoinlib_test is the library's own unit-test network and
\* `regtest` the library's own definition (main-net prefixes, coin type 0): both transcribed as documented there.
CoinTypes == [bitcoin |-> 0, testnet |-> 1, testnet4 |-> 1, signet |-> 1, regtest |-> 0, litecoin |-> 2,
              litecoin_legacy |-> 2, litecoin_testnet |-> 1, dogecoin |-> 3, dogecoin_testnet |-> 1,
              bitcoinlib_test |-> 9999999]
KnownNet(n) == n \in DOMAIN CoinTypes
\* witness types a network has addresses for (Dogecoin has no segregated witness)
NetHasWt(n, wt) == wt \in WitnessTypes /\ (n \in {"dogecoin", "dogecoin_testnet"} => wt = "legacy")

(* ----------------------------- paths --------------------------------------- *)
Hd(n) == [i |-> n, h |-> TRUE]
Nh(n) == [i |-> n, h |-> FALSE]
FullPath(ms, cos, p) ==
    IF ~ms THEN <<Hd(Purpose(p.wt, FALSE)), Hd(CoinTypes[p.net]), Hd(p.acct), Nh(p.ch), Nh(p.idx)>>
    ELSE IF p.wt = "legacy" THEN <<Hd(45), Nh(cos), Nh(p.ch), Nh(p.idx)>>
    ELSE <<Hd(48), Hd(CoinTypes[p.net]), Hd(p.acct), Hd(ScriptTypeIdx(p.wt)), Nh(p.ch), Nh(p.idx)>>
\* depth of the account public key ("public master"): the deepest hardened level
PubMasterDepth(ms, wt) == IF ~ms THEN 3 ELSE IF wt = "legacy" THEN 1 ELSE 4
AccountPath(ms, cos, p) == SubSeq(FullPath(ms, cos, p), 1, PubMasterDepth(ms, p.wt))
RelPath(ms, cos, p) == SubSeq(FullPath(ms, cos, p), PubMasterDepth(ms, p.wt) + 1, Len(FullPath(ms, cos, p)))
KeyDepth(ms, wt) == IF ~ms THEN 5 ELSE IF wt = "legacy" THEN 4 ELSE 6

\* text form (sequences of character codes)
RECURSIVE DecRev(_)
DecRev(n) == IF n < 10 THEN <<48 + n>> ELSE <<48 + (n % 10)>> \o DecRev(n \div 10)
Dec(n) == LET r == DecRev(n) IN [k \in 1..Len(r) |-> r[Len(r) + 1 - k]]
TokOf(e) == Dec(e.i) \o (IF e.h THEN <<39>> ELSE <<>>)
LowerM == <<109>>
UpperM == <<77>>
PathTokens(root, els) == <<root>> \o [k \in 1..Len(els) |-> TokOf(els[k])]
\* the path text of position p in a wallet of configuration cfg
PosTokens(cfg, p) == IF cfg.watch THEN PathTokens(UpperM, RelPath(cfg.ms, cfg.cos, p))
                     ELSE PathTokens(LowerM, FullPath(cfg.ms, cfg.cos, p))
AcctTokens(cfg, a) == PathTokens(LowerM, AccountPath(cfg.ms, cfg.cos, [net |-> a.net, wt |-> a.wt, acct |-> a.acct, ch |-> 0, idx |-> 0]))

IsDec(t) == t # <<>> /\ Len(t) <= 9 /\ \A k \in 1..Len(t) : t[k] \in 48..57
RECURSIVE DecVal(_)
DecVal(t) == IF t = <<>> THEN 0 ELSE DecVal(SubSeq(t, 1, Len(t) - 1)) * 10 + (t[Len(t)] - 48)
RECURSIVE SplitOn(_, _, _)
SplitOn(s, sep, cur) == IF s = <<>> THEN <<cur>>
                        ELSE IF s[1] = sep THEN <<cur>> \o SplitOn(Tail(s), sep, <<>>)
                        ELSE SplitOn(Tail(s), sep, Append(cur, s[1]))
TextTokens(t) == SplitOn(t, 47, <<>>)

(* ----------------------------- state ---------------------------------------- *)
Chain(net, wt, acct, ch) == [net |-> net, wt |-> wt, acct |-> acct, ch |-> ch]
ChainOf(p) == Chain(p.net, p.wt, p.acct, p.ch)
Pos(c, i) == [net |-> c.net, wt |-> c.wt, acct |-> c.acct, ch |-> c.ch, idx |-> i]
Acct(net, wt, acct) == [net |-> net, wt |-> wt, acct |-> acct]
AcctOf(c) == Acct(c.net, c.wt, c.acct)
ChainA(a) == Chain(a.net, a.wt, a.acct, a.ch)

Idxs(s, c) == {p.idx : p \in {q \in s.keys : ChainOf(q) = c}}
MaxOf(S) == CHOOSE x \in S : \A y \in S : y <= x
Hole(S) == CHOOSE x \in 0..Cardinality(S) : x \notin S /\ \A y \in 0..x : y = x \/ y \in S      \* lowest natural not in S
\* the index a fresh key of chain c may get: behind the highest existing one, or the lowest free one (the same number
\* unless a key was created by explicit position beyond the end of the chain)
NextSet(s, c) == IF Idxs(s, c) = {} THEN {0} ELSE {MaxOf(Idxs(s, c)) + 1, Hole(Idxs(s, c))}

\* a new wallet holds the first receiving key of its account; a multisig wallet holds no key before the first request
InitS(cfg) == [keys  |-> IF cfg.ms THEN {} ELSE {Pos(Chain(cfg.net, cfg.wt, cfg.acct, 0), 0)},
               used  |-> {},
               dflt  |-> cfg.acct,          \* the account a request without account number refers to
               obj   |-> [wt |-> cfg.kwt, net |-> cfg.net],
               accts |-> {Acct(cfg.net, cfg.wt, cfg.acct)}]

\* two networks of one wallet must not share a coin type: their keys and (where the address prefixes agree) their
\* addresses would coincide
CoinClash(s, net) == \E x \in s.accts : x.net # net /\ CoinTypes[x.net] = CoinTypes[net]
Own(cfg, a) == a.net = cfg.net /\ a.wt = cfg.wt /\ a.acct = cfg.acct
Servable(cfg, s, a) == /\ KnownNet(a.net) /\ NetHasWt(a.net, a.wt)
                       /\ ~CoinClash(s, a.net)
                       /\ (cfg.watch => Own(cfg, a) /\ a.op # "new_account")
                       /\ (cfg.ms => a.net = cfg.net /\ a.wt = cfg.wt)
                       /\ (a.op = "new_account" => ~cfg.ms \/ cfg.wt # "legacy")
\* requests that have no answer within the property: the call has to fail
MustRefuse(cfg, s, a) == a.op \in {"new_keys", "get_keys", "key_for_path", "new_account"} /\ ~Servable(cfg, s, a)
\* requests a wallet may decline although they have an answer
MayRefuse(cfg, s, a) ==
    \/ a.op = "new_account" /\ a.acct >= 0 /\ Acct(a.net, a.wt, a.acct) \in s.accts          \* the account exists
    \/ a.op \in {"mark_used", "export", "set_default"}

Distinct(q) == \A i, j \in 1..Len(q) : i # j => q[i] # q[j]
Contiguous(q) == \A i \in 2..Len(q) : q[i].idx = q[i - 1].idx + 1

(* out: what the call handed out; for new_account the position  (net, wt, number of the new account, 0, 0)        *)
Allowed(cfg, s, a, out) ==
    LET c == ChainA(a) IN
    CASE a.op = "new_keys" ->
           IF Len(out) # a.n THEN "wrong-number-of-keys"
           ELSE IF \E i \in 1..Len(out) : ChainOf(out[i]) # c THEN "key-of-another-chain"
           ELSE IF \E i \in 1..Len(out) : out[i] \in s.keys THEN "index-issued-twice"
           ELSE IF ~Contiguous(out) \/ out[1].idx \notin NextSet(s, c) THEN "gap-in-issued-indices"
           ELSE "ok"
      [] a.op = "get_keys" ->
           LET new == SelectSeq(out, LAMBDA p : p \notin s.keys) IN
           IF Len(out) # a.n THEN "wrong-number-of-keys"
           ELSE IF \E i \in 1..Len(out) : ChainOf(out[i]) # c THEN "key-of-another-chain"
           ELSE IF ~Distinct(out) THEN "same-key-handed-out-twice"
           ELSE IF \E i \in 1..Len(out) : out[i] \in s.used THEN "used-key-handed-out"
           ELSE IF new # <<>> /\ (~Contiguous(new) \/ new[1].idx \notin NextSet(s, c)) THEN "gap-in-issued-indices"
           ELSE "ok"
      [] a.op = "key_for_path" ->
           IF out # [k \in 1..a.n |-> Pos(c, a.idx + k - 1)] THEN "key-at-another-position" ELSE "ok"
      [] a.op = "new_account" ->
           IF Len(out) # 1 \/ out[1].net # a.net \/ out[1].wt # a.wt THEN "account-of-another-network-or-witness-type"
           ELSE IF a.acct >= 0 /\ out[1].acct # a.acct THEN "account-number-differs-from-request"
           ELSE IF Acct(a.net, a.wt, out[1].acct) \in s.accts THEN "account-created-twice"
           ELSE "ok"
      [] a.op = "mark_used" -> IF Pos(c, a.idx) \in s.keys THEN "ok" ELSE "unknown-key-marked-used"
      [] a.op = "export" ->         \* out: the position (net, wt, account of the exported key, 0, 0)
           \* (the top key of a wallet made from an account key keeps the witness-type label of the key it was made from)
           IF Len(out) # 1 \/ out[1].net # a.net \/ (~cfg.watch /\ out[1].wt # a.wt) \/ out[1].acct # a.acct THEN "account-key-of-another-account-exported"
           ELSE "ok"
      [] a.op = "reopen" -> "ok"
      [] a.op = "set_default" -> IF Acct(a.net, a.wt, a.acct) \in s.accts THEN "ok" ELSE "unknown-account-made-default"
      [] OTHER -> "unknown-action"

After(cfg, s, a, out) ==
    LET c == ChainA(a)
        R == {out[i] : i \in 1..Len(out)} IN
    CASE a.op \in {"new_keys", "get_keys", "key_for_path"} ->
           [s EXCEPT !.keys = @ \cup R, !.accts = @ \cup {AcctOf(c)}]        \* a first key of an account creates it
      [] a.op = "new_account" ->
           LET x == Acct(a.net, a.wt, out[1].acct) IN
           [s EXCEPT !.accts = @ \cup {x},
                     !.keys = @ \cup {Pos(Chain(x.net, x.wt, x.acct, 0), 0), Pos(Chain(x.net, x.wt, x.acct, 1), 0)}]
      [] a.op = "mark_used" -> [s EXCEPT !.used = @ \cup {Pos(c, a.idx)}]
      [] a.op = "export" -> [s EXCEPT !.accts = @ \cup {Acct(a.net, a.wt, a.acct)}]       \* the account key exists from now on
      [] a.op = "set_default" -> [s EXCEPT !.dflt = a.acct]
      [] OTHER -> s


(* ----------------------------- named deviations ----------------------------- *)
(* What the implementation is known to do instead (known findings; the property is the specification without them). *)
(* Both concern calls that create several keys at once: the second and later keys of the call are stored            *)
(*  - DevBulkWt: with the witness type the version bytes of their parent's extended key denote first, which on      *)
(*    networks whose extended-key versions (SLIP-132) do not tell all witness types apart is another one;            *)
(*  - DevBulkChange: with change 0 when the change chain was given in the path ([1, i]) and the first key existed.   *)
(* A wrong answer is attributed to a deviation only if undoing exactly its effect on the handed-out positions gives *)
(* an answer the specification allows.                                                                               *)
DevBulkWt     == "bulk-created-keys-stored-with-witness-type-of-key-version"
DevBulkChange == "bulk-created-keys-stored-with-change-0"
\* two more, judged in WalletKeysEval (they need the path text of the keys):
\*  - DevMsColumns: the change and index columns of a newly created multisig key are the `change` / `address_index`
\*    arguments of the call (for several keys: of the first), not those of its path;
\*  - DevMsForeign: a multisig wallet holding account public keys of other cosigners serves a request for another witness
\*    type or network (the other cosigners' keys then do not lie at the path the key claims).
\*  - DevWatchAcct: a wallet made from one account public key ignores a request's account number: it answers from its
\*    only account, counting indices over the (empty) account asked for - keys that were issued are issued again;
\*  - DevClashServed: requests for keys (unlike new_account) are served for a network whose coin type another network
\*    of the wallet already uses: the key lies at the other network's position and is labelled with the network asked for.
\*  - DevPathAcct: keys created for a request that names the account in its path only (key_for_path([3, 0, 0]),
\*    "m/84'/0'/3'/0/0", [3] with level_offset) are stored under the wallet's default account when that is not 0
\*    (the path wins only over a default account 0, and in a call for several keys only for the first one):
\*    path and account column disagree.
DevPathAcct    == "account-named-in-the-path-stored-as-default-account"
DevWatchAcct   == "watch-only-wallet-ignores-the-account-of-a-request"
DevClashServed == "keys-served-for-a-network-whose-coin-type-is-taken"
DevMsColumns  == "multisig-keys-stored-with-change-and-index-of-the-call-arguments"
DevMsForeign  == "multisig-wallet-with-public-cosigner-keys-serves-another-witness-type-or-network"
\* witness types whose extended private/public key version bytes coincide on a network (SLIP-132: Litecoin has Ltpv/Ltub
\* and Mtpv/Mtub only, Litecoin testnet ttpv/ttub only)
VersionClass(net, wt) == IF net \in {"litecoin", "litecoin_legacy"} THEN (IF wt = "legacy" THEN {"legacy"} ELSE {"p2sh-segwit", "segwit"})
                         ELSE IF net = "litecoin_testnet" THEN WitnessTypes
                         ELSE {wt}
Repair(D, a, out) ==
    [k \in 1..Len(out) |->
        LET p  == out[k]
            p1 == IF DevBulkWt \in D /\ k > 1 /\ p.net = a.net /\ p.wt \in VersionClass(a.net, a.wt) THEN [p EXCEPT !.wt = a.wt] ELSE p
        IN IF DevBulkChange \in D /\ k > 1 /\ a.op = "key_for_path" /\ a.form = "path" /\ a.ch = 1 /\ p1.ch = 0 THEN [p1 EXCEPT !.ch = 1] ELSE p1]
DevCombos == << <<DevBulkWt>>, <<DevBulkChange>>, <<DevBulkWt, DevBulkChange>> >>
SeqSet(q) == {q[i] : i \in 1..Len(q)}
Explains(cfg, s, a, out, ds) ==
    /\ a.op \in {"new_keys", "get_keys", "key_for_path"} /\ Len(out) > 1
    /\ \A i \in 1..Len(ds) : Repair({ds[i]}, a, out) # out                    \* every named deviation has an effect here
    /\ (DevBulkChange \in SeqSet(ds) => Pos(ChainA(a), a.idx) \in s.keys)
    /\ Allowed(cfg, s, a, Repair(SeqSet(ds), a, out)) = "ok"
\* the deviations that explain a disallowed answer (<<>>: none does)
Attribution(cfg, s, a, out) ==
    IF Explains(cfg, s, a, out, DevCombos[1]) THEN DevCombos[1]
    ELSE IF Explains(cfg, s, a, out, DevCombos[2]) THEN DevCombos[2]
    ELSE IF Explains(cfg, s, a, out, DevCombos[3]) THEN DevCombos[3]
    ELSE <<>>

(* ----------------------------- the caller's key object ---------------------- *)
\* A key object is described by a sequence of <<field, value>> (witness type, network, key bytes, chain code, depth,
\* serializations, address, flags).  Creating a wallet from it - with whatever explicit settings -, exporting account keys
\* and every wallet action leave the description as it was; hence a wallet made LATER from the same object with default
\* settings is the wallet of the object's original witness type and network (ReuseCfg), with the keys of that purpose.
ObjChanged(before, after) == {before[i][1] : i \in {j \in 1..Len(before) : j > Len(after) \/ before[j] # after[j]}}
ObjField(o, f) == o[CHOOSE i \in 1..Len(o) : o[i][1] = f][2]
ReuseCfg(o) == [net |-> ObjField(o, "network"), wt |-> ObjField(o, "witness_type"), acct |-> 0]

(* ----------------------------- design-level statements --------------------- *)
\* two different positions never have the same path: with BIP32 (C03: a path determines the key, different paths give
\* different keys unless HMAC-SHA512 collides) no two keys of a wallet share an address
PathsDistinct(cfg, S) == \A p, q \in S : p # q => FullPath(cfg.ms, cfg.cos, p) # FullPath(cfg.ms, cfg.cos, q)
\* every level down to the account public key is hardened, nothing below it is: exactly the part RelPath a watch-only
\* wallet derives is derivable from a public key
Shape(cfg, p) == /\ \A k \in 1..Len(AccountPath(cfg.ms, cfg.cos, p)) : AccountPath(cfg.ms, cfg.cos, p)[k].h
                 /\ \A k \in 1..Len(RelPath(cfg.ms, cfg.cos, p)) : ~RelPath(cfg.ms, cfg.cos, p)[k].h
                 /\ FullPath(cfg.ms, cfg.cos, p) = AccountPath(cfg.ms, cfg.cos, p) \o RelPath(cfg.ms, cfg.cos, p)
                 /\ Len(FullPath(cfg.ms, cfg.cos, p)) = KeyDepth(cfg.ms, p.wt)
=============================================================================
