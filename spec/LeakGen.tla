------------------------------- MODULE LeakGen -------------------------------
(* (G) behaviour generation: every call history of length MaxLen of the Leak state machine (property semantics), from a *)
(* private key and from a private extended key, is printed as one JSON line; the harness replays each one on real       *)
(* objects, observing the output of every call and what the subject holds afterwards.  ("encrypt" runs a slow KDF and    *)
(* is exercised by a few listed histories instead.)                                                                      *)
EXTENDS Leak, TLC, Json, SequencesExt
CONSTANTS MaxLen
VARIABLES s, hist, start
vars == <<s, hist, start>>
Init == start \in KeyKinds /\ s = NewKey(start) /\ hist = <<>>
Next == /\ Len(hist) < MaxLen
        /\ \E c \in CallsOf(s) \ ({"encrypt"} \cup (IF s.private THEN {"reflect"} ELSE {})) :
              s' = Act({}, s, c).st /\ hist' = Append(hist, c)
        /\ UNCHANGED start
Spec == Init /\ [][Next]_vars
\* the argument space of the export calls: the harness walks through it, one combination per occurrence of the call
ASSUME PrintT(<<"ARGS", ToJson([c \in CallsWithArgs |-> SetToSeq(ArgSpace(c))])>>)
Emit == (Len(hist) = MaxLen) => PrintT(<<"HIST", ToJson([start |-> start, hist |-> hist])>>)
=============================================================================
