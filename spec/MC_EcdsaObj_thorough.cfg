SPECIFICATION Spec
CONSTANTS
  MaxCalls = 4
INVARIANT ConformingNeverBlamed
INVARIANT StaleBlamedOnlyWhenWrong
CHECK_DEADLOCK FALSE
