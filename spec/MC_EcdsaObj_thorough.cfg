SPECIFICATION Spec
CONSTANTS
  MaxCalls = 4
INVARIANT ConformingNeverBlamed
INVARIANT StaleBlamedOnlyWhenWrong
INVARIANT FaultyBlamedOnlyWhenWrong
CHECK_DEADLOCK FALSE
