SPECIFICATION Spec
CONSTANTS
  MaxCalls = 3
INVARIANT ConformingNeverBlamed
INVARIANT StaleBlamedOnlyWhenWrong
INVARIANT FaultyBlamedOnlyWhenWrong
CHECK_DEADLOCK FALSE
