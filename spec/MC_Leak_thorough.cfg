SPECIFICATION Spec
CONSTANTS
  MaxLen = 4
  Deviations = {}
INVARIANT TypeOK
INVARIANT NoLeak
INVARIANT PublicViewsClean
INVARIANT PrivateViewsListed
PROPERTY PublicAbsorbing
PROPERTY PublicRequestedIsPublic
CHECK_DEADLOCK FALSE
