SPECIFICATION Spec
INVARIANT CommitmentExact
INVARIANT InputsDiffer
INVARIANT HashTypeCommitment
INVARIANT HashTypeAllIsDefault
INVARIANT HashTypesDiffer
CHECK_DEADLOCK FALSE
