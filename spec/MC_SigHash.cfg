SPECIFICATION Spec
INVARIANT CommitmentExact
INVARIANT InputsDiffer
CHECK_DEADLOCK FALSE
