---------------------------- MODULE MC_EcdsaEnv ----------------------------
(***************************************************************************)
(* Bounded model of EcdsaEnv: every interleaving of the environment's      *)
(* actions (Seed, SaveState, RestoreState, ForkSign) with sign calls, for  *)
(* the specification's signer and for a signer whose random-mode nonce is  *)
(* drawn from the ambient generator, under every mode plan.                *)
(***************************************************************************)
EXTENDS EcdsaEnv
CONSTANTS MaxSteps
VARIABLES signer, plan, st, led, prev, hist, blamed, steps
vars == <<signer, plan, st, led, prev, hist, blamed, steps>>

Init == /\ signer \in {"spec", "ambient"} /\ plan \in Plans
        /\ st = EnvInit /\ led = LedgerInit /\ prev = {} /\ hist = <<>> /\ blamed = FALSE /\ steps = 0

Step(a) ==
    /\ steps < MaxSteps
    /\ (a = "restore") => st.saved # <<>>
    /\ \E x \in {EnvStep(st, a, plan, signer)} :
         /\ st' = x.st
         /\ steps' = steps + 1
         /\ IF x.ev = <<>> THEN UNCHANGED <<led, prev, hist, blamed>>
            ELSE \E ev \in {x.ev[1]} :
                   /\ hist' = Append(hist, ev)
                   /\ led' = LedgerNext(led, ev)
                   /\ prev' = IF ev.mode = "explicit" THEN prev \cup {ev} ELSE prev
                   /\ blamed' = (blamed \/ LedgerFails(led, ev) \o ExplicitFails(prev, ev, ToyN) # <<>>)
    /\ UNCHANGED <<signer, plan>>
EnvAction == \E a \in {"seed1", "seed2", "save", "restore"} : Step(a)
SignAction == Step("sign")
ForkSignAction == Step("forksign")
Next == EnvAction \/ SignAction \/ ForkSignAction
Spec == Init /\ [][Next]_vars

\* the specification's signer is never blamed, whatever the environment does between the calls
SpecSignerNeverBlamed == signer = "spec" => ~blamed
\* the judge blames exactly the histories that break the property
ExplicitOk(h) == \A i, j \in 1..Len(h) : (h[i].mode = "explicit" /\ h[j].mode = "explicit") =>
                                            ((h[i].k = h[j].k) <=> (h[i].r = h[j].r))
JudgeExact == blamed <=> ~(HistDeterministic(hist) /\ HistNonceUnique(hist) /\ ExplicitOk(hist))
\* a nonce drawn from the ambient generator is shared exactly when the generator's state repeated between two calls
AmbientSharedOnlyViaState == (signer = "ambient" /\ blamed) =>
    \E i, j \in 1..Len(hist) : i # j /\ hist[i].mode = "random" /\ hist[j].mode = "random" /\ hist[i].r = hist[j].r

\* each way of repeating the ambient state exposes the ambient signer within the replayed behaviours, and none blames the
\* specification's signer
Exposing == { <<"seed1", "sign", "seed1", "sign">>, <<"save", "sign", "restore", "sign">>, <<"forksign", "sign">>,
              <<"seed2", "forksign", "forksign">> }
ASSUME \A b \in Exposing : /\ Blamed(EnvJudge(EnvEvents(EnvInit, b, 1, "random", "ambient"), ToyN))
                           /\ ~Blamed(EnvJudge(EnvEvents(EnvInit, b, 1, "random", "spec"), ToyN))
                           /\ b \in Behaviours(Len(b))
ASSUME \A p \in Plans : \A b \in Behaviours(3) : ~Blamed(EnvJudge(EnvEvents(EnvInit, b, 1, p, "spec"), ToyN))
=============================================================================
