SPECIFICATION Spec
CONSTANTS
  Has <- ToyHas
  Val <- ToyVal
  OrderN <- ToyN
  W <- ToyW
  QQ = 3
  MaxDepth = 2
  MToks <- MCToks
  Chains = {0, 1}
INVARIANT Commute
INVARIANT CommuteFail
INVARIANT NoHardenedFromPublic
INVARIANT Fields
INVARIANT OwnerFailsOnlyWhereSpecified
CHECK_DEADLOCK FALSE
